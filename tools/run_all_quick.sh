#!/bin/bash
# usage: tools/run_all_quick.sh [ID...]  — runs the quick tier of every (or the given) check on /repo as it is, one
# after the other, and prints exit code and wall time per check; logs under .work/logs/<ID>.q.log
cd /verif; mkdir -p .work/logs
ids=${@:-C01 C02 C03 C04 C05 C06 C07 C08 C09 C10 C11 C12 C13 C14 C15 C16 C17 C18 C19 C20}
for id in $ids; do
  s=$(date +%s); bin/check $id --tier quick > .work/logs/$id.q.log 2>&1; rc=$?; e=$(date +%s)
  echo "$id exit=$rc wall=$((e-s))s violations=$(grep -c '^VIOLATION' .work/logs/$id.q.log) known=$(grep -c '^KNOWN-FINDING' .work/logs/$id.q.log)"
done
