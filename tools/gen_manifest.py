#!/usr/bin/env python3
"""Generates /verif/MANIFEST.json from the table below (single source of truth)."""
import json, os
ROOT = os.path.dirname(os.path.dirname(os.path.abspath(__file__)))
props = [json.loads(l) for l in open(os.path.join(ROOT, 'properties.jsonl'))]

SEAM = ("Trusted base: the harness seam (real SimApp wired by e2e.AppConfig, messages through the app's MsgServiceRouter "
        "with ValidateBasic + tx atomicity, no ante handlers; begin/end blockers of the ten irismod modules), the Go "
        "reference model/oracle in harness/props/<id>, Go toolchain. Verdict holds within the stated bounds only.")

# id -> (category, technique, text, design_ref, extra note)
CHECKS = {
 "C19": ("model_checking",
         "explicit-state exhaustive search (depth-bounded DFS with canonical-state dedup) over the real record keeper on branched stores, append-only reference list compared in every state",
         "Every sequence of <= depth create/multi-message/block operations by 2 creators over 2 contents is executed on the real message server; ids are checked unique along every path and every earlier record is re-read (contents, creator, tx hash) in every reached state; the Msg service descriptor is enumerated for other entry points. Every state also reads the ids known from other paths of the process (absent unless created on this path). One part adds restart-from-genesis: every record must survive it exactly once and the module may not refuse its own export (ids recomputed on import: recorded finding). One part picks transactions so that the returned id begins with a zero byte.",
         "DESIGN.md §3 C19"),
 "C05": ("model_checking",
         "explicit-state exhaustive search over stake/unstake/harvest/adjust/destroy/block sequences on the real farm keeper (branched stores, canonical-state dedup), with a full-withdrawal epilogue in every order evaluated in every reached state",
         "All operation sequences up to the depth bound by 2-3 farmers and the creator over three pool configurations (1-2 reward denominations, future start, top-ups/rate changes/destroy, 10^18+1 stakes). In every state: sum of stakes = pool total, escrow = staked + undistributed budgets, and every farmer withdraws everything in every order on a throw-away branch - each withdrawal must succeed and pay stake + accrued. Two variants start from a genesis whose creation fee does not split evenly at the tax rate; the escrow equality covers every denomination the farm account holds.",
         "DESIGN.md §3 C05"),
 "C06": ("model_checking",
         "explicit-state exhaustive search as C05 with an exact big.Rat reference model of per-block release and stake-weighted entitlement carried along every path and compared in every reached state",
         "Same histories as C05; reference model releases reward-per-block exactly while someone is staked and splits it pro rata in exact rationals. In every state: funded = remaining + released (after settling on a branch), released = paid + collector, refund to the creator exactly once (at end height or destroy) and equal to funded - released, each farmer's paid+accrued within (interactions+1) units (+1e-18 truncation term) of the exact share; what the pool still promises to release until its end height never exceeds the remaining budget.",
         "DESIGN.md §3 C06"),
 "C01": ("model_checking",
         "exhaustive enumeration of the price functions over a finite input lattice (all small triples, powers of two +-1 up to 2^128, 5 boundary fees) plus explicit-state exhaustive search over swap/add/remove/one-sided/donate/fee-change sequences on the real coinswap keeper, invariant recomputed from observed balances in exact integers",
         "Kernel: every (amount, reserve_in, reserve_out, fee) in the lattice checked against the fee-inclusive constant-product inequality, maximality of the received amount and minimality+1 of the paid amount. Search: every operation sequence up to the depth bound on two pools (small non-round reserves and reserves near 2^127): after every successful message S'T'L^2 >= STL'^2 per pool and the fee rule per swap leg from observed reserve deltas. Orders from a denomination to itself are in the alphabet; an executed one is judged leg by leg from the bank transfer events of the message. A further part makes the first pool's escrow a vesting account with locked standard coins (reserves like any other).",
         "DESIGN.md §3 C01"),
 "C02": ("model_checking",
         "explicit-state exhaustive search over swap/liquidity message sequences with a full balance-sheet oracle (all accounts of the universe + supply per denom) and a differential bound oracle (amounts learned on a throw-away branch, then bounds set exact / off by one)",
         "Every sequence up to the depth bound of sell/buy orders (single and routed, recipient = sender / other / blocked, bounds loose / exact / missed by one, deadline now / past) and liquidity messages (incl. first add on a new pool with creation fee, re-seeding a drained pool): the observed delta of every account and every supply must equal exactly what the property allows; stated maxima/minima and deadlines are checked on what actually moved. A withdrawal offering a coin that merely looks like a liquidity token (name ending in a pool's sequence number) must never succeed, nor may a one-sided add / remove naming a third denomination that merely rests on the pool's escrow account; coins parked on the module's own account by a plain transfer stay where they are (nothing but them may rest there).",
         "DESIGN.md §3 C02"),
 "C03": ("model_checking",
         "explicit-state exhaustive search over create/claim/block/jump-to-expiry sequences on the real HTLC keeper with a contract-status reference model and a full balance-sheet oracle per message and per begin-block",
         "Every sequence up to the depth bound of creates (plain single/multi-coin, duplicate ids, timestamped hash locks, incoming/outgoing cross-chain), claims (right / wrong secret, on open / completed / refunded contracts) and block steps around the expiration height (several contracts expiring at one height): state only moves open->completed|refunded, funds move exactly once and only as the property says, refunds happen exactly in the begin-block of the expiration height with one event each, escrow = open contracts. Two further parts add restart-from-genesis (export, validation, emptied stores, InitGenesis) as an operation; the reference forgets closed contracts, which the export drops by design. The restart is offered inside a block, between two blocks (InitGenesis under the next block's height) and with an initial height 51 above the export's (overdue contracts stay open; funds leave escrow at most once). Further parts: governance freezing transfers of the locked denomination (bank SendEnabled) over an expiry, and a scripted history of 260 contracts due at one height (claims before, at and after the edge).",
         "DESIGN.md §3 C03"),
 "C04": ("model_checking",
         "explicit-state exhaustive search as C03 with two time-limited assets, block-time steps that straddle the limit period, and counters recomputed from the HTLC queries and an independent tumbling-window reference",
         "In every reached state: escrow = open ordinary + open outgoing; per asset incoming/outgoing counters = sums over open transfers; current = minted - burned = bank supply; current + incoming <= limit; amount completed inside one reference window <= time-based limit (two assets with different periods, so cross-asset interference in the window reset is visible). A part imports the exported genesis of a reachable state broken in exactly one way per case (four cases) and requires the import to refuse it; two parts add restart-from-genesis as an operation (inside a block, between two blocks, and at a later initial height); the bank-freeze and 260-contract parts of C03 run here too (escrow judged against the contracts stored as open).",
         "DESIGN.md §3 C04"),
 "C15": ("model_checking",
         "explicit-state exhaustive search over issue/mint/edit/transfer/burn/transfer-class sequences with boundary uint64 amounts on the real MT keeper, exact big-integer reference ledger compared through every query after every message",
         "Every sequence up to the depth bound by three actors with amounts {1, 2^63, 2^64-1, balance, balance+1, fill-to-max(+1)}: must-reject rules (authority, overflow, insufficient balance), every queried balance/supply/metadata/owner equals the exact model, sum of balances = supply from queries and from the raw store, generated ids never reused. A genesis-import part bends the exported genesis of a reachable state in six ways (incl. balances that wrap to the recorded supply in 64 bits): an accepted import must satisfy the conservation invariant in unbounded integers. The balances listing is also read in pages of one entry.",
         "DESIGN.md §3 C15"),
 "C20": ("exploration",
         "exhaustive enumeration over all .proto files / descriptors of both generated families linked into one binary, and over a descriptor-driven bounded value space per message (round trips in both directions); every generated client stub method of both families called once on a recording connection",
         "All 55 proto files, 318 messages, 22 services: inventory in both registries, structural descriptor comparison incl. options (file-level generator options aside), 6.7k cross-family encode/decode/re-encode round trips, and for every Msg request type: registered as sdk.Msg, signer option names an existing string field from which a signer address can be extracted; all 240 client stub methods ask for the route /<service>/<method> of their own service. The gogoproto Go value decoded in a round trip is also compared field by field, through the generated struct tags, with the api/ message. Enum fields range over the declared values, an undeclared one, -1 and -2^31.",
         "DESIGN.md §3 C20"),
 "C09": ("model_checking",
         "explicit-state exhaustive search over issue/edit/mint/burn/transfer-owner sequences by owner and stranger on the real token keeper (13 explorations: identity collisions, cap at scales 0/1/18, 9 fee-parameter sets), exact big-integer supply/burn reference compared through every query",
         "Every sequence up to the depth bound: symbol and min unit unique forever (incl. the native token), only the current owner edits/mints/hands over, non-mintable never mints, supply <= max*10^scale after every success, an accepted edit never leaves the cap below circulation, burn tally exact, fee = fee-pool part + burned part with an empty module account for tax and mint-ratio in {0,0.4,1}. One variant starts from a genesis that lists a token without an owner: every owner-only message on it must fail. One variant binds an issued token to an ERC20 contract and converts it both ways next to burns (conversions move the native amount, never the burn tally). One variant lets governance register an ERC20 contract for an IBC asset under a new, a taken and a case-variant symbol: issued tokens keep their identity.",
         "DESIGN.md §3 C09"),
 "C07": ("model_checking",
         "explicit-state exhaustive search over call/respond/withdraw/bind-update-disable-enable-refund/block sequences on the real service keeper with a relational balance-sheet oracle per message and per end-block and conservation invariants in every state",
         "Every sequence up to the depth bound over 3 providers (time promotion, volume promotion, plain price), 2 owners, a rich and a poor consumer, one-shot and repeated contexts: deposit escrow = sum of recorded deposits; request escrow = active request fees + unwithdrawn earned fees (provider and owner tallies agree); per end-block the consumer is charged exactly the fees recorded on the new requests, expired requests are refunded in full and slash floor(deposit*fraction) to the fee pool; per response fee minus floor(fee*tax) is earned and the tax reaches the fee pool; withdrawals and deposit moves are exact. A part gives the poor consumer a batch of two requests of which he can pay one: nothing may be charged for requests that are not issued. A part runs a module-owned context whose threshold is below its provider count (one provider stays silent); a part runs the consumer's pause / start / kill / update messages under the fee oracles.",
         "DESIGN.md §3 C07"),
 "C08": ("model_checking",
         "explicit-state exhaustive search over call/respond (by addressed provider, other provider, stranger, duplicate)/pause/start/kill/update (by consumer and stranger)/block sequences with a request-status and batch-schedule reference model; module callbacks registered on the real keeper and counted from emitted events",
         "Every sequence up to the depth bound: each request is answered once by its provider while active or expires at its expiration height, never both; foreign/duplicate/late answers are rejected; one-shot contexts issue one batch and are removed; an unmodified running repeated context issues batch n+1 exactly its frequency after batch n below its total, never a batch beyond its total whatever pauses and starts came before (part total-boundary), requests expire at the height they record also after governance lowered the maximum timeout below an existing context's (part outcomes-params-change), and nothing while paused (also not in the block that auto-pauses it for lack of funds); only the consumer controls a context; the registered callback fires exactly once per completed batch with success iff outputs >= threshold.",
         "DESIGN.md §3 C08"),
 "C14": ("model_checking",
         "explicit-state exhaustive search over issue/mint/edit/transfer/burn/transfer-class sequences by creator, owner and stranger on the real NFT keeper for all four restriction-flag combinations, reference ownership/metadata model compared through the queries after every message",
         "Every sequence up to the depth bound (thorough tier reaches the fixpoint of the closed system): forbidden operations never succeed, one owner per token agreeing across all queries, restricted mint only by the creator, metadata of update-restricted classes never changes (also via transfer-with-changes and after a class handover), ids stable, supply = tokens = sum of balances. A scripted part gives one owner 130 tokens of a class (more than a page of the module's listings) and judges supply, per-owner balances and the paged listings after every step. Transfers and edits also come with every field present and empty (a value, not the do-not-modify sentinel).",
         "DESIGN.md §3 C14"),
 "C16": ("model_checking",
         "exhaustive enumeration of boundary parameter sets (single-field deviations, pairs among fee/tax fields, full product for small modules) crossed with senders, genesis import and the module's operation menu, each executed on the real application on its own state branch",
         "For coinswap, farm, htlc, service, token: every parameter set of the lattice is sent by the authority and by a stranger and pushed through genesis validation/import - stored iff authority and the module's Validate() accepts; under every accepted set every operation that succeeds under the defaults is run on a fork followed by two blocks - a panic in a handler or blocker that does not occur under the defaults is a violation. Token: the base set carries a beacon address; the beacon field ranges over every accepted spelling. Each module is evaluated in a child process under an address-space limit: a parameter-sized allocation that kills the process is located by two single-worker re-runs with a marker file and reported as a process abort.",
         "DESIGN.md §3 C16"),
 "C13": ("model_checking",
         "explicit-state exhaustive search with the HTLC, farm and service drivers in block-safety mode: recover() around every real begin/end blocker, due-processing oracles (refund exactly at expiry, pool refund exactly at end height, batches exactly on schedule) and raw-queue-versus-object hygiene evaluated in every reached state",
         "Every sequence up to the depth bound including objects created, modified, paused, destroyed or re-scheduled in the block they fall due, several objects due at one height and block-time steps from 1 s to 21 days: no blocker panics or returns an error; every queue entry refers to an existing object awaiting processing at exactly its due height, every awaiting object has exactly one entry, nothing stays queued at a processed height, height markers agree with entries, no request stays active past its expiration. The htlc parts include governance delisting / relisting an asset while transfers are open, and restarts between blocks.",
         "DESIGN.md §3 C13, appendix B"),
 "C17": ("model_checking",
         "explicit-state exhaustive search over create/start/pause/edit (creator and stranger)/respond (signed, zero, large, non-numeric, error)/drain/block/jump sequences on the real oracle+service keepers, exact big-rational reference of the per-feed value list compared through the queries in every state",
         "Every sequence up to the depth bound over six fixtures (max/min/avg value sets with 3 providers, history shrink/grow, lifecycle with two feeds and funds draining, creation): each completed batch meeting its threshold appends exactly the configured aggregate (8 decimals) stamped with the block time, below threshold nothing; the list stays newest-first and within latest-history across edits; the feed state index always equals the service context state; only the creator starts, pauses or edits.",
         "DESIGN.md §3 C17"),
 "C10": ("model_checking",
         "exhaustive enumeration of LossLessSwap over all scale pairs 0..18 x an input lattice x 8 ratios against exact rational arithmetic, plus explicit-state exhaustive search over ERC20 conversions (both directions, by min unit and by symbol, swap-to-native hook, ERC20 switch off/on, restart from exported genesis) with a store-backed fault-injecting EVM (<= 1 fault per conversion) and fee-token swaps at three ratios on the real token keeper",
         "Kernel: 0 <= burned <= offered, minted*10^s_in <= burned*ratio*10^s_out, equality and unconvertible dust at ratio 1. Search: every conversion moves exactly the amount on both ledgers and keeps native+ERC20 supply constant; any failure (insufficient balance, blocked receiver, injected EVM call error / VM failure / wrong credited amount / balanceOf error) leaves both ledgers unchanged; fee swaps never burn more than offered, never mint more than worth, supplies move by exactly burned/minted, module account empty. The fee-swap registry is built once per application instance; one part issues the second fee token on the path with one of two scales; one part deploys the contract with other decimals than the token's scale (the EVM seam answers decimals() accordingly); contract-initiated conversions carry a real EVM message, addressed to the bound contract or to another contract that calls it; a conversion event naming a receiver that is no account of the chain must fail as a whole; native coins parked on the token module account stay out of every conversion. A fee-swap part issues the minted token one unit below its maximum supply.",
         "DESIGN.md §3 C10"),
 "C12": ("model_checking",
         "explicit-state exhaustive search with 15 module drivers (record, coinswap, farm x3, htlc x2, token, nft, mt x2, service, random, oracle x2; governance parameter changes offered as operations) wrapped by a genesis round-trip oracle evaluated in every reached state at the block boundary: export -> module's own validation -> InitGenesis on a second application instance with emptied stores -> export again (byte fixpoint) -> first begin-block -> query comparison on the original object ids; second variant after the modules' prepare-for-zero-height step, with a census of durable objects before/after that step",
         "In every reachable state of the drivers (bounded depth): the exported genesis (auth, bank and the module's) passes the module's ValidateGenesis, InitGenesis does not panic, the second export equals the first, and pools / stakes and pending rewards / open HTLCs and asset supplies / tokens and burn tallies / NFT classes, collections, owners, supply / MT classes, tokens, balances / service definitions, bindings, contexts, earned fees / feeds with their values / records by original id answer identically after re-import. Six bulk parts start from states with 130 objects of a module (more than a page of the paginated store walk) and ask for every object by its own id. The service driver also sets withdraw addresses for owners with 20- and 32-byte account addresses; the token identity variant (crossed symbol / min-unit names) and the ERC20 registration variant run under the wrapper too.",
         "DESIGN.md §3 C12"),
 "C18": ("model_checking",
         "exhaustive enumeration of the PRNG over a lattice of block hashes, times, requesters and seeds in two evaluation orders, plus explicit-state exhaustive search over request (plain and oracle-seeded, intervals 0..3, two requesters, chains starting at height 1 and 253)/respond (valid, malformed, error)/block sequences on the real random+service keepers with a pending-set reference model compared through the queries in every state",
         "Kernel: result in [0,1) with exactly 20 fractional digits, a function of its inputs only. Search: each request is fulfilled exactly once in the begin-block following height h+n (oracle requests when the seed arrives, never on a malformed seed or timeout), is absent from the pending queue afterwards, the stored number equals the PRNG of (previous app hash, block time, requester, seed) and reads back unchanged in every later state; several requests due at one height from two requesters and from one requester in different blocks are covered. One part adds restart-from-genesis as an operation (the reference forgets stored numbers, which the export drops by design; waiting requests must still be served), inside a block and between two blocks.",
         "DESIGN.md §3 C18"),
 "C11": ("model_checking",
         "explicit-state exhaustive search with 20 module drivers in which every transition is re-executed from the same pre-state on fresh application instances (state transplanted key by key = restart / other node) under deviating host clocks (+-7 min, +400 days, clock = block time) and map iteration orders (runtime seeds 1..7), both controlled through a build-time overlay of GOROOT's time and runtime packages; whole-application state hash, transaction result and exported genesis compared byte for byte; plus cross-process replicas: the enumerated op paths of every driver (length <= 4, first 1500) executed in three operating-system processes, one of them walking siblings in reverse order, digests of all stores and exports compared path by path",
         "Every transition of every driver up to the (reduced) depth bound: the warm search instance under the baseline environment and cold replicas under deviating environments must agree on the result class, on every KV store of the application and on a digest of what the transition returned (typed responses, events with their attributes in order, begin/end-block events); one deviation runs under another host time zone, one with node-local telemetry switched on; the digest includes the gas each transaction used; in the quick tier the restarted-node replica (which also runs in another time zone) takes every second transition; in every reached state the exported genesis of bank and the driver's modules must be identical under every map seed and clock offset. One search worker per process (seams are process-global), one process per driver. Across processes: the same history leads to the same stores and exported genesis whatever the process drew for itself (maphash seeds, start time) and whatever other paths it executed before.",
         "DESIGN.md §3 C11"),
}
NOT_YET = "check not built yet in this phase of the work (see DESIGN.md §6 change log); not claimed"

checks, na = [], []
for p in props:
    i = p['id']
    if i in CHECKS:
        cat, tech, text, ref = CHECKS[i]
        checks.append({
            "property_id": i,
            "quick_cmd": f"bin/check {i} --tier quick",
            "thorough_cmd": f"bin/check {i} --tier thorough",
            "evidence_file": f"/verif/evidence/{i}.json",
            "replay_cmd_template": f"bin/check {i} --replay {{path}}",
            "engine": "mc",
            "level_claimed": {"category": cat, "text": text, "design_ref": ref},
            "level_note": SEAM,
            "technique": tech,
        })
    else:
        na.append({"property_id": i, "reason": NOT_YET})

m = {
 "version": 1,
 "setup_cmd": "bin/setup",
 "hooks": {
   "guard": "verif",
   "enable": "no source hooks: the harness reaches everything through exported APIs and `go build -overlay` (files added/replaced at build time, /repo untouched)",
   "baseline_off_cmd": "for m in api e2e modules/coinswap modules/farm modules/htlc modules/mt modules/nft modules/oracle modules/random modules/record modules/service modules/token simapp; do (cd /repo/$m && GOFLAGS=-mod=mod go test -vet=off -count=1 -timeout 25m ./...); done",
   "source_commits": [],
   "add_only": True,
 },
 "engines": [{
   "name": "mc", "path": "/verif/harness/mc",
   "serves_properties": [c["property_id"] for c in checks],
   "kind_free_text": "hand-written explicit-state model checker in Go: depth-bounded exhaustive DFS over operation alphabets executed on the real application (copy-on-write store branches as states, SHA-256 canonical state dedup, 16 workers with cross-instance prefix-replay validation), Go reference models and step/state oracles, exhaustive kernel enumerations over finite input lattices",
 }],
 "checks": checks,
 "not_applicable": na,
 "notes": "See DESIGN.md. known_findings.json lists genuine defects (status known / fixed).",
}
json.dump(m, open(os.path.join(ROOT, 'MANIFEST.json'), 'w'), indent=1)
print("checks:", [c['property_id'] for c in checks])
