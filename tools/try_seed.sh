#!/bin/bash
# usage: tools/try_seed.sh <patch.diff> <check id>...   — applies the patch to /repo, runs the checks, reverts.
patch=$1; shift
git -C /repo apply "$patch" || { echo "patch does not apply"; exit 3; }
trap 'git -C /repo checkout -- . ; git -C /repo status --short' EXIT
for id in "$@"; do
  echo "=== $id with $(basename $(dirname $patch))"
  /verif/bin/check $id 2>&1 | grep -v "^\[" | cut -c1-500
  echo "exit=${PIPESTATUS[0]}"
done
