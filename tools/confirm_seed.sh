#!/bin/bash
# usage: tools/confirm_seed.sh <ID> <module> <demo-dest-relative-path> <demo run cmd (run inside modules/<module>)>
# Confirms a seeded change in its scratch worktree /tmp/wt/<ID>: patch applies and builds, existing tests of the
# module and its e2e package pass with it, the demonstration fails with it and passes without it.
# (SEEDOUT overrides /tmp/seedout.) Writes /tmp/seedout/<ID>/confirm.log and prints a one-line verdict.
id=$1; mod=$2; dest=$3; shift 3; democmd="$*"
wt=${WT:-/tmp/wt}/$id; out=${SEEDOUT:-/tmp/seedout}/$id; log=$out/confirm.log
export GOFLAGS=-mod=mod GOPROXY=off GOSUMDB=off GOTOOLCHAIN=local
: > $log
cd $wt || exit 3
git checkout -q -- . && git clean -qfd
git apply $out/patch.diff >>$log 2>&1 || { echo "$id: PATCH DOES NOT APPLY"; exit 3; }
(cd modules/$mod && go build ./... ) >>$log 2>&1 || { echo "$id: BUILD FAILS"; exit 3; }
echo "== existing module tests with patch" >>$log
(cd modules/$mod && go test -vet=off -count=1 -timeout 25m ./... ) >>$log 2>&1; t1=$?
echo "== existing e2e tests with patch" >>$log
t2=0
if [ -d e2e/$mod ]; then (cd e2e && go test -vet=off -count=1 -timeout 30m ./$mod/... ) >>$log 2>&1; t2=$?; fi
if [ $t2 -ne 0 ]; then sleep 20; (cd e2e && go test -vet=off -count=1 -timeout 30m ./$mod/... ) >>$log 2>&1; t2=$?; fi
cp $out/demo_test.go $dest
echo "== demo with patch" >>$log
(cd modules/$mod && eval "$democmd") >>$log 2>&1; d1=$?
git apply -R $out/patch.diff
echo "== demo without patch" >>$log
(cd modules/$mod && eval "$democmd") >>$log 2>&1; d2=$?
git checkout -q -- . && git clean -qfd
v="$id: module-tests=$t1 e2e-tests=$t2 demo-with-patch=$d1 demo-without-patch=$d2"
if [ $t1 -eq 0 ] && [ $t2 -eq 0 ] && [ $d1 -ne 0 ] && [ $d2 -eq 0 ]; then v="$v CONFIRMED"; else v="$v NOT-CONFIRMED"; fi
echo "$v" | tee -a $log
