#!/bin/bash
# usage: tools/mk_overlay.sh <patch.diff> <outdir>
# Builds a `go build -overlay` description that applies the patch to copies of the touched /repo files,
# leaving /repo untouched. Use with: VERIF_OVERLAY=<outdir>/overlay.json bin/check <ID>
set -eu
patch=$(readlink -f "$1"); out=$(readlink -f -m "$2"); repo=${REPO:-/repo}
rm -rf "$out"; mkdir -p "$out/tree"
files=$(grep '^+++ b/' "$patch" | sed 's#^+++ b/##')
for f in $files; do mkdir -p "$out/tree/$(dirname $f)"; [ -f "$repo/$f" ] && cp "$repo/$f" "$out/tree/$f"; done
( cd "$out/tree" && patch -s -p1 < "$patch" )
{
  echo '{"Replace": {'
  first=1
  for f in $files; do
    [ $first -eq 1 ] || echo ','
    first=0
    # overlay targets must not sit inside a Go package dir with a .go suffix that could be compiled twice: keep .go, they live outside any module
    printf '  "%s/%s": "%s/tree/%s"' "$repo" "$f" "$out" "$f"
  done
  echo
  echo '}}'
} > "$out/overlay.json"
echo "$out/overlay.json"
