#!/usr/bin/env python3
"""Generates patched copies of GOROOT's time/time.go and runtime/map.go plus an overlay description:
 - time.Now() adds a harness-settable offset (host clock seam),
 - map iteration start position and per-map hash seed come from a harness-settable seed (map order seam).
Each substitution is anchored and must match exactly once, otherwise the script fails loudly."""
import json, os, subprocess, sys
root = os.path.dirname(os.path.dirname(os.path.abspath(__file__)))
out = os.path.join(root, '.work', 'goroot'); os.makedirs(out, exist_ok=True)
goroot = subprocess.check_output(['go', 'env', 'GOROOT']).decode().strip()

def sub(s, old, new, count=1):
    n = s.count(old)
    if n != count:
        sys.exit("anchor %r found %d times, expected %d" % (old, n, count))
    return s.replace(old, new)

t = open(os.path.join(goroot, 'src/time/time.go')).read()
t = sub(t, "func Now() Time {\n\tsec, nsec, mono := now()\n",
 "func Now() Time {\n\tsec, nsec, mono := now()\n\tif verifClockOffset != 0 {\n\t\ttot := sec*1e9 + int64(nsec) + verifClockOffset\n\t\tsec, nsec = tot/1e9, int32(tot%1e9)\n\t\tmono += verifClockOffset\n\t}\n")
t += '''
// ---- verification seam (added by /verif/tools/gen_goroot_overlay.py) ----

var verifClockOffset int64 // nanoseconds added to the host clock

// VerifSetClockOffset shifts what Now() reports by d.
func VerifSetClockOffset(d Duration) { verifClockOffset = int64(d) }

//go:linkname verifSetMapSeed runtime.verifSetMapSeed
func verifSetMapSeed(on bool, seed uint64)

// VerifSetMapSeed fixes (on) or releases (off) the runtime's map iteration randomness.
func VerifSetMapSeed(on bool, seed uint64) { verifSetMapSeed(on, seed) }
'''
open(os.path.join(out, 'time.go.txt'), 'w').write(t)

m = open(os.path.join(goroot, 'src/runtime/map.go')).read()
m = sub(m, "\tr := uintptr(rand())\n", "\tr := uintptr(rand())\n\tif verifSeedOn {\n\t\tr = uintptr(verifSeed)\n\t}\n")
m += '''
// ---- verification seam (added by /verif/tools/gen_goroot_overlay.py) ----

var (
	verifSeedOn bool
	verifSeed   uint64
)

//go:linkname verifSetMapSeed
func verifSetMapSeed(on bool, seed uint64) {
	verifSeedOn, verifSeed = on, seed
}
'''
open(os.path.join(out, 'map.go.txt'), 'w').write(m)
ov = {"Replace": {os.path.join(goroot, 'src/time/time.go'): os.path.join(out, 'time.go.txt'),
                  os.path.join(goroot, 'src/runtime/map.go'): os.path.join(out, 'map.go.txt')}}
json.dump(ov, open(os.path.join(out, 'overlay.json'), 'w'), indent=1)
print(os.path.join(out, 'overlay.json'))
