#!/bin/bash
# usage: tools/mk_mutant.sh <ID> <name> <repo-relative-file> <python-replace-old> <python-replace-new>
# Creates /verif/mutants/<ID>/<name>.diff (a unified diff against the repo root) by replacing one exact substring.
set -eu
id=$1; name=$2; f=$3; old=$4; new=$5
mkdir -p /verif/mutants/$id; tmp=$(mktemp -d)
mkdir -p $tmp/a/$(dirname $f) $tmp/b/$(dirname $f)
cp /repo/$f $tmp/a/$f
python3 - "$tmp/a/$f" "$tmp/b/$f" "$old" "$new" <<'PY'
import sys
a,b,old,new=sys.argv[1:5]
s=open(a).read()
assert s.count(old)==1, "substring must occur exactly once, found %d"%s.count(old)
open(b,'w').write(s.replace(old,new))
PY
( cd $tmp && diff -u a/$f b/$f > /verif/mutants/$id/$name.diff || true )
rm -rf $tmp; echo "/verif/mutants/$id/$name.diff"
