#!/bin/bash
# usage: tools/confirm_wave.sh <wave-number> <ID>...   — runs tools/confirm_seed.sh for seeds of a wave using the fields the
# sub-agent recorded in /tmp/seedout<N>/<ID>/meta.json (module, demo_dest, demo_cmd); prints one verdict line per seed.
n=$1; shift
for id in "$@"; do
  m=/tmp/seedout$n/$id/meta.json
  [ -f $m ] || { echo "$id: no meta.json"; continue; }
  mod=$(python3 -c "import json;print(json.load(open('$m')).get('module',''))")
  dest=$(python3 -c "import json;print(json.load(open('$m')).get('demo_dest',''))")
  cmd=$(python3 -c "import json;print(json.load(open('$m')).get('demo_cmd',''))")
  WT=/tmp/wt$n SEEDOUT=/tmp/seedout$n /verif/tools/confirm_seed.sh $id "$mod" "$dest" "$cmd"
done
