#!/bin/bash
# usage: tools/run_mutants.sh <ID> [check ids...] — runs every /verif/mutants/<ID>/*.diff through an overlay build;
# prints CAUGHT (exit 1 with VIOLATION) or MISSED per mutant.
id=$1; shift; checks=${@:-$id}
for d in /verif/mutants/$id/*.diff; do
  n=$(basename $d .diff); ov=/tmp/ovl/mut-$id-$n
  /verif/tools/mk_overlay.sh $d $ov >/dev/null || { echo "$id/$n: OVERLAY FAILED"; continue; }
  for c in $checks; do
    out=$(VERIF_OVERLAY=$ov/overlay.json /verif/bin/check $c 2>&1); rc=$?
    sig=$(echo "$out" | grep "^violation detail" | head -1 | cut -c1-160)
    if [ $rc -eq 1 ] && echo "$out" | grep -q "^VIOLATION"; then echo "$id/$n vs $c: CAUGHT  $sig"; else echo "$id/$n vs $c: MISSED (exit $rc)"; fi
  done
  rm -rf $ov
done
