#!/bin/bash
# Runs every seeded change under /verif/seeded/<ID>/patch.diff through the check of its property (overlay build,
# /repo untouched) and records the verdict in /verif/seeded/<ID>/detection.json. usage: tools/eval_seeds.sh [ID...]
cd /verif
ids=${@:-$(ls seeded)}
for id in $ids; do
  p=seeded/$id/patch.diff; [ -f $p ] || continue
  ov=/tmp/ovl/eval-$id
  if ! git -C /repo apply --check $PWD/$p 2>/dev/null; then
    echo "$id: patch does not apply to the current tree (see seeded/$id/NOTE.md)"; continue
  fi
  tools/mk_overlay.sh $p $ov >/dev/null || { echo "$id: overlay failed"; continue; }
  out=$(VERIF_OVERLAY=$ov/overlay.json bin/check $id 2>&1); rc=$?
  sig=$(echo "$out" | grep "^violation detail" | head -1 | sed 's/^violation detail: //' | cut -c1-300)
  path=$(echo "$out" | grep "^  path:" | head -1 | sed 's/^  path: //')
  python3 - "$id" "$rc" "$sig" "$path" <<'PY'
import json,sys
id,rc,sig,path=sys.argv[1:5]
json.dump({"seed":id,"check":"bin/check %s (quick tier, overlay build)"%id,"exit_code":int(rc),"caught":int(rc)==1,"first_violation":sig,"path":path},open('/verif/seeded/%s/detection.json'%id,'w'),indent=1)
print(id, "CAUGHT" if int(rc)==1 else "MISSED(exit %s)"%rc, sig[:120])
PY
  rm -rf $ov
done
