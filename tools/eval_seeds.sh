#!/bin/bash
# Runs every seeded change under /verif/seeded/<ID>/patch.diff through the check of its property (overlay build,
# /repo untouched) and records the verdict in /verif/seeded/<ID>/detection.json. usage: tools/eval_seeds.sh [ID...]
cd /verif
ids=${@:-$(ls seeded)}
for sid in $ids; do
  id=${sid%%-*}
  p=seeded/$sid/patch.diff; [ -f $p ] || continue
  # every overlay build leaves its own artefacts in the Go build cache: trim it before the disk fills up
  free=$(df --output=avail -BG / | tail -1 | tr -dc 0-9)
  if [ "${free:-100}" -lt 25 ]; then (. bin/env.sh; go clean -cache >/dev/null 2>&1); fi
  ov=/tmp/ovl/eval-$sid
  if ! git -C /repo apply --check $PWD/$p 2>/dev/null; then
    echo "$sid: patch does not apply to the current tree (see seeded/$sid/NOTE.md)"; continue
  fi
  tools/mk_overlay.sh $p $ov >/dev/null || { echo "$sid: overlay failed"; continue; }
  out=$(VERIF_OVERLAY=$ov/overlay.json bin/check $id 2>&1); rc=$?
  sig=$(echo "$out" | grep "^violation detail" | head -1 | sed 's/^violation detail: //' | cut -c1-300)
  path=$(echo "$out" | grep "^  path:" | head -1 | sed 's/^  path: //')
  python3 - "$id" "$rc" "$sig" "$path" "$sid" <<'PY'
import json,sys
id,rc,sig,path,sid=sys.argv[1:6]
json.dump({"seed":sid,"check":"bin/check %s (quick tier, overlay build)"%id,"exit_code":int(rc),"caught":int(rc)==1,"first_violation":sig,"path":path},open('/verif/seeded/%s/detection.json'%sid,'w'),indent=1)
print(sid, "CAUGHT" if int(rc)==1 else "MISSED(exit %s)"%rc, sig[:120])
PY
  rm -rf $ov
done
