#!/bin/bash
# usage: tools/eval_seed_on_base.sh <ID> <base-commit>
# For a seeded change whose patch no longer applies to the current tree (a later fix: commit rewrote the same
# lines): overlay the touched files AS THEY WERE at <base-commit> plus the patch, and run the property's check.
set -u
id=$1; base=$2; cd /verif
p=$PWD/seeded/$id/patch.diff; ov=/tmp/ovl/evalbase-$id; rm -rf $ov; mkdir -p $ov/tree
files=$(grep '^+++ b/' $p | sed 's#^+++ b/##')
for f in $files; do mkdir -p $ov/tree/$(dirname $f); git -C /repo show $base:$f > $ov/tree/$f; done
(cd $ov/tree && patch -s -p1 < $p) || { echo "$id: patch does not apply to $base either"; exit 3; }
{ echo '{"Replace": {'; first=1; for f in $files; do [ $first -eq 1 ] || echo ','; first=0; printf '  "/repo/%s": "%s/tree/%s"' "$f" "$ov" "$f"; done; echo; echo '}}'; } > $ov/overlay.json
out=$(VERIF_OVERLAY=$ov/overlay.json bin/check ${id%%-*} 2>&1); rc=$?
echo "$out" | grep "^violation detail" | sed 's/^violation detail: //' | cut -c1-200 | sort -u | head -8
python3 - "$id" "$rc" "$base" "$(echo "$out" | grep "^violation detail" | sed 's/^violation detail: //' | cut -c1-200 | sort -u | head -8)" <<'PY'
import json,sys
id,rc,base,sigs=sys.argv[1:5]
json.dump({"seed":id,"check":"bin/check %s (quick tier) on an overlay of the touched files as of %s plus the patch"%(id,base),"exit_code":int(rc),"caught":int(rc)==1,
 "violations":sigs.split("\n"),"note":"the patch no longer applies to the current tree because a later fix: commit rewrote the same lines; the pre-fix defect's signatures may appear next to the seed's"},open('/verif/seeded/%s/detection.json'%id,'w'),indent=1)
print(id,"CAUGHT" if int(rc)==1 else "MISSED(exit %s)"%rc)
PY
rm -rf $ov
