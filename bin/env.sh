# sourced by every script: offline Go environment + harness module files derived from /repo
export GOFLAGS=-mod=mod GOPROXY=off GOSUMDB=off GOTOOLCHAIN=local
export VERIF_ROOT=${VERIF_ROOT:-$(cd "$(dirname "${BASH_SOURCE[0]}")/.." && pwd)}
export REPO=${REPO:-/repo}
gen_gomod() {
  # harness go.mod = /repo/e2e/go.mod with relative replaces made absolute
  local h=$VERIF_ROOT/harness
  local tmp=$h/go.mod.tmp.$$
  sed -e 's#^module mods.irisnet.org/e2e#module verif/harness#' \
      -e "s#=> \.\./#=> $REPO/#" $REPO/e2e/go.mod > $tmp
  # add e2e itself
  awk -v repo="$REPO" '
    /^replace \(/ && !done {print; print "\tmods.irisnet.org/e2e => " repo "/e2e"; done=1; next} {print}' $tmp > $tmp.2
  # require e2e
  awk '
    /^require \(/ && !done {print; print "\tmods.irisnet.org/e2e v0.0.0-00010101000000-000000000000"; done=1; next} {print}' $tmp.2 > $tmp
  rm -f $tmp.2
  if ! cmp -s $tmp $h/go.mod 2>/dev/null; then mv $tmp $h/go.mod; else rm -f $tmp; fi
  if ! cmp -s $REPO/e2e/go.sum $h/go.sum 2>/dev/null; then cp $REPO/e2e/go.sum $h/go.sum; fi
}
