//go:build !verifenv

package envseam

import "time"

// Controlled is false in binaries built without the GOROOT overlay.
const Controlled = false

func SetClockOffset(d time.Duration)  {}
func SetMapSeed(on bool, seed uint64) {}
