//go:build verifenv

package envseam

import "time"

// Controlled reports whether this binary was built with the GOROOT overlay that puts the host clock and
// the runtime's map iteration randomness under harness control.
const Controlled = true

// SetClockOffset shifts the host clock as seen by time.Now / time.Since.
func SetClockOffset(d time.Duration) { time.VerifSetClockOffset(d) }

// SetMapSeed fixes the map iteration start position (on) or releases it (off).
func SetMapSeed(on bool, seed uint64) { time.VerifSetMapSeed(on, seed) }
