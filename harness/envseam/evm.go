// Package envseam holds environment seams owned by the harness. EVM is a store-backed stand-in for the
// EVM behind tokentypes.EVMKeeper: its ERC20 ledger lives in a KV store of the application's multistore, so
// it branches with every search node and rolls back with every failed transaction (like a real EVM state
// DB), and it can be told to misbehave once (fault injection).
package envseam

import (
	"context"
	"fmt"
	"math/big"

	storetypes "cosmossdk.io/store/types"
	cryptotypes "github.com/cosmos/cosmos-sdk/crypto/types"
	sdk "github.com/cosmos/cosmos-sdk/types"
	"github.com/ethereum/go-ethereum/common"
	"github.com/ethereum/go-ethereum/core"
	"github.com/ethereum/go-ethereum/core/vm"
	"github.com/ethereum/go-ethereum/crypto"

	"mods.irisnet.org/modules/token/contracts"
	tokentypes "mods.irisnet.org/modules/token/types"
)

// Fault kinds.
const (
	FaultNone        = ""
	FaultCallError   = "call-error"    // the state-changing EVM call returns an error
	FaultVMFailed    = "vm-failed"     // the call returns a result with a VM error
	FaultWrongAmount = "wrong-amount"  // the contract credits/debits one unit less than asked
	FaultBalanceErr  = "balance-error" // balanceOf fails
)

// EVM implements tokentypes.EVMKeeper.
type EVM struct {
	Key   storetypes.StoreKey
	Fault string // applies to the next matching call, then resets
}

var _ tokentypes.EVMKeeper = (*EVM)(nil)

var pfx = []byte("verif/evm/")

func k(parts ...[]byte) []byte {
	out := append([]byte{}, pfx...)
	for _, p := range parts {
		out = append(out, p...)
		out = append(out, '/')
	}
	return out
}

func (e *EVM) store(ctx sdk.Context) storetypes.KVStore { return ctx.MultiStore().GetKVStore(e.Key) }

func (e *EVM) ChainID() *big.Int                           { return big.NewInt(16688) }
func (e *EVM) SupportedKey(pubKey cryptotypes.PubKey) bool { return true }
func (e *EVM) EstimateGas(ctx context.Context, req *tokentypes.EthCallRequest) (uint64, error) {
	return 3000000, nil
}

// BalanceOf reads the ledger directly (harness observation).
func (e *EVM) BalanceOf(ctx sdk.Context, contract, holder common.Address) *big.Int {
	b := e.store(ctx).Get(k([]byte("b"), contract.Bytes(), holder.Bytes()))
	return new(big.Int).SetBytes(b)
}

// TotalSupply of a contract (sum of all credits minus debits).
func (e *EVM) TotalSupply(ctx sdk.Context, contract common.Address) *big.Int {
	b := e.store(ctx).Get(k([]byte("t"), contract.Bytes()))
	return new(big.Int).SetBytes(b)
}

func (e *EVM) HasContract(ctx sdk.Context, contract common.Address) bool {
	return e.store(ctx).Has(k([]byte("c"), contract.Bytes()))
}

func (e *EVM) add(ctx sdk.Context, contract, holder common.Address, delta *big.Int) error {
	st := e.store(ctx)
	bal := new(big.Int).Add(e.BalanceOf(ctx, contract, holder), delta)
	if bal.Sign() < 0 {
		return fmt.Errorf("erc20: burn amount exceeds balance")
	}
	tot := new(big.Int).Add(e.TotalSupply(ctx, contract), delta)
	st.Set(k([]byte("b"), contract.Bytes(), holder.Bytes()), bal.Bytes())
	st.Set(k([]byte("t"), contract.Bytes()), tot.Bytes())
	return nil
}

// Burn is what the contract's own swapToNative does inside an EVM transaction (used by the hook op).
func (e *EVM) Burn(ctx sdk.Context, contract, holder common.Address, amt *big.Int) error {
	return e.add(ctx, contract, holder, new(big.Int).Neg(amt))
}

func (e *EVM) takeFault(kinds ...string) string {
	for _, kd := range kinds {
		if e.Fault == kd {
			e.Fault = FaultNone
			return kd
		}
	}
	return FaultNone
}

func (e *EVM) ApplyMessage(ctx sdk.Context, msg core.Message, tracer vm.EVMLogger, commit bool) (*tokentypes.Result, error) {
	if msg.To() == nil {
		contractAddr := crypto.CreateAddress(msg.From(), msg.Nonce())
		e.store(ctx).Set(k([]byte("c"), contractAddr.Bytes()), []byte{1})
		// the proxy's constructor carries initialize(name, symbol, decimals, owner): the contract answers decimals()
		// with what it was deployed with, like the real one
		if dec, ok := deployedDecimals(msg.Data()); ok {
			e.store(ctx).Set(k([]byte("d"), contractAddr.Bytes()), []byte{dec})
		}
		return &tokentypes.Result{Hash: contractAddr.Hex()}, nil
	}
	contract := *msg.To()
	if !e.HasContract(ctx, contract) {
		return nil, fmt.Errorf("erc20 contract not found")
	}
	data := msg.Data()
	method, err := contracts.ERC20TokenContract.ABI.MethodById(data[0:4])
	if err != nil {
		return nil, err
	}
	args, err := method.Inputs.Unpack(data[4:])
	if err != nil {
		return nil, err
	}
	res := &tokentypes.Result{Hash: contract.Hex()}
	switch method.Name {
	case "balanceOf":
		if e.takeFault(FaultBalanceErr) != "" {
			return nil, fmt.Errorf("injected: balanceOf failed")
		}
		res.Ret, err = method.Outputs.Pack(e.BalanceOf(ctx, contract, args[0].(common.Address)))
		return res, err
	case "mint", "burn":
		switch e.takeFault(FaultCallError, FaultVMFailed, FaultWrongAmount) {
		case FaultCallError:
			return nil, fmt.Errorf("injected: evm call failed")
		case FaultVMFailed:
			res.VMError = "execution reverted"
			return res, nil
		case FaultWrongAmount:
			amt := new(big.Int).Sub(args[1].(*big.Int), big.NewInt(1))
			if method.Name == "burn" {
				amt.Neg(amt)
			}
			if err := e.add(ctx, contract, args[0].(common.Address), amt); err != nil {
				res.VMError = err.Error()
			}
			return res, nil
		}
		amt := new(big.Int).Set(args[1].(*big.Int))
		if method.Name == "burn" {
			amt.Neg(amt)
		}
		if err := e.add(ctx, contract, args[0].(common.Address), amt); err != nil {
			res.VMError = err.Error()
		}
		return res, nil
	case "decimals":
		dec := uint8(18)
		if bz := e.store(ctx).Get(k([]byte("d"), contract.Bytes())); len(bz) == 1 {
			dec = bz[0]
		}
		res.Ret, err = method.Outputs.Pack(dec)
		return res, err
	case "totalSupply":
		res.Ret, err = method.Outputs.Pack(e.TotalSupply(ctx, contract))
		return res, err
	default:
		return nil, fmt.Errorf("unknown method %s", method.Name)
	}
}

// deployedDecimals reads the decimals argument of the initialize call embedded in the proxy deployment data
// (creation code || abi(beacon, initialize(name, symbol, decimals, owner))).
func deployedDecimals(data []byte) (dec uint8, ok bool) {
	defer func() {
		if recover() != nil {
			ok = false
		}
	}()
	bin := contracts.TokenProxyContract.Bin
	if len(data) <= len(bin) {
		return 0, false
	}
	args, err := contracts.TokenProxyContract.ABI.Constructor.Inputs.Unpack(data[len(bin):])
	if err != nil || len(args) != 2 {
		return 0, false
	}
	init, isBytes := args[1].([]byte)
	if !isBytes || len(init) < 4 {
		return 0, false
	}
	m, err := contracts.ERC20TokenContract.ABI.MethodById(init[:4])
	if err != nil {
		return 0, false
	}
	in, err := m.Inputs.Unpack(init[4:])
	if err != nil || len(in) < 3 {
		return 0, false
	}
	d, isU8 := in[2].(uint8)
	return d, isU8
}
