// Package mc is the model-checking engine: a real irismod SimApp whose state is
// branched (copy-on-write) per search node, transaction delivery with on-chain
// atomicity, block stepping through the real begin/end blockers, canonical state
// hashing, and a depth-bounded exhaustive explorer.
package mc

import (
	"crypto/sha256"
	"encoding/binary"
	"encoding/json"
	"fmt"
	"sort"
	"sync"
	"time"

	"cosmossdk.io/log"
	sdkmath "cosmossdk.io/math"
	storetypes "cosmossdk.io/store/types"
	abci "github.com/cometbft/cometbft/abci/types"
	cmtproto "github.com/cometbft/cometbft/proto/tendermint/types"
	dbm "github.com/cosmos/cosmos-db"
	"github.com/cosmos/cosmos-sdk/baseapp"
	"github.com/cosmos/cosmos-sdk/codec"
	codectypes "github.com/cosmos/cosmos-sdk/codec/types"
	cryptocodec "github.com/cosmos/cosmos-sdk/crypto/codec"
	"github.com/cosmos/cosmos-sdk/crypto/keys/ed25519"
	"github.com/cosmos/cosmos-sdk/crypto/keys/secp256k1"
	simtestutil "github.com/cosmos/cosmos-sdk/testutil/sims"
	sdk "github.com/cosmos/cosmos-sdk/types"
	authtypes "github.com/cosmos/cosmos-sdk/x/auth/types"
	banktypes "github.com/cosmos/cosmos-sdk/x/bank/types"
	govtypes "github.com/cosmos/cosmos-sdk/x/gov/types"
	stakingtypes "github.com/cosmos/cosmos-sdk/x/staking/types"

	"mods.irisnet.org/e2e"
	coinswapkeeper "mods.irisnet.org/modules/coinswap/keeper"
	farmkeeper "mods.irisnet.org/modules/farm/keeper"
	htlckeeper "mods.irisnet.org/modules/htlc/keeper"
	htlctypes "mods.irisnet.org/modules/htlc/types"
	mtkeeper "mods.irisnet.org/modules/mt/keeper"
	nftkeeper "mods.irisnet.org/modules/nft/keeper"
	oraclekeeper "mods.irisnet.org/modules/oracle/keeper"
	randomkeeper "mods.irisnet.org/modules/random/keeper"
	recordkeeper "mods.irisnet.org/modules/record/keeper"
	servicekeeper "mods.irisnet.org/modules/service/keeper"
	tokenkeeper "mods.irisnet.org/modules/token/keeper"
	tokentypes "mods.irisnet.org/modules/token/types"
	"mods.irisnet.org/simapp"
)

// GenesisTime is the fixed genesis time of every harness chain (never the host clock).
var GenesisTime = time.Unix(1700000000, 0).UTC()

// ChainID of every harness chain.
const ChainID = "verif-1"

// IrismodModules are the ten modules under test, in the order the app config runs their
// begin/end blockers.
var IrismodModules = []string{"coinswap", "farm", "htlc", "mt", "nft", "service", "oracle", "random", "record", "token"}

// Env is one real application instance plus handles on its keepers.
type Env struct {
	App *simapp.SimApp
	Cdc codec.Codec
	DB  dbm.DB

	Coinswap coinswapkeeper.Keeper
	Farm     farmkeeper.Keeper
	HTLC     htlckeeper.Keeper
	MT       mtkeeper.Keeper
	NFT      nftkeeper.Keeper
	Oracle   oraclekeeper.Keeper
	Random   randomkeeper.Keeper
	Record   recordkeeper.Keeper
	Service  servicekeeper.Keeper
	Token    tokenkeeper.Keeper

	// Root is the finalize-state context right after InitChain (height 1, genesis time).
	Root sdk.Context

	// BlockModules are the modules whose begin/end blockers NextBlock runs.
	BlockModules []string

	Opts EnvOptions

	// Results, when set, accumulates a digest of every transaction and block result (see ResultLog).
	Results *ResultLog

	// BetweenBlocks, when set, runs once between the end-block and begin-block halves of the next NextBlock.
	BetweenBlocks func(ctx sdk.Context) sdk.Context

	// Trace, when set, records every transaction and block step executed on the main path (conformance pass).
	Trace *Tracer
}

// EnvOptions configure the genesis of a harness chain.
type EnvOptions struct {
	// Balances: account name -> coins. Accounts are derived with Addr(name).
	Balances map[string]sdk.Coins
	// GenesisMutators edit the default genesis JSON of a module before InitChain.
	GenesisMutators map[string]func(cdc codec.Codec, raw json.RawMessage) json.RawMessage
	// EVM overrides the EVM keeper handed to the token module (default: the repository's mock).
	EVM tokentypes.EVMKeeper
	// BlockModules overrides the modules stepped by NextBlock (default: IrismodModules).
	BlockModules []string
	// DB overrides the backing database (default: fresh MemDB).
	DB dbm.DB
	// SkipInitChain builds the app without running InitChain (used by genesis import checks).
	SkipInitChain bool
	// InitialHeight is the chain's first block height (default 1). Heights are keys of every due-queue; a chain
	// that starts just below a byte boundary (253) crosses 255 -> 256 within a few blocks.
	InitialHeight int64
	// KeepHostClockGenesis leaves the htlc default genesis' previous_block_time (= time.Now() of the
	// process, see modules/htlc/types/params_legacy.go) untouched. By default the harness pins it to
	// GenesisTime so that searches are reproducible; the determinism check (C11) turns this off.
	KeepHostClockGenesis bool
}

// Addr returns the deterministic account address for a name: the address of PrivKey(name), so that the
// conformance pass can sign real transactions for every harness account.
func Addr(name string) sdk.AccAddress {
	namesMu.Lock()
	defer namesMu.Unlock()
	if a, ok := addrByName[name]; ok {
		return a
	}
	a := sdk.AccAddress(PrivKey(name).PubKey().Address())
	addrByName[name] = a
	nameByAddr[string(a)] = name
	return a
}

var (
	namesMu    sync.Mutex
	addrByName = map[string]sdk.AccAddress{}
	nameByAddr = map[string]string{}
)

// NameOf returns the harness account name of an address ("" if it is not a harness account).
func NameOf(addr []byte) string {
	namesMu.Lock()
	defer namesMu.Unlock()
	return nameByAddr[string(addr)]
}

// PrivKey returns the deterministic secp256k1 key of a harness account.
func PrivKey(name string) *secp256k1.PrivKey {
	h := sha256.Sum256([]byte("verif/key/" + name))
	return &secp256k1.PrivKey{Key: h[:]}
}

// ModuleAddr is the address of a module account.
func ModuleAddr(name string) sdk.AccAddress { return authtypes.NewModuleAddress(name) }

// Authority is the address configured as authority of all irismod keepers.
func Authority() sdk.AccAddress { return authtypes.NewModuleAddress(govtypes.ModuleName) }

// Big returns 2^k as an sdk Int.
func Big(k uint) sdkmath.Int {
	return sdkmath.NewIntFromBigInt(new(bigInt).Lsh(bigOne, k))
}

// RestartedNode makes NewEnv build environments the way a restarted node comes up: without InitChain (process-global;
// used by the single-worker determinism replicas only).
var RestartedNode bool

// NewEnv builds an application, a deterministic genesis, and runs InitChain.
func NewEnv(opts EnvOptions) *Env {
	e := &Env{Opts: opts}
	db := opts.DB
	if db == nil {
		db = dbm.NewMemDB()
	}
	e.DB = db
	evm := opts.EVM
	if evm == nil {
		evm = tokenkeeper.ProvideMockEVM()
	}
	dep := simapp.DepinjectOptions{
		Config:    e2e.AppConfig,
		Providers: []interface{}{evm, tokenkeeper.ProvideMockICS20()},
		Consumers: []interface{}{
			&e.Coinswap, &e.Farm, &e.HTLC, &e.MT, &e.NFT, &e.Oracle, &e.Random, &e.Record, &e.Service, &e.Token,
		},
	}
	appOptions := make(simtestutil.AppOptionsMap, 0)
	appOptions["home"] = "/nonexistent-verif-home"
	appOptions["inv-check-period"] = uint(0)
	e.App = simapp.NewSimApp(log.NewNopLogger(), db, nil, true, dep, appOptions, baseapp.SetChainID(ChainID))
	e.Cdc = e.App.AppCodec()
	e.BlockModules = opts.BlockModules
	if e.BlockModules == nil {
		e.BlockModules = IrismodModules
	}
	if opts.SkipInitChain {
		return e
	}
	if RestartedNode {
		// a node process started on existing data: the application is constructed, InitChain never runs in this
		// process; the state arrives through the stores (the caller transplants it)
		hdr := cmtproto.Header{ChainID: ChainID, Height: 1, Time: GenesisTime, AppHash: fixedHash("apphash", 0)}
		e.Root = e.App.BaseApp.NewUncachedContext(false, hdr).
			WithBlockGasMeter(storetypes.NewInfiniteGasMeter()).
			WithGasMeter(storetypes.NewInfiniteGasMeter()).
			WithEventManager(sdk.NewEventManager())
		return e
	}

	gs := e.App.DefaultGenesis()
	e.buildGenesis(gs)
	if !opts.KeepHostClockGenesis {
		var hg htlctypes.GenesisState
		e.Cdc.MustUnmarshalJSON(gs[htlctypes.ModuleName], &hg)
		hg.PreviousBlockTime = GenesisTime
		gs[htlctypes.ModuleName] = e.Cdc.MustMarshalJSON(&hg)
	}
	for mod, f := range opts.GenesisMutators {
		gs[mod] = f(e.Cdc, gs[mod])
	}
	ih := opts.InitialHeight
	if ih == 0 {
		ih = 1
	}
	stateBytes, err := json.Marshal(gs)
	if err != nil {
		panic(err)
	}
	if _, err := e.App.InitChain(&abci.RequestInitChain{
		ChainId:         ChainID,
		Time:            GenesisTime,
		InitialHeight:   ih,
		Validators:      []abci.ValidatorUpdate{},
		ConsensusParams: simtestutil.DefaultConsensusParams,
		AppStateBytes:   stateBytes,
	}); err != nil {
		panic(fmt.Errorf("InitChain: %w", err))
	}
	hdr := cmtproto.Header{ChainID: ChainID, Height: ih, Time: GenesisTime, AppHash: fixedHash("apphash", 0)}
	e.Root = e.App.BaseApp.NewContextLegacy(false, hdr).
		WithBlockGasMeter(storetypes.NewInfiniteGasMeter()).
		WithGasMeter(storetypes.NewInfiniteGasMeter()).
		WithEventManager(sdk.NewEventManager())
	// the first block begins like every other one (the conformance pass showed the difference: the service
	// module's begin-blocker writes its per-block request index, so block 1 must not skip it)
	e.BeginAt(e.Root)
	return e
}

func fixedHash(tag string, n int64) []byte {
	b := make([]byte, 8)
	binary.BigEndian.PutUint64(b, uint64(n))
	h := sha256.Sum256(append([]byte("verif/"+tag+"/"), b...))
	return h[:]
}

// ValidatorKey is the fixed consensus key of the single bonded validator.
func ValidatorKey() *ed25519.PrivKey {
	h := sha256.Sum256([]byte("verif/validator"))
	return ed25519.GenPrivKeyFromSecret(h[:])
}

func (e *Env) buildGenesis(gs simapp.GenesisState) {
	cdc := e.Cdc
	names := make([]string, 0, len(e.Opts.Balances))
	for n := range e.Opts.Balances {
		names = append(names, n)
	}
	sort.Strings(names)

	var genAccs []authtypes.GenesisAccount
	var balances []banktypes.Balance
	total := sdk.NewCoins()
	valOwner := Addr("valowner")
	genAccs = append(genAccs, authtypes.NewBaseAccount(valOwner, nil, 0, 0))
	for _, n := range names {
		a := Addr(n)
		genAccs = append(genAccs, authtypes.NewBaseAccount(a, nil, 0, 0))
		c := e.Opts.Balances[n].Sort()
		if !c.IsZero() {
			balances = append(balances, banktypes.Balance{Address: a.String(), Coins: c})
			total = total.Add(c...)
		}
	}
	authGenesis := authtypes.NewGenesisState(authtypes.DefaultParams(), genAccs)
	gs[authtypes.ModuleName] = cdc.MustMarshalJSON(authGenesis)

	pk := ValidatorKey().PubKey()
	pkAny, err := codectypes.NewAnyWithValue(pk)
	if err != nil {
		panic(err)
	}
	_ = cryptocodec.FromCmtPubKeyInterface
	bondAmt := sdk.DefaultPowerReduction
	valAddr := sdk.ValAddress(pk.Address())
	validator := stakingtypes.Validator{
		OperatorAddress:   valAddr.String(),
		ConsensusPubkey:   pkAny,
		Status:            stakingtypes.Bonded,
		Tokens:            bondAmt,
		DelegatorShares:   sdkmath.LegacyOneDec(),
		UnbondingTime:     time.Unix(0, 0).UTC(),
		Commission:        stakingtypes.NewCommission(sdkmath.LegacyZeroDec(), sdkmath.LegacyZeroDec(), sdkmath.LegacyZeroDec()),
		MinSelfDelegation: sdkmath.ZeroInt(),
	}
	deleg := stakingtypes.NewDelegation(valOwner.String(), valAddr.String(), sdkmath.LegacyOneDec())
	stakingGenesis := stakingtypes.NewGenesisState(stakingtypes.DefaultParams(), []stakingtypes.Validator{validator}, []stakingtypes.Delegation{deleg})
	gs[stakingtypes.ModuleName] = cdc.MustMarshalJSON(stakingGenesis)

	total = total.Add(sdk.NewCoin(sdk.DefaultBondDenom, bondAmt))
	balances = append(balances, banktypes.Balance{
		Address: authtypes.NewModuleAddress(stakingtypes.BondedPoolName).String(),
		Coins:   sdk.Coins{sdk.NewCoin(sdk.DefaultBondDenom, bondAmt)},
	})
	bankGenesis := banktypes.NewGenesisState(banktypes.DefaultGenesisState().Params, balances, total, []banktypes.Metadata{}, []banktypes.SendEnabled{})
	gs[banktypes.ModuleName] = cdc.MustMarshalJSON(bankGenesis)
}

// Branch returns a copy-on-write branch of ctx (all stores) with a fresh event manager.
// The parent is never written to.
func Branch(ctx sdk.Context) sdk.Context {
	cc, _ := ctx.CacheContext()
	return cc
}

// StoreKey returns the KV store key registered under name (panics if absent).
func (e *Env) StoreKey(name string) *storetypes.KVStoreKey {
	k := e.App.GetKey(name)
	if k == nil {
		panic("no store key " + name)
	}
	return k
}
