package mc

import (
	"encoding/json"
	"fmt"
	"sort"
	"strings"
	"time"

	"github.com/cosmos/cosmos-sdk/types/module"

	sdk "github.com/cosmos/cosmos-sdk/types"
)

// QueryFn returns a canonical rendering of the durable user-visible objects of a module as answered by its
// query services on ctx. ids, when non-nil, are the object ids collected on the SOURCE side (so that the
// re-imported chain is asked about the original ids).
type QueryFn func(e *Env, ctx sdk.Context, ids []string) (map[string]string, error)

// IDsFn collects object ids on the source side.
type IDsFn func(e *Env, ctx sdk.Context) []string

// RoundTripSpec describes what a genesis round trip exports, imports and compares.
type RoundTripSpec struct {
	Property string   // finding prefix, e.g. "C12"
	Modules  []string // irismod modules in genesis order; auth and bank are always carried along
	IDs      IDsFn
	Query    QueryFn
	// Prep, if set, is the module's own prepare-for-zero-height step, applied on a branch before exporting
	// (the second variant of the round trip). With Prep the query comparison is skipped (heights are rebased).
	Prep func(e *Env, ctx sdk.Context)
	// UnorderedArrays names modules whose exported arrays carry no order (the module builds them from Go maps;
	// that nondeterminism is C11's subject): their arrays are sorted before the fixpoint comparison.
	UnorderedArrays map[string]bool
	// ZeroHeightKeeps lists, per module, JSON paths of collections in the exported genesis whose number of
	// elements the module's prepare-for-zero-height step must not change (the step rebases heights, it does not
	// drop durable objects). Path syntax: /a/b for object members, * for every member of an object, [] to
	// descend into / count the elements of an array; e.g. "/pending_random_requests/*/requests[]".
	ZeroHeightKeeps map[string][]string
	// Gov are parameter changes by the authority offered as extra operations in every state ("for all valid
	// parameter sets": a chain's parameters change mid-history, after objects were created under the old ones).
	Gov []GovOp
}

// GovOp is one governance message; Msg may return nil when it does not apply in the state.
type GovOp struct {
	Name string
	Msg  func(e *Env, ctx sdk.Context) sdk.Msg
}

func storeOf(mod string) string {
	if mod == "auth" {
		return "acc"
	}
	return mod
}

// RoundTrip wraps a driver: the inner driver generates the reachable states, the wrapper evaluates the
// export -> validate -> import -> export fixpoint and the query equivalence in every new state.
type RoundTrip struct {
	Inner  Driver
	Spec   RoundTripSpec
	Target *Env // a second, independently initialised application instance that receives the import
}

func (r *RoundTrip) ID() string         { return r.Spec.Property + "/" + r.Inner.ID() }
func (r *RoundTrip) Stores() []string   { return r.Inner.Stores() }
func (r *RoundTrip) Init(e *Env) *State { return r.Inner.Init(e) }
func (r *RoundTrip) Enabled(e *Env, s *State) []Op {
	ops := r.Inner.Enabled(e, s)
	for i, g := range r.Spec.Gov {
		ops = append(ops, Op{Name: "gov:" + g.Name, Data: govIdx(i)})
	}
	return ops
}

type govIdx int

func (r *RoundTrip) Apply(e *Env, s *State, op Op) []Finding {
	if gi, ok := op.Data.(govIdx); ok {
		if m := r.Spec.Gov[gi].Msg(e, s.Ctx); m != nil {
			s.Deliver(e, op.Name, m)
		} else {
			s.Last = "err"
		}
		return nil
	}
	r.Inner.Apply(e, s, op) // the inner property's own verdicts belong to its own check
	return nil
}

func (r *RoundTrip) Check(e *Env, s *State) []Finding {
	r.Inner.Check(e, s) // sets Nontrivial
	// a chain is exported at a block boundary: finish the current block on a throw-away branch first
	b := Branch(s.Ctx)
	var fs []Finding
	bo := e.EndBlockOnly(b)
	for _, p := range bo.Panics {
		fs = append(fs, F(r.Spec.Property+"/harness/end-block-panicked-before-export", "%s", p))
	}
	fs = append(fs, r.roundTrip(e, b, false)...)
	if r.Spec.Prep != nil {
		z := Branch(b)
		before := map[string]json.RawMessage{}
		for m := range r.Spec.ZeroHeightKeeps {
			if raw, err := exportModule(e, b, m); err == nil {
				before[m] = raw
			}
		}
		func() {
			defer func() {
				if p := recover(); p != nil {
					fs = append(fs, F(r.Spec.Property+"/prep-for-zero-height-panicked/"+Normalize(fmt.Sprint(p)), "%v", p))
				}
			}()
			r.Spec.Prep(e, z)
		}()
		for m, paths := range r.Spec.ZeroHeightKeeps {
			after, err := exportModule(e, z, m)
			if err != nil || before[m] == nil {
				continue
			}
			for _, p := range paths {
				n0, n1 := countAt(before[m], p), countAt(after, p)
				if n0 != n1 {
					fs = append(fs, F(fmt.Sprintf("%s/%s/zero-height-export-drops-objects%s", r.Spec.Property, m, p),
						"the as-is export of %s holds %d elements at %s, the export after the module's prepare-for-zero-height step %d", m, n0, p, n1))
				}
			}
		}
		fs = append(fs, r.roundTrip(e, z, true)...)
	}
	return fs
}

func genesisModule(e *Env, name string) (module.HasGenesis, module.HasABCIGenesis) {
	m := e.App.ModuleManager.Modules[name]
	if g, ok := m.(module.HasGenesis); ok {
		return g, nil
	}
	if g, ok := m.(module.HasABCIGenesis); ok {
		return nil, g
	}
	panic("module " + name + " has no genesis")
}

func exportModule(e *Env, ctx sdk.Context, name string) (out json.RawMessage, err error) {
	defer func() {
		if p := recover(); p != nil {
			err = fmt.Errorf("panic: %v", p)
		}
	}()
	g, ag := genesisModule(e, name)
	if g != nil {
		return g.ExportGenesis(ctx, e.Cdc), nil
	}
	return ag.ExportGenesis(ctx, e.Cdc), nil
}

func (r *RoundTrip) roundTrip(e *Env, ctx sdk.Context, prepped bool) []Finding {
	P := r.Spec.Property
	variant := "as-is"
	if prepped {
		variant = "zero-height"
	}
	var fs []Finding
	mods := append([]string{"auth", "bank"}, r.Spec.Modules...)
	exported := map[string]json.RawMessage{}
	for _, m := range mods {
		raw, err := exportModule(e, ctx, m)
		if err != nil {
			return append(fs, F(fmt.Sprintf("%s/%s/export-failed/%s/%s", P, m, variant, Normalize(err.Error())), "%v", err))
		}
		exported[m] = raw
	}
	// (2) the module's own validation
	for _, m := range r.Spec.Modules {
		g, ag := genesisModule(e, m)
		var err error
		func() {
			defer func() {
				if p := recover(); p != nil {
					err = fmt.Errorf("panic: %v", p)
				}
			}()
			if g != nil {
				err = g.ValidateGenesis(e.Cdc, e.App.TxConfig(), exported[m])
			} else {
				err = ag.ValidateGenesis(e.Cdc, e.App.TxConfig(), exported[m])
			}
		}()
		if err != nil {
			fs = append(fs, F(fmt.Sprintf("%s/%s/import-rejected/validate/%s", P, m, Normalize(err.Error())), "[%s] exported genesis of %s fails its own validation: %v", variant, m, err))
		}
	}
	// (3) import on a throw-away branch of the target instance whose carried stores are emptied first
	// the re-imported chain starts at the next height; its first begin-block runs before anything is queried
	const dt = 5 * time.Second
	src, _ := e.BeginNext(Branch(ctx), dt)
	t := r.Target
	t.BlockModules = e.BlockModules
	tctx := Branch(t.Root).WithBlockHeader(src.BlockHeader()).WithHeaderHash(src.HeaderHash())
	for _, m := range mods {
		st := tctx.MultiStore().GetKVStore(t.StoreKey(storeOf(m)))
		var keys [][]byte
		it := st.Iterator(nil, nil)
		for ; it.Valid(); it.Next() {
			keys = append(keys, append([]byte{}, it.Key()...))
		}
		it.Close()
		for _, k := range keys {
			st.Delete(k)
		}
	}
	imported := true
	for _, m := range mods {
		var perr interface{}
		func() {
			defer func() { perr = recover() }()
			g, ag := genesisModule(t, m)
			if g != nil {
				g.InitGenesis(tctx, t.Cdc, exported[m])
			} else {
				ag.InitGenesis(tctx, t.Cdc, exported[m])
			}
		}()
		if perr != nil {
			imported = false
			if m == "auth" || m == "bank" {
				fs = append(fs, F(fmt.Sprintf("%s/harness/%s-import-failed", P, m), "[%s] %v", variant, perr))
			} else {
				fs = append(fs, F(fmt.Sprintf("%s/%s/import-rejected/init/%s", P, m, Normalize(fmt.Sprint(perr))), "[%s] InitGenesis of %s panicked on its own export: %v", variant, m, perr))
			}
			break
		}
	}
	if !imported {
		return fs
	}
	// (4) fixpoint
	for _, m := range r.Spec.Modules {
		again, err := exportModule(t, tctx, m)
		if err != nil {
			fs = append(fs, F(fmt.Sprintf("%s/%s/re-export-failed/%s", P, m, Normalize(err.Error())), "[%s] %v", variant, err))
			continue
		}
		first, second := exported[m], again
		if r.Spec.UnorderedArrays[m] {
			first, second = sortArrays(first), sortArrays(second)
		}
		if path, a, b := jsonDiff(first, second); path != "" {
			// the signature names the collection (path up to the first array), the detail the exact place
			coll := path
			if i := strings.Index(coll, "[]"); i >= 0 {
				coll = coll[:i+2]
			} else if i := strings.Index(coll, "[len]"); i >= 0 {
				coll = coll[:i] + "[]"
			}
			fs = append(fs, F(fmt.Sprintf("%s/%s/roundtrip-differs/%s", P, m, coll), "[%s] export -> import -> export of %s differs at %s: %s -> %s", variant, m, path, a, b))
		}
	}
	// (5) queries, on both sides after the begin-block of the first block following the export
	if !prepped && r.Spec.Query != nil {
		var ids []string
		if r.Spec.IDs != nil {
			ids = r.Spec.IDs(e, ctx)
		}
		for _, p := range t.BeginAt(tctx).Panics {
			fs = append(fs, F(fmt.Sprintf("%s/first-block-after-import-panicked/%s", P, Normalize(p)), "%s", p))
		}
		qa, erra := r.Spec.Query(e, src, ids)
		qb, errb := r.Spec.Query(t, tctx, ids)
		if erra != nil {
			fs = append(fs, F(P+"/harness/query-failed-on-source", "%v", erra))
		} else if errb != nil {
			fs = append(fs, F(fmt.Sprintf("%s/query-fails-after-import/%s", P, Normalize(errb.Error())), "%v", errb))
		} else {
			var names []string
			for k := range qa {
				names = append(names, k)
			}
			sort.Strings(names)
			for _, k := range names {
				if qa[k] != qb[k] {
					cls := k
					if i := strings.Index(k, "("); i > 0 {
						cls = k[:i]
					}
					fs = append(fs, F(fmt.Sprintf("%s/query-differs/%s", P, cls), "query %s: before export %s ; after import %s", k, clip(qa[k]), clip(qb[k])))
				}
			}
		}
	}
	return fs
}

func clip(s string) string {
	if len(s) > 400 {
		return s[:400] + "…"
	}
	return s
}

// jsonDiff returns the first differing path (array indices rendered as []) and both values.
func jsonDiff(a, b json.RawMessage) (string, string, string) {
	var va, vb interface{}
	if err := json.Unmarshal(a, &va); err != nil {
		return "unparsable", string(a), string(b)
	}
	if err := json.Unmarshal(b, &vb); err != nil {
		return "unparsable", string(a), string(b)
	}
	return diffVal("", va, vb)
}

func diffVal(path string, a, b interface{}) (string, string, string) {
	switch x := a.(type) {
	case map[string]interface{}:
		y, ok := b.(map[string]interface{})
		if !ok {
			return path, clip(fmt.Sprint(a)), clip(fmt.Sprint(b))
		}
		keys := map[string]bool{}
		for k := range x {
			keys[k] = true
		}
		for k := range y {
			keys[k] = true
		}
		var ks []string
		for k := range keys {
			ks = append(ks, k)
		}
		sort.Strings(ks)
		for _, k := range ks {
			if p, u, v := diffVal(path+"/"+k, x[k], y[k]); p != "" {
				return p, u, v
			}
		}
		return "", "", ""
	case []interface{}:
		y, ok := b.([]interface{})
		if !ok || len(x) != len(y) {
			if ok {
				return path + "[len]", fmt.Sprint(len(x)), fmt.Sprint(len(y))
			}
			return path, clip(fmt.Sprint(a)), clip(fmt.Sprint(b))
		}
		for i := range x {
			if p, u, v := diffVal(path+"[]", x[i], y[i]); p != "" {
				return p, u, v
			}
		}
		return "", "", ""
	default:
		if fmt.Sprint(a) != fmt.Sprint(b) {
			return path, clip(fmt.Sprint(a)), clip(fmt.Sprint(b))
		}
		return "", "", ""
	}
}

// sortArrays re-renders JSON with every array sorted by the canonical JSON of its elements.
func sortArrays(raw json.RawMessage) json.RawMessage {
	var v interface{}
	if err := json.Unmarshal(raw, &v); err != nil {
		return raw
	}
	out, _ := json.Marshal(sortVal(v))
	return out
}

func sortVal(v interface{}) interface{} {
	switch x := v.(type) {
	case map[string]interface{}:
		for k, e := range x {
			x[k] = sortVal(e)
		}
		return x
	case []interface{}:
		for i := range x {
			x[i] = sortVal(x[i])
		}
		sort.SliceStable(x, func(i, j int) bool {
			a, _ := json.Marshal(x[i])
			b, _ := json.Marshal(x[j])
			return string(a) < string(b)
		})
		return x
	default:
		return v
	}
}

// ReimportModule models a chain restart from its own exported genesis for one module, in place: the module's
// genesis is exported from ctx, validated, its store emptied and the genesis imported again on the same ctx.
// It returns an error if any step fails (panics included); the caller decides what that means.
func ReimportModule(e *Env, ctx sdk.Context, name string) (err error) {
	defer func() {
		if p := recover(); p != nil {
			err = fmt.Errorf("panic: %v", p)
		}
	}()
	raw, err := exportModule(e, ctx, name)
	if err != nil {
		return err
	}
	g, ag := genesisModule(e, name)
	if g != nil {
		err = g.ValidateGenesis(e.Cdc, e.App.TxConfig(), raw)
	} else {
		err = ag.ValidateGenesis(e.Cdc, e.App.TxConfig(), raw)
	}
	if err != nil {
		return err
	}
	st := ctx.MultiStore().GetKVStore(e.StoreKey(storeOf(name)))
	var keys [][]byte
	it := st.Iterator(nil, nil)
	for ; it.Valid(); it.Next() {
		keys = append(keys, append([]byte{}, it.Key()...))
	}
	it.Close()
	for _, k := range keys {
		st.Delete(k)
	}
	if g != nil {
		g.InitGenesis(ctx, e.Cdc, raw)
	} else {
		ag.InitGenesis(ctx, e.Cdc, raw)
	}
	return nil
}

// countAt counts the elements a path pattern selects in a JSON document (see RoundTripSpec.ZeroHeightKeeps).
func countAt(raw json.RawMessage, pattern string) int {
	var v interface{}
	if err := json.Unmarshal(raw, &v); err != nil {
		return -1
	}
	var parts []string
	for _, seg := range strings.Split(strings.TrimPrefix(pattern, "/"), "/") {
		arr := strings.HasSuffix(seg, "[]")
		seg = strings.TrimSuffix(seg, "[]")
		if seg != "" {
			parts = append(parts, seg)
		}
		if arr {
			parts = append(parts, "[]")
		}
	}
	var walk func(v interface{}, i int) int
	walk = func(v interface{}, i int) int {
		if i == len(parts) {
			return 1
		}
		switch parts[i] {
		case "[]":
			arr, ok := v.([]interface{})
			if !ok {
				return 0
			}
			n := 0
			for _, x := range arr {
				n += walk(x, i+1)
			}
			return n
		case "*":
			obj, ok := v.(map[string]interface{})
			if !ok {
				return 0
			}
			n := 0
			for _, x := range obj {
				n += walk(x, i+1)
			}
			return n
		default:
			obj, ok := v.(map[string]interface{})
			if !ok {
				return 0
			}
			x, ok := obj[parts[i]]
			if !ok || x == nil {
				return 0
			}
			return walk(x, i+1)
		}
	}
	return walk(v, 0)
}

// Restarting wraps a driver so that every state also offers "restart-from-genesis": the chain is restarted, in
// place, from its own exported genesis of the given modules (export -> module validation -> stores emptied ->
// InitGenesis). The inner driver's reference model is untouched, so all of its oracles keep judging what happens
// after the restart - a history with a restart in it is still a history. If the module rejects its own export
// the operation is a no-op (that is C12's finding, not the inner property's).
type Restarting struct {
	Driver
	Modules []string
	// Boundary also offers the restart where it really happens, between two blocks: the current block is finished,
	// the genesis exported, and InitGenesis runs under the header height of the *next* block (the new chain's initial
	// height), followed by that block's begin-block. The step is the inner driver's own block operation with the
	// restart slipped in between its end-block and begin-block halves, so the inner oracles judge the block as usual.
	Boundary bool
	// Skip > 0 additionally offers a boundary restart whose new chain starts Skip heights later (an export imported
	// with a larger initial height): objects whose due height falls into the gap are overdue on the new chain.
	Skip int64
	// RejectSig: where the inner property itself promises that what exists survives a restart, a module that
	// refuses its own export is that property's violation too (signature RejectSig + normalised error); empty = no-op
	RejectSig string
}

// WithRestart wraps a driver constructor.
func WithRestart(mk func() (*Env, Driver), modules ...string) func() (*Env, Driver) {
	return func() (*Env, Driver) {
		e, d := mk()
		return e, &Restarting{Driver: d, Modules: modules}
	}
}

// WithBoundaryRestart is WithRestart plus the restart between blocks (and, with skip > 0, at a later initial height).
func WithBoundaryRestart(mk func() (*Env, Driver), skip int64, modules ...string) func() (*Env, Driver) {
	return func() (*Env, Driver) {
		e, d := mk()
		return e, &Restarting{Driver: d, Modules: modules, Boundary: true, Skip: skip}
	}
}

type restartOp struct{}

type boundaryRestartOp struct {
	inner Op
	skip  int64
}

func (r *Restarting) Enabled(e *Env, s *State) []Op {
	inner := r.Driver.Enabled(e, s)
	ops := append(inner, Op{Name: "restart-from-genesis", Data: restartOp{}})
	if r.Boundary {
		for _, op := range inner {
			if strings.HasPrefix(op.Name, "block") {
				ops = append(ops, Op{Name: "restart-between-blocks+" + op.Name, Data: boundaryRestartOp{inner: op}})
				if r.Skip > 0 {
					ops = append(ops, Op{Name: fmt.Sprintf("restart-between-blocks(initial height +%d)+%s", r.Skip, op.Name), Data: boundaryRestartOp{inner: op, skip: r.Skip}})
				}
				break
			}
		}
	}
	return ops
}

func (r *Restarting) Apply(e *Env, s *State, op Op) []Finding {
	if bop, ok := op.Data.(boundaryRestartOp); ok {
		return r.applyBoundary(e, s, bop)
	}
	if _, ok := op.Data.(restartOp); !ok {
		return r.Driver.Apply(e, s, op)
	}
	b, write := s.Ctx.CacheContext()
	for _, m := range r.Modules {
		if err := ReimportModule(e, b, m); err != nil {
			s.Last = "err"
			if r.RejectSig != "" {
				return []Finding{F(r.RejectSig+"/"+Normalize(err.Error()), "module %s refuses the genesis it exported itself: %v", m, err)}
			}
			return nil
		}
	}
	write()
	s.MarkDirty()
	s.Last = "ok"
	if ra, ok := r.Driver.(RestartAware); ok {
		ra.Restarted(e, s)
	}
	return nil
}

// reimportAt re-imports the modules' own export into ctx under the header height `height`.
func (r *Restarting) reimportAt(e *Env, ctx sdk.Context, height int64) error {
	h := ctx.BlockHeader()
	h.Height = height
	ictx := ctx.WithBlockHeader(h)
	for _, m := range r.Modules {
		if err := ReimportModule(e, ictx, m); err != nil {
			return err
		}
	}
	return nil
}

func (r *Restarting) applyBoundary(e *Env, s *State, bop boundaryRestartOp) []Finding {
	// dry run on a throw-away branch: a module that rejects its own export makes the operation a no-op
	probe, _ := s.Ctx.CacheContext()
	saved := e.Trace
	e.Trace = nil
	e.EndBlockOnly(probe)
	e.Trace = saved
	if err := r.reimportAt(e, probe, probe.BlockHeight()+1+bop.skip); err != nil {
		s.Last = "err"
		return nil
	}
	if ra, ok := r.Driver.(RestartAware); ok {
		ra.Restarted(e, s)
	}
	e.BetweenBlocks = func(ctx sdk.Context) sdk.Context {
		if err := r.reimportAt(e, ctx, ctx.BlockHeight()+1+bop.skip); err != nil {
			panic("boundary restart: import failed after a successful dry run: " + err.Error())
		}
		if bop.skip > 0 {
			h := ctx.BlockHeader()
			h.Height += bop.skip
			ctx = ctx.WithBlockHeader(h)
		}
		return ctx
	}
	defer func() { e.BetweenBlocks = nil }()
	return r.Driver.Apply(e, s, bop.inner)
}

// RestartAware is implemented by drivers whose module deliberately leaves something out of its export (closed
// contracts, numbers already generated): the reference forgets exactly that when the restart operation ran.
type RestartAware interface {
	Restarted(e *Env, s *State)
}
