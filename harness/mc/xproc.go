package mc

import (
	"bytes"
	"crypto/sha256"
	"encoding/hex"
	"encoding/json"
	"fmt"
	"os"
	"os/exec"
	"strings"
	"sync"
	"time"
)

// Cross-process replicas. A node that restarts, or another node, is another operating-system process:
// everything a process draws for itself at start-up (hash/maphash seeds, the runtime's hash keys, unseeded
// math/rand, addresses, pid) differs, while the chain data is the same. The in-process replicas of
// Replicas cannot see a dependence on such values (package-level state is shared by every application
// instance of a process), so this part executes the same enumerated op paths of a driver in several child
// processes and compares, path by path, a digest of the whole application state and of the exported genesis.
// The children fix the controllable seams (host clock offset 0, map seed 0): only the process identity varies.
// Unlike the seams, process identity cannot be set to chosen values, so a dependence shows with the
// probability that the processes' private values lead to different results on at least one path (for a
// choice among n alternatives on R paths: 1 - n^-R per extra process); a difference, once seen, is certain.

type pathDigest struct {
	Path   []string `json:"p"`
	Digest string   `json:"d"`
	Where  string   `json:"w,omitempty"`
}

// DigestPart is the child side: it enumerates all op paths up to the given length (DFS order, capped) and
// reports the digest after each. It never reports violations itself.
func DigestPart(name string, mk func() (*Env, Driver), depthQuick, depthThorough, maxQuick int, exports []string) Part {
	return Part{Name: "digest:" + name, Run: func(tier string, known []KnownFinding, deadline time.Time) PartReport {
		baselineEnv()
		depth, max := depthQuick, maxQuick
		if tier == "thorough" {
			depth, max = depthThorough, maxQuick*10
		}
		e, d := mk()
		var out []pathDigest
		var rec func(s *State, path []string)
		rec = func(s *State, path []string) {
			if len(out) >= max {
				return
			}
			if len(path) > 0 {
				h := sha256.New()
				all, _ := wholeState(e, s.Ctx)
				h.Write(all)
				for _, m := range exports {
					raw, err := exportModule(e, s.Ctx, m)
					if err != nil {
						raw = []byte("export-error:" + Normalize(err.Error()))
					}
					h.Write([]byte("|" + m + "|"))
					h.Write(raw)
				}
				h.Write([]byte("|" + s.Last))
				out = append(out, pathDigest{Path: append([]string{}, path...), Digest: hex.EncodeToString(h.Sum(nil))[:32]})
			}
			if len(path) >= depth {
				return
			}
			for _, op := range d.Enabled(e, s) {
				if len(out) >= max {
					return
				}
				c := s.branch()
				d.Apply(e, c, op)
				rec(c, append(append([]string{}, path...), op.Name))
			}
		}
		rec(d.Init(e), nil)
		return PartReport{Name: "digest:" + name, Exhaustive: true, Bounds: map[string]interface{}{"digests": out, "depth": depth}}
	}}
}

func runDigestChild(property, name, tier string, k int) ([]pathDigest, string) {
	exe, err := os.Executable()
	if err != nil {
		return nil, err.Error()
	}
	cmd := exec.Command(exe, "part", property, "digest:"+name)
	cmd.Env = append(os.Environ(), "VERIF_WORKERS=1", "VERIF_TIER="+tier, fmt.Sprintf("VERIF_PROCESS_REPLICA=%d", k))
	var out, errb bytes.Buffer
	cmd.Stdout, cmd.Stderr = &out, &errb
	if err := cmd.Run(); err != nil {
		return nil, fmt.Sprintf("child %d failed: %v: %s", k, err, tail(errb.String(), 600))
	}
	var w struct {
		Report struct {
			Bounds struct {
				Digests []pathDigest `json:"digests"`
			} `json:"bounds"`
		} `json:"report"`
	}
	lines := bytes.Split(bytes.TrimSpace(out.Bytes()), []byte("\n"))
	if err := json.Unmarshal(lines[len(lines)-1], &w); err != nil {
		return nil, "child output unparsable: " + tail(out.String(), 300)
	}
	return w.Report.Bounds.Digests, ""
}

// compareProcesses runs n children and returns the findings (first differing path) and the number of paths.
func compareProcesses(property, name, tier string, n int) ([]Violation, int, string) {
	res := make([][]pathDigest, n)
	errs := make([]string, n)
	var wg sync.WaitGroup
	for k := 0; k < n; k++ {
		wg.Add(1)
		go func(k int) {
			defer wg.Done()
			res[k], errs[k] = runDigestChild(property, name, tier, k)
		}(k)
	}
	wg.Wait()
	for _, e := range errs {
		if e != "" {
			return nil, 0, e
		}
	}
	for k := 1; k < n; k++ {
		a, b := res[0], res[k]
		for i := 0; i < len(a) || i < len(b); i++ {
			if i >= len(a) || i >= len(b) || strings.Join(a[i].Path, "\x00") != strings.Join(b[i].Path, "\x00") {
				var p []string
				if i < len(a) {
					p = a[i].Path
				} else {
					p = b[i].Path
				}
				return []Violation{{Finding: F(fmt.Sprintf("%s/process-differs/%s/enabled-operations", property, name),
					"the operations offered along path %v differ between two processes executing the same history (process 0 vs process %d)", p, k), Path: append([]string{"<cross-process>"}, p...)}}, len(a), ""
			}
			if a[i].Digest != b[i].Digest {
				p := a[i].Path
				return []Violation{{Finding: F(fmt.Sprintf("%s/process-differs/%s/%s", property, name, opKind(p[len(p)-1])),
					"after the same history %v the application state / exported genesis differs between two operating-system processes (process 0: %s, process %d: %s): the result depends on something the process drew for itself, not on chain data",
					p, a[i].Digest, k, b[i].Digest), Path: append([]string{"<cross-process>"}, p...)}}, len(a), ""
			}
		}
	}
	return nil, len(res[0]), ""
}

// CrossProcessPart is the parent side.
func CrossProcessPart(property, name string, processes int) Part {
	return Part{Name: "xproc:" + name, Parallel: true,
		Run: func(tier string, known []KnownFinding, deadline time.Time) PartReport {
			start := time.Now()
			vs, n, internal := compareProcesses(property, name, tier, processes)
			rep := PartReport{Name: "xproc:" + name, Exhaustive: true, Internal: internal, Evaluations: int64(n * processes), Nontrivial: int64(n),
				Validated: int64(n * (processes - 1)), WallS: time.Since(start).Seconds(),
				Bounds: map[string]interface{}{"processes": processes, "paths_compared_across_processes": n},
				Rule:   "an enumerated op path executed in every process"}
			for _, v := range vs {
				if k := MatchKnown(known, v.Sig); k != nil {
					if rep.KnownSeen == nil {
						rep.KnownSeen = map[string]Violation{}
					}
					rep.KnownSeen[v.Sig] = v
					continue
				}
				rep.Violations = append(rep.Violations, v)
			}
			return rep
		},
		Replay: func(path []string) ([]Finding, error) {
			vs, _, internal := compareProcesses(property, name, Tier(), processes)
			if internal != "" {
				return nil, fmt.Errorf("%s", internal)
			}
			var fs []Finding
			for _, v := range vs {
				fs = append(fs, v.Finding)
			}
			return fs, nil
		}}
}
