package mc

import (
	"bytes"
	"crypto/sha256"
	"encoding/hex"
	"encoding/json"
	"fmt"
	"os"
	"os/exec"
	"strings"
	"sync"
	"time"
)

// Cross-process replicas. A node that restarts, or another node, is another operating-system process:
// everything a process draws for itself at start-up (hash/maphash seeds, the runtime's hash keys, unseeded
// math/rand, addresses, pid) differs, while the chain data is the same. The in-process replicas of
// Replicas cannot see a dependence on such values (package-level state is shared by every application
// instance of a process), so this part executes the same enumerated op paths of a driver in several child
// processes and compares, path by path, a digest of the whole application state and of the exported genesis.
// The children fix the controllable seams (host clock offset 0, map seed 0): only the process identity varies.
// Unlike the seams, process identity cannot be set to chosen values, so a dependence shows with the
// probability that the processes' private values lead to different results on at least one path (for a
// choice among n alternatives on R paths: 1 - n^-R per extra process); a difference, once seen, is certain.

type pathDigest struct {
	Path   []string `json:"p"`
	Digest string   `json:"d"`
	Where  string   `json:"w,omitempty"`
}

// DigestPart is the child side: it enumerates all op paths up to the given length (DFS order, capped) and
// reports the digest after each. It never reports violations itself.
func DigestPart(name string, mk func() (*Env, Driver), depthQuick, depthThorough, maxQuick int, exports []string) Part {
	return Part{Name: "digest:" + name, Run: func(tier string, known []KnownFinding, deadline time.Time) PartReport {
		baselineEnv()
		xprocCap = maxQuick
		depth, max := depthQuick, capOf(tier)
		if tier == "thorough" {
			depth = depthThorough
		}
		e, d := mk()
		// replica 1 walks the siblings in reverse order: what a path leads to may not depend on which other
		// paths this process executed before it (state kept outside the stores would make it so)
		reverse := os.Getenv("VERIF_PROCESS_REPLICA") == "1"
		if os.Getenv("VERIF_PROCESS_REPLICA") == "2" {
			// ... and replica 2 is a host in another time zone
			time.Local = otherZone
			defer func() { time.Local = hostZone }()
			// ... and a node whose app.toml enables telemetry
			setTelemetry(true)
			defer setTelemetry(false)
		}
		var out []pathDigest
		var rec func(s *State, path []string, results []byte)
		rec = func(s *State, path []string, results []byte) {
			if len(out) >= max {
				return
			}
			if len(path) > 0 {
				h := sha256.New()
				all, _ := wholeState(e, s.Ctx)
				h.Write(all)
				for _, m := range exports {
					raw, err := exportModule(e, s.Ctx, m)
					if err != nil {
						raw = []byte("export-error:" + Normalize(err.Error()))
					}
					h.Write([]byte("|" + m + "|"))
					h.Write(raw)
				}
				h.Write([]byte("|" + s.Last + "|"))
				h.Write(results) // what the last transition returned (responses, events): results are compared too
				out = append(out, pathDigest{Path: append([]string{}, path...), Digest: hex.EncodeToString(h.Sum(nil))[:32]})
			}
			if len(path) >= depth {
				return
			}
			ops := d.Enabled(e, s)
			if reverse {
				for i, j := 0, len(ops)-1; i < j; i, j = i+1, j-1 {
					ops[i], ops[j] = ops[j], ops[i]
				}
			}
			for _, op := range ops {
				if len(out) >= max {
					return
				}
				c := s.branch()
				e.Results = &ResultLog{}
				d.Apply(e, c, op)
				res := e.Results.Sum()
				e.Results = nil
				rec(c, append(append([]string{}, path...), op.Name), res)
			}
		}
		rec(d.Init(e), nil, nil)
		return PartReport{Name: "digest:" + name, Exhaustive: true, Bounds: map[string]interface{}{"digests": out, "depth": depth}}
	}}
}

// xprocCap is set by DigestPart users (quick cap; thorough = 10x).
var xprocCap = 1500

func capOf(tier string) int {
	if tier == "thorough" {
		return xprocCap * 10
	}
	return xprocCap
}

func runDigestChild(property, name, tier string, k int) ([]pathDigest, string) {
	exe, err := os.Executable()
	if err != nil {
		return nil, err.Error()
	}
	cmd := exec.Command(exe, "part", property, "digest:"+name)
	cmd.Env = append(os.Environ(), "VERIF_WORKERS=1", "VERIF_TIER="+tier, fmt.Sprintf("VERIF_PROCESS_REPLICA=%d", k))
	var out, errb bytes.Buffer
	cmd.Stdout, cmd.Stderr = &out, &errb
	if err := cmd.Run(); err != nil {
		return nil, fmt.Sprintf("child %d failed: %v: %s", k, err, tail(errb.String(), 600))
	}
	var w struct {
		Report struct {
			Bounds struct {
				Digests []pathDigest `json:"digests"`
			} `json:"bounds"`
		} `json:"report"`
	}
	lines := bytes.Split(bytes.TrimSpace(out.Bytes()), []byte("\n"))
	if err := json.Unmarshal(lines[len(lines)-1], &w); err != nil {
		return nil, "child output unparsable: " + tail(out.String(), 300)
	}
	return w.Report.Bounds.Digests, ""
}

// compareProcesses runs n children and returns the findings (first differing path) and the number of paths.
func compareProcesses(property, name, tier string, n int) ([]Violation, int, string) {
	res := make([][]pathDigest, n)
	errs := make([]string, n)
	var wg sync.WaitGroup
	for k := 0; k < n; k++ {
		wg.Add(1)
		go func(k int) {
			defer wg.Done()
			res[k], errs[k] = runDigestChild(property, name, tier, k)
		}(k)
	}
	wg.Wait()
	for _, e := range errs {
		if e != "" {
			return nil, 0, e
		}
	}
	for k := 1; k < n; k++ {
		a, b := res[0], res[k]
		byPath := map[string]pathDigest{}
		for _, x := range b {
			byPath[strings.Join(x.Path, "\x00")] = x
		}
		common := 0
		for _, x := range a {
			y, ok := byPath[strings.Join(x.Path, "\x00")]
			if !ok {
				continue // beyond the other replica's cap, or (see below) not offered there
			}
			common++
			if x.Digest != y.Digest {
				p := x.Path
				how := "two operating-system processes"
				if k == 1 {
					how = "two operating-system processes that executed the other paths in a different order"
				}
				return []Violation{{Finding: F(fmt.Sprintf("%s/process-differs/%s/%s", property, name, opKind(p[len(p)-1])),
					"after the same history %v the application state / exported genesis / the results of the last transition differ between %s (process 0: %s, process %d: %s): the result depends on something the process drew for itself or kept from earlier executions, not on chain data",
					p, how, x.Digest, k, y.Digest), Path: append([]string{"<cross-process>"}, p...)}}, len(a), ""
			}
		}
		// uncapped enumerations must offer exactly the same paths
		if len(a) < capOf(tier) && len(b) < capOf(tier) && (common != len(a) || common != len(b)) {
			return []Violation{{Finding: F(fmt.Sprintf("%s/process-differs/%s/enabled-operations", property, name),
				"the sets of op paths offered differ between two processes executing the same histories (%d vs %d paths, %d in common; process 0 vs process %d)", len(a), len(b), common, k), Path: []string{"<cross-process>"}}}, len(a), ""
		}
	}
	return nil, len(res[0]), ""
}

// CrossProcessPart is the parent side.
func CrossProcessPart(property, name string, processes int) Part {
	return Part{Name: "xproc:" + name, Parallel: true,
		Run: func(tier string, known []KnownFinding, deadline time.Time) PartReport {
			start := time.Now()
			vs, n, internal := compareProcesses(property, name, tier, processes)
			rep := PartReport{Name: "xproc:" + name, Exhaustive: true, Internal: internal, Evaluations: int64(n * processes), Nontrivial: int64(n),
				Validated: int64(n * (processes - 1)), WallS: time.Since(start).Seconds(),
				Bounds: map[string]interface{}{"processes": processes, "paths_compared_across_processes": n},
				Rule:   "an enumerated op path executed in every process"}
			for _, v := range vs {
				if k := MatchKnown(known, v.Sig); k != nil {
					if rep.KnownSeen == nil {
						rep.KnownSeen = map[string]Violation{}
					}
					rep.KnownSeen[v.Sig] = v
					continue
				}
				rep.Violations = append(rep.Violations, v)
			}
			return rep
		},
		Replay: func(path []string) ([]Finding, error) {
			vs, _, internal := compareProcesses(property, name, Tier(), processes)
			if internal != "" {
				return nil, fmt.Errorf("%s", internal)
			}
			var fs []Finding
			for _, v := range vs {
				fs = append(fs, v.Finding)
			}
			return fs, nil
		}}
}
