package mc

import (
	"crypto/sha256"
	"encoding/hex"
	"encoding/json"
	"fmt"
	"os"
	"path/filepath"
	"sort"
	"strconv"
	"strings"
	"sync"
	"time"
)

// VerifRoot is where evidence, replays and known findings live.
func VerifRoot() string {
	if r := os.Getenv("VERIF_ROOT"); r != "" {
		return r
	}
	return "/verif"
}

// KnownFinding is one entry of /verif/known_findings.json.
type KnownFinding struct {
	Property  string `json:"property"`
	Status    string `json:"status"` // "known" or "fixed"
	Signature string `json:"signature"`
	What      string `json:"what"`
	Commit    string `json:"commit,omitempty"`
	Replay    string `json:"replay,omitempty"`
	Why       string `json:"why_not_fixed,omitempty"`
}

// LoadKnown reads the committed findings file; only status "known" entries for the property
// suppress anything.
func LoadKnown(property string) []KnownFinding {
	b, err := os.ReadFile(filepath.Join(VerifRoot(), "known_findings.json"))
	if err != nil {
		return nil
	}
	var doc struct {
		Findings []KnownFinding `json:"findings"`
	}
	if err := json.Unmarshal(b, &doc); err != nil {
		panic("known_findings.json: " + err.Error())
	}
	var out []KnownFinding
	for _, f := range doc.Findings {
		if f.Property == property && f.Status == "known" {
			out = append(out, f)
		}
	}
	return out
}

// MatchKnown returns the entry whose signature equals sig (exact match only: a different violation
// of the same property has a different signature and is still reported).
func MatchKnown(known []KnownFinding, sig string) *KnownFinding {
	for i := range known {
		if known[i].Signature == sig {
			return &known[i]
		}
	}
	return nil
}

// Tier returns "quick" or "thorough".
func Tier() string {
	if t := os.Getenv("VERIF_TIER"); t == "thorough" {
		return "thorough"
	}
	return "quick"
}

// Seed from VERIF_SEED.
func Seed() int64 {
	n, _ := strconv.ParseInt(os.Getenv("VERIF_SEED"), 10, 64)
	return n
}

// Evidence mirrors EVIDENCE.schema.json.
type Evidence struct {
	PropertyID  string                 `json:"property_id"`
	Tier        string                 `json:"tier"`
	Seed        int64                  `json:"seed"`
	Level       string                 `json:"level"`
	Coverage    map[string]interface{} `json:"coverage"`
	Assumptions []string               `json:"assumptions,omitempty"`
	WallS       float64                `json:"wall_s"`
	Violations  int                    `json:"violations"`
}

// WriteEvidence writes /verif/evidence/<id>.json.
func WriteEvidence(ev Evidence) {
	dir := filepath.Join(VerifRoot(), "evidence")
	if d := os.Getenv("VERIF_EVIDENCE_DIR"); d != "" {
		dir = d
	}
	os.MkdirAll(dir, 0o755)
	b, _ := json.MarshalIndent(ev, "", " ")
	if err := os.WriteFile(filepath.Join(dir, ev.PropertyID+".json"), append(b, '\n'), 0o644); err != nil {
		panic(err)
	}
}

// ReplayFile is the artefact written for every violation.
type ReplayFile struct {
	Property  string   `json:"property"`
	Part      string   `json:"part"`
	Signature string   `json:"signature"`
	Detail    string   `json:"detail"`
	Path      []string `json:"path"`
	Tier      string   `json:"tier"`
}

// WriteReplay writes the artefact and returns its path.
func WriteReplay(r ReplayFile) string {
	dir := filepath.Join(VerifRoot(), "replays")
	if d := os.Getenv("VERIF_REPLAY_DIR"); d != "" {
		dir = d
	}
	os.MkdirAll(dir, 0o755)
	h := sha256.Sum256([]byte(r.Signature + "|" + strings.Join(r.Path, ";")))
	p := filepath.Join(dir, fmt.Sprintf("%s-%s.json", r.Property, hex.EncodeToString(h[:6])))
	b, _ := json.MarshalIndent(r, "", " ")
	os.WriteFile(p, append(b, '\n'), 0o644)
	return p
}

// Part is one exhaustive sub-check of a property (a driver exploration or a kernel enumeration).
type Part struct {
	Name string
	// Parallel parts may run concurrently with each other (they isolate themselves, e.g. in child processes).
	Parallel bool
	// Run executes the part and returns its report.
	Run func(tier string, known []KnownFinding, deadline time.Time) PartReport
	// Replay re-runs one recorded path (explorations only).
	Replay func(path []string) ([]Finding, error)
}

// PartReport is what a part contributes to the evidence.
type PartReport struct {
	Name        string                      `json:"name"`
	States      int64                       `json:"states"`
	Nontrivial  int64                       `json:"distinct_nontrivial"`
	Transitions int64                       `json:"transitions"`
	Evaluations int64                       `json:"evaluations"`
	Validated   int64                       `json:"traces_validated_against_impl"`
	Exhaustive  bool                        `json:"exhaustive"`
	Bounds      map[string]interface{}      `json:"bounds,omitempty"`
	OpHist      map[string]map[string]int64 `json:"op_outcomes,omitempty"`
	NeverOK     []string                    `json:"ops_never_succeeded,omitempty"`
	Samples     []interface{}               `json:"samples,omitempty"`
	WallS       float64                     `json:"wall_s"`
	Violations  []Violation                 `json:"-"`
	KnownSeen   map[string]Violation        `json:"-"`
	Internal    string                      `json:"internal_error,omitempty"`
	Rule        string                      `json:"rule,omitempty"`
}

// ConfOpts asks an exploration to bind its seam to the real transaction path afterwards (see Conformance).
type ConfOpts struct {
	Stores     []string        // module stores compared after every committed block
	SkipDenoms map[string]bool // denoms whose balances the full app changes on its own (x/mint inflates the bond denom)
	MaxPaths   int             // cap on the number of depth<=2 paths replayed (quick); thorough uses 10x
	// SignInSeam: the seam itself runs under the bytes of the signed transactions (needed where the module
	// derives ids from ctx.TxBytes(): record, service, oracle)
	SignInSeam bool
	// Depth of the enumerated paths (default 2)
	Depth int
}

// ExplorePart wraps a driver exploration as a Part.
func ExplorePart(name string, mk func() (*Env, Driver), depthQuick, depthThorough int, txSeq bool, rule string) Part {
	return ExplorePartC(name, mk, depthQuick, depthThorough, txSeq, rule, nil)
}

// enumeratePaths lists op-name paths of length <= depth in DFS order (no dedup), up to max.
func enumeratePaths(mk func() (*Env, Driver), depth, max int) [][]string {
	e, d := mk()
	var out [][]string
	var rec func(s *State, path []string)
	rec = func(s *State, path []string) {
		if len(out) >= max {
			return
		}
		if len(path) > 0 {
			out = append(out, append([]string{}, path...))
		}
		if len(path) >= depth {
			return
		}
		for _, op := range d.Enabled(e, s) {
			if len(out) >= max {
				return
			}
			c := s.branch()
			d.Apply(e, c, op)
			rec(c, append(append([]string{}, path...), op.Name))
		}
	}
	rec(d.Init(e), nil)
	return out
}

// ExplorePartC is ExplorePart with an optional conformance pass.
func ExplorePartC(name string, mk func() (*Env, Driver), depthQuick, depthThorough int, txSeq bool, rule string, conf *ConfOpts) Part {
	return Part{
		Name: name,
		Run: func(tier string, known []KnownFinding, deadline time.Time) PartReport {
			depth := depthQuick
			if tier == "thorough" {
				depth = depthThorough
			}
			if v := os.Getenv("VERIF_DEPTH"); v != "" {
				depth, _ = strconv.Atoi(v)
			}
			workers := 16
			if v := os.Getenv("VERIF_WORKERS"); v != "" {
				workers, _ = strconv.Atoi(v)
			}
			cfg := Config{Depth: depth, Workers: workers, Deadline: deadline, Known: known, TxSeqInCanon: txSeq, Seed: Seed()}
			if v := os.Getenv("VERIF_MAX_VIOLATIONS"); v != "" {
				cfg.MaxViolations, _ = strconv.Atoi(v)
			}
			r := Explore(cfg, mk)
			rep := PartReport{Name: name, States: r.States, Nontrivial: r.Nontrivial, Transitions: r.Transitions,
				Validated: r.PrefixReplays, Exhaustive: r.Exhaustive, OpHist: r.OpHist, WallS: r.Wall.Seconds(),
				Bounds: map[string]interface{}{"depth": depth, "workers": workers}, Internal: r.InternalError, Rule: rule,
				KnownSeen: r.KnownSeen}
			for k, h := range r.OpHist {
				// kinds starting with '!' are operations the property forbids to succeed
				if h["ok"] == 0 && h["block"] == 0 && !strings.HasPrefix(k, "!") {
					rep.NeverOK = append(rep.NeverOK, k)
				}
			}
			sort.Strings(rep.NeverOK)
			for _, s := range r.Samples {
				rep.Samples = append(rep.Samples, s)
			}
			if conf != nil && len(r.Violations) == 0 && r.InternalError == "" {
				max := conf.MaxPaths
				if max == 0 {
					max = 200
				}
				if tier == "thorough" {
					max *= 10
				}
				pd := conf.Depth
				if pd == 0 {
					pd = 2
				}
				paths := enumeratePaths(mk, pd, max)
				paths = append(paths, r.Samples...)
				// split over workers: every worker validates its share on its own pair of applications
				nw := workers
				if nw > len(paths) {
					nw = len(paths)
				}
				results := make([]ConformanceResult, nw)
				var wg sync.WaitGroup
				for w := 0; w < nw; w++ {
					wg.Add(1)
					go func(w int) {
						defer wg.Done()
						var mine [][]string
						for i := w; i < len(paths); i += nw {
							mine = append(mine, paths[i])
						}
						results[w] = Conformance(mk, mine, conf.Stores, conf.SkipDenoms, conf.SignInSeam)
					}(w)
				}
				wg.Wait()
				var tot ConformanceResult
				for _, c := range results {
					tot.Validated += c.Validated
					tot.Skipped += c.Skipped
					tot.Txs += c.Txs
					tot.Blocks += c.Blocks
					if c.Mismatch != "" && tot.Mismatch == "" {
						tot.Mismatch = c.Mismatch
					}
					if len(tot.SamplePaths) < 3 {
						tot.SamplePaths = append(tot.SamplePaths, c.SamplePaths...)
					}
				}
				rep.Validated += int64(tot.Validated)
				rep.Bounds["conformance"] = map[string]interface{}{"paths_replayed_through_signed_txs_FinalizeBlock_Commit": tot.Validated,
					"paths_not_expressible_as_signed_txs": tot.Skipped, "signed_txs": tot.Txs, "blocks_committed": tot.Blocks, "sample_paths": tot.SamplePaths,
					"cross_instance_prefix_replays": r.PrefixReplays}
				if tot.Mismatch != "" {
					rep.Internal = "seam does not conform to the real transaction pipeline: " + tot.Mismatch
				}
			}
			// confirm + minimise each violation
			for _, v := range r.Violations {
				if v.PreConfirmed {
					rep.Violations = append(rep.Violations, v)
					continue
				}
				cv, ok, why := Confirm(mk, v, 5)
				if !ok {
					if HistoryDependentOK {
						// determinism checks: the same (state, operation) gave different results depending on what the
						// instance had executed before - a linear replay on a fresh instance cannot show that; the
						// artefact replays by re-running this (single-worker, hence deterministic) exploration
						v.Detail += " [observed during the exploration only: the outcome depends on what this application instance executed earlier (sibling branches / rolled-back transactions); replay re-runs the exploration]"
						v.Path = append([]string{fmt.Sprintf("<re-explore depth=%d>", depth)}, v.Path...)
						rep.Violations = append(rep.Violations, v)
						continue
					}
					// Not reproducible by a linear replay on a fresh instance. Either the harness is not
					// deterministic (an internal error), or the implementation keeps state outside the stores that
					// earlier executions of this process left behind (a package-level cache, say) - then the
					// observation is a function of the exploration history and recurs whenever the same exploration
					// is repeated in the same order. Decide by repeating a single-worker (deterministic-order)
					// exploration to the depth of the path twice: the same signature both times = history-dependent
					// implementation state, kept as a violation whose replay re-runs that exploration.
					// (first to the depth of the path - cheap -, then to the full depth of the part: which executions
					// precede a state depends on how far the search goes)
					rd := len(v.Path)
					recurs := false
					for _, try := range []int{rd, depth} {
						if try <= 0 || try > depth || recurs {
							continue
						}
						rd = try
						recurs = true
						for i := 0; i < 2 && recurs; i++ {
							rr := Explore(Config{Depth: rd, Workers: 1, TxSeqInCanon: txSeq, MaxViolations: 200, Seed: Seed(), Deadline: deadline}, mk)
							found := false
							for _, x := range rr.Violations {
								found = found || x.Sig == v.Sig
							}
							recurs = found
						}
					}
					if recurs {
						v.Detail += " [does not show on a linear replay from a fresh application instance, but recurs whenever the same single-worker exploration is repeated: the result depends on state this process kept from earlier executions (outside the stores); replay re-runs the exploration]"
						v.Path = append([]string{fmt.Sprintf("<re-explore depth=%d>", rd)}, v.Path...)
						rep.Violations = append(rep.Violations, v)
						continue
					}
					rep.Internal = fmt.Sprintf("violation %s not reproducible: %s (path %v)", v.Sig, why, v.Path)
					continue
				}
				rep.Violations = append(rep.Violations, cv)
			}
			return rep
		},
		Replay: func(path []string) ([]Finding, error) {
			if len(path) > 0 && path[0] == "<warm-vs-fresh>" {
				// replays by running the exploration of this part again (the comparison is between the instance that
				// did the splitting search and fresh worker instances)
				depth := depthQuick
				if Tier() == "thorough" {
					depth = depthThorough
				}
				r := Explore(Config{Depth: depth, Workers: 16, TxSeqInCanon: txSeq, MaxViolations: 50, Seed: Seed()}, mk)
				var fs []Finding
				for _, v := range r.Violations {
					fs = append(fs, v.Finding)
				}
				return fs, nil
			}
			if len(path) > 0 && strings.HasPrefix(path[0], "<re-explore depth=") {
				var depth int
				fmt.Sscanf(path[0], "<re-explore depth=%d>", &depth)
				r := Explore(Config{Depth: depth, Workers: 1, TxSeqInCanon: txSeq, MaxViolations: 50}, mk)
				var fs []Finding
				for _, v := range r.Violations {
					fs = append(fs, v.Finding)
				}
				return fs, nil
			}
			e, d := mk()
			_, all, err := ReplayPath(e, d, path)
			var fs []Finding
			for _, a := range all {
				fs = append(fs, a...)
			}
			return fs, err
		},
	}
}

// HistoryDependentOK is set by determinism checks (C11): a violation that does not reproduce on a linear
// replay is then kept (see ExplorePart) instead of being treated as harness nondeterminism.
var HistoryDependentOK bool

// RunCheck runs all parts of a property, writes evidence and replay files, prints the
// VIOLATION / KNOWN-FINDING lines and returns the process exit code.
func RunCheck(property string, level string, assumptions []string, parts []Part) int {
	start := time.Now()
	tier := Tier()
	known := LoadKnown(property)
	budget := 4 * time.Minute
	if tier == "thorough" {
		budget = 40 * time.Minute
	}
	if v := os.Getenv("VERIF_BUDGET_S"); v != "" {
		n, _ := strconv.Atoi(v)
		budget = time.Duration(n) * time.Second
	}
	deadline := start.Add(budget)

	only := os.Getenv("VERIF_PART")
	var reports []PartReport
	var viols []struct {
		part string
		v    Violation
	}
	knownSeen := map[string]Violation{}
	internal := ""
	var selected []Part
	for _, p := range parts {
		if only != "" && p.Name != only {
			continue
		}
		selected = append(selected, p)
	}
	results := make([]PartReport, len(selected))
	sem := make(chan struct{}, 16)
	var wg sync.WaitGroup
	for i, p := range selected {
		if p.Parallel {
			wg.Add(1)
			go func(i int, p Part) {
				defer wg.Done()
				sem <- struct{}{}
				results[i] = p.Run(tier, known, deadline)
				<-sem
			}(i, p)
		}
	}
	for i, p := range selected {
		if !p.Parallel {
			results[i] = p.Run(tier, known, deadline)
		}
	}
	wg.Wait()
	for i, p := range selected {
		rep := results[i]
		rep.Name = p.Name
		reports = append(reports, rep)
		for _, v := range rep.Violations {
			if MatchKnown(known, v.Sig) != nil {
				if _, ok := knownSeen[v.Sig]; !ok {
					knownSeen[v.Sig] = v
				}
				continue
			}
			viols = append(viols, struct {
				part string
				v    Violation
			}{p.Name, v})
		}
		for k, v := range rep.KnownSeen {
			if _, ok := knownSeen[k]; !ok {
				knownSeen[k] = v
			}
		}
		if rep.Internal != "" && internal == "" {
			internal = p.Name + ": " + rep.Internal
		}
		fmt.Printf("[%s/%s] states=%d nontrivial=%d transitions=%d evaluations=%d exhaustive=%v wall=%.1fs never-ok=%v\n",
			property, p.Name, rep.States, rep.Nontrivial, rep.Transitions, rep.Evaluations, rep.Exhaustive, rep.WallS, rep.NeverOK)
	}

	var states, trans, nontriv, evals, validated int64
	exhaustive := true
	var samples []interface{}
	for _, r := range reports {
		states += r.States
		trans += r.Transitions
		nontriv += r.Nontrivial
		evals += r.Evaluations + r.Transitions
		validated += r.Validated
		exhaustive = exhaustive && r.Exhaustive
		for i, s := range r.Samples {
			if i < 3 {
				samples = append(samples, map[string]interface{}{"part": r.Name, "case": s})
			}
		}
	}
	if len(samples) == 0 {
		samples = append(samples, "none")
	}
	// one entry per distinct rule, naming the parts that use it
	var rules, ruleOrder []string
	byRule := map[string][]string{}
	for _, r := range reports {
		if r.Rule != "" {
			if _, ok := byRule[r.Rule]; !ok {
				ruleOrder = append(ruleOrder, r.Rule)
			}
			byRule[r.Rule] = append(byRule[r.Rule], r.Name)
		}
	}
	for _, ru := range ruleOrder {
		rules = append(rules, strings.Join(byRule[ru], ", ")+": "+ru)
	}
	cov := map[string]interface{}{
		"states": states, "transitions": trans, "traces_validated_against_impl": validated,
		"samples": samples, "evaluations": evals, "distinct_nontrivial": nontriv,
		"rule": strings.Join(rules, " | "), "exhaustive": exhaustive, "parts": reports,
	}
	if states == 0 {
		// enumeration-only checks (no explicit-state search part): report the exploration-style counts only
		delete(cov, "states")
		delete(cov, "transitions")
		delete(cov, "traces_validated_against_impl")
	}
	var knownLines []string
	for sig, v := range knownSeen {
		kf := MatchKnown(known, sig)
		knownLines = append(knownLines, fmt.Sprintf("KNOWN-FINDING: property=%s %s [%s] e.g. path=%v", property, kf.What, sig, v.Path))
	}
	sort.Strings(knownLines)
	cov["known_findings_seen"] = len(knownLines)
	if internal != "" {
		cov["internal_error"] = internal
	}
	ev := Evidence{PropertyID: property, Tier: tier, Seed: Seed(), Level: level, Coverage: cov,
		Assumptions: assumptions, WallS: time.Since(start).Seconds(), Violations: len(viols)}
	WriteEvidence(ev)

	for _, l := range knownLines {
		fmt.Println(l)
	}
	if len(viols) > 0 {
		for _, pv := range viols {
			path := WriteReplay(ReplayFile{Property: property, Part: pv.part, Signature: pv.v.Sig, Detail: pv.v.Detail, Path: pv.v.Path, Tier: tier})
			fmt.Printf("violation detail: %s: %s\n  path: %v\n", pv.v.Sig, pv.v.Detail, pv.v.Path)
			fmt.Printf("VIOLATION property=%s replay=%s\n", property, path)
		}
		return 1
	}
	if internal != "" {
		fmt.Fprintf(os.Stderr, "INTERNAL ERROR (no verdict): %s\n", internal)
		return 2
	}
	fmt.Printf("OK property=%s tier=%s states=%d transitions=%d exhaustive=%v wall=%.1fs\n", property, tier, states, trans, exhaustive, time.Since(start).Seconds())
	return 0
}

// RunReplay re-executes a replay file and reports whether its signature reproduces.
func RunReplay(property string, parts []Part, file string) int {
	b, err := os.ReadFile(file)
	if err != nil {
		fmt.Fprintln(os.Stderr, err)
		return 2
	}
	var r ReplayFile
	if err := json.Unmarshal(b, &r); err != nil {
		fmt.Fprintln(os.Stderr, err)
		return 2
	}
	for _, p := range parts {
		if p.Name != r.Part || p.Replay == nil {
			continue
		}
		fs, err := p.Replay(r.Path)
		if err != nil {
			fmt.Fprintln(os.Stderr, "replay diverged:", err)
			return 2
		}
		for _, f := range fs {
			if f.Sig == r.Signature {
				fmt.Printf("reproduced: %s: %s\n", f.Sig, f.Detail)
				fmt.Printf("VIOLATION property=%s replay=%s\n", property, file)
				return 1
			}
		}
		fmt.Println("not reproduced: signature absent on this tree")
		for _, f := range fs {
			fmt.Printf("  (other finding on this path: %s: %s)\n", f.Sig, clip(f.Detail))
		}
		return 0
	}
	fmt.Fprintln(os.Stderr, "no such part:", r.Part)
	return 2
}
