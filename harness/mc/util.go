package mc

import (
	"fmt"
	"math/big"
	"sort"
	"strings"

	sdkmath "cosmossdk.io/math"
	sdk "github.com/cosmos/cosmos-sdk/types"
	banktypes "github.com/cosmos/cosmos-sdk/x/bank/types"
)

// Bal returns the bank balance of addr in denom as seen from ctx.
func (e *Env) Bal(ctx sdk.Context, addr sdk.AccAddress, denom string) sdkmath.Int {
	return e.App.BankKeeper.GetBalance(ctx, addr, denom).Amount
}

// AllBal returns all balances of addr.
func (e *Env) AllBal(ctx sdk.Context, addr sdk.AccAddress) sdk.Coins {
	return e.App.BankKeeper.GetAllBalances(ctx, addr)
}

// Supply returns the bank supply of denom.
func (e *Env) Supply(ctx sdk.Context, denom string) sdkmath.Int {
	return e.App.BankKeeper.GetSupply(ctx, denom).Amount
}

// Send builds a bank MsgSend.
func Send(from, to sdk.AccAddress, coins ...sdk.Coin) sdk.Msg {
	return banktypes.NewMsgSend(from, to, sdk.NewCoins(coins...))
}

// C is shorthand for a coin with an int64 amount.
func C(denom string, amt int64) sdk.Coin { return sdk.NewInt64Coin(denom, amt) }

// CI is shorthand for a coin with an Int amount.
func CI(denom string, amt sdkmath.Int) sdk.Coin { return sdk.NewCoin(denom, amt) }

// Sheet is a snapshot of balances of a fixed account universe plus supplies, for BalanceSheet oracles.
type Sheet struct {
	Bal    map[string]sdk.Coins // account label -> coins
	Supply sdk.Coins
}

// Universe maps labels to addresses.
type Universe map[string]sdk.AccAddress

// Snapshot takes a balance sheet of the universe.
func (e *Env) Snapshot(ctx sdk.Context, u Universe) Sheet {
	s := Sheet{Bal: map[string]sdk.Coins{}}
	for l, a := range u {
		s.Bal[l] = e.AllBal(ctx, a)
	}
	var sup sdk.Coins
	e.App.BankKeeper.IterateTotalSupply(ctx, func(c sdk.Coin) bool {
		sup = sup.Add(c)
		return false
	})
	s.Supply = sup
	return s
}

// Delta is after-before per label/denom as signed big ints (zero entries omitted).
type Delta map[string]map[string]*big.Int

// Diff computes after - before. Supply changes are reported under label "supply".
func Diff(before, after Sheet) Delta {
	d := Delta{}
	add := func(label string, b, a sdk.Coins) {
		denoms := map[string]bool{}
		for _, c := range b {
			denoms[c.Denom] = true
		}
		for _, c := range a {
			denoms[c.Denom] = true
		}
		for dn := range denoms {
			x := new(big.Int).Sub(a.AmountOf(dn).BigInt(), b.AmountOf(dn).BigInt())
			if x.Sign() != 0 {
				if d[label] == nil {
					d[label] = map[string]*big.Int{}
				}
				d[label][dn] = x
			}
		}
	}
	for l := range before.Bal {
		add(l, before.Bal[l], after.Bal[l])
	}
	add("supply", before.Supply, after.Supply)
	return d
}

// Get returns the delta of label/denom (0 if absent).
func (d Delta) Get(label, denom string) *big.Int {
	if m, ok := d[label]; ok {
		if v, ok := m[denom]; ok {
			return v
		}
	}
	return new(big.Int)
}

// String is a stable rendering.
func (d Delta) String() string {
	var parts []string
	for l, m := range d {
		for dn, v := range m {
			parts = append(parts, fmt.Sprintf("%s:%s%+d", l, dn, v))
		}
	}
	sort.Strings(parts)
	return strings.Join(parts, " ")
}

// Equal reports whether two deltas are identical.
func (d Delta) Equal(o Delta) bool { return d.String() == o.String() }

// Expect builds an expected delta from (label, denom, amount) triples.
func Expect() Delta { return Delta{} }

// Add adds amt to label/denom in the expected delta (entries summing to zero are dropped).
func (d Delta) Add(label, denom string, amt *big.Int) Delta {
	if amt.Sign() == 0 {
		return d
	}
	if d[label] == nil {
		d[label] = map[string]*big.Int{}
	}
	cur, ok := d[label][denom]
	if !ok {
		cur = new(big.Int)
	}
	n := new(big.Int).Add(cur, amt)
	if n.Sign() == 0 {
		delete(d[label], denom)
		if len(d[label]) == 0 {
			delete(d, label)
		}
	} else {
		d[label][denom] = n
	}
	return d
}

// AddCoins adds sign*coins.
func (d Delta) AddCoins(label string, coins sdk.Coins, sign int64) Delta {
	for _, c := range coins {
		d.Add(label, c.Denom, new(big.Int).Mul(c.Amount.BigInt(), big.NewInt(sign)))
	}
	return d
}

// BlockPanicFindings converts blocker panics into findings under the given property prefix.
func BlockPanicFindings(prop string, bo BlockOutcome) []Finding {
	var fs []Finding
	for _, p := range bo.Panics {
		fs = append(fs, F(prop+"/block-panic/"+Normalize(p), "%s", p))
	}
	return fs
}

// Select keeps the findings of the property `mode` (signature prefix "<mode>/"). `adopt` maps signature
// prefixes of other properties to the prefix they take under this mode (used by C13, which re-reads the
// due-processing oracles of the module drivers as "handled exactly once at its due height").
func Select(fs []Finding, mode string, adopt map[string]string) []Finding {
	var out []Finding
	for _, f := range fs {
		if strings.HasPrefix(f.Sig, mode+"/") {
			out = append(out, f)
			continue
		}
		for from, to := range adopt {
			if strings.HasPrefix(f.Sig, from) {
				f.Sig = to + strings.TrimPrefix(f.Sig, from)
				out = append(out, f)
				break
			}
		}
	}
	return out
}

// QueueEntries returns the (height, rest-of-key) pairs of a time-bound queue stored as prefix|height(8)|rest.
func QueueEntries(ctx sdk.Context, e *Env, store string, prefix byte) []QueueEntry {
	var out []QueueEntry
	for _, kv := range DumpStore(ctx, e, store) {
		if len(kv.K) >= 9 && kv.K[0] == prefix {
			out = append(out, QueueEntry{Height: int64(sdk.BigEndianToUint64(kv.K[1:9])), Rest: append([]byte{}, kv.K[9:]...), Value: kv.V})
		}
	}
	return out
}

// QueueEntry is one entry of a height-indexed queue.
type QueueEntry struct {
	Height int64
	Rest   []byte
	Value  []byte
}
