package mc

import (
	storetypes "cosmossdk.io/store/types"
	sdk "github.com/cosmos/cosmos-sdk/types"
)

// Transplant copies the content of every KV store visible from src (an application instance's branch) into
// dst, a branch of another instance of the same application, replacing what dst holds. It models a restart /
// another node: same persistent state, fresh process-local state. Header fields are copied as well.
func Transplant(srcEnv *Env, src sdk.Context, dstEnv *Env, dst sdk.Context) sdk.Context {
	for _, k := range srcEnv.App.GetStoreKeys() {
		kv, ok := k.(*storetypes.KVStoreKey)
		if !ok {
			continue
		}
		dk := dstEnv.App.GetKey(kv.Name())
		if dk == nil {
			continue
		}
		ss := src.MultiStore().GetKVStore(kv)
		ds := dst.MultiStore().GetKVStore(dk)
		var del [][]byte
		it := ds.Iterator(nil, nil)
		for ; it.Valid(); it.Next() {
			del = append(del, append([]byte{}, it.Key()...))
		}
		it.Close()
		for _, key := range del {
			ds.Delete(key)
		}
		it = ss.Iterator(nil, nil)
		for ; it.Valid(); it.Next() {
			ds.Set(append([]byte{}, it.Key()...), append([]byte{}, it.Value()...))
		}
		it.Close()
	}
	return dst.WithBlockHeader(src.BlockHeader()).WithHeaderHash(src.HeaderHash())
}

// AllKVStores lists the names of all KV stores of the application (for whole-state hashes).
func (e *Env) AllKVStores() []string {
	var out []string
	for _, k := range e.App.GetStoreKeys() {
		if kv, ok := k.(*storetypes.KVStoreKey); ok {
			out = append(out, kv.Name())
		}
	}
	return out
}
