package mc

import (
	"encoding/hex"
	"fmt"
	"os"
	"runtime/debug"
	"sort"
	"strings"
	"sync"
	"sync/atomic"
	"time"

	sdk "github.com/cosmos/cosmos-sdk/types"
)

// Finding is one oracle verdict: a stable signature plus a human-readable detail.
type Finding struct {
	Sig    string
	Detail string
}

// F builds a finding.
func F(sig, format string, a ...interface{}) Finding {
	return Finding{Sig: sig, Detail: fmt.Sprintf(format, a...)}
}

// Model is the path-carried reference-model state of a driver (may be nil).
type Model interface {
	Clone() Model
	Canon() []byte
}

// Op is one element of a driver's alphabet in a given state. Name is unique among the ops enabled
// in that state and stable across runs (replay files store names).
type Op struct {
	Name string
	Data interface{}
}

// State is one search node: a branch of the real stores plus the path-carried model.
type State struct {
	Ctx   sdk.Context
	Model Model
	Depth int
	// TxSeq counts successfully delivered transactions on this path (makes TxBytes unique).
	TxSeq int
	// Last is the class of the last delivered tx ("ok","err","panic") for histograms.
	Last string
	// Nontrivial is set by the driver when the state satisfies its non-triviality rule.
	Nontrivial bool
	// dirty is set when a delivered tx succeeded or a block ran on this branch (the stores may differ
	// from the parent's); a clean branch has the parent's store contents.
	dirty bool
	// fork marks throw-away branches (epilogues, what-if runs): their actions are not part of the path
	fork bool
}

// MarkDirty must be called by drivers that write to the stores other than through Deliver / NextBlock.
func (s *State) MarkDirty() { s.dirty = true }

func (s *State) branch() *State {
	c := &State{Ctx: Branch(s.Ctx), Depth: s.Depth + 1, TxSeq: s.TxSeq, fork: s.fork}
	if s.Model != nil {
		c.Model = s.Model.Clone()
	}
	return c
}

// Fork returns a throw-away branch of s (for epilogue / what-if oracles).
func (s *State) Fork() *State {
	c := s.branch()
	c.Depth = s.Depth
	c.fork = true
	return c
}

// Deliver delivers one transaction on the state with a label unique along the path.
func (s *State) Deliver(e *Env, opName string, msgs ...sdk.Msg) Outcome {
	return s.DeliverWith(e, opName, nil, msgs...)
}

func (s *State) DeliverWith(e *Env, opName string, h Handler, msgs ...sdk.Msg) Outcome {
	if s.fork && e.Trace != nil {
		saved := e.Trace
		e.Trace = nil
		defer func() { e.Trace = saved }()
	}
	out := e.DeliverWith(s.Ctx, fmt.Sprintf("%s#%d", opName, s.TxSeq), h, msgs...)
	if out.OK {
		s.TxSeq++
		s.dirty = true
	}
	s.Last = out.Class()
	return out
}

// DeliverNoTx delivers msgs with empty transaction bytes (a message executed outside a transaction,
// as a governance proposal's messages are).
func (s *State) DeliverNoTx(e *Env, msgs ...sdk.Msg) Outcome {
	if s.fork && e.Trace != nil {
		saved := e.Trace
		e.Trace = nil
		defer func() { e.Trace = saved }()
	}
	out := e.DeliverBytes(s.Ctx, nil, nil, msgs...)
	if out.OK {
		s.dirty = true
	}
	s.Last = out.Class()
	return out
}

// NextBlock advances the state by one block.
func (s *State) NextBlock(e *Env, dt time.Duration) BlockOutcome {
	if s.fork && e.Trace != nil {
		saved := e.Trace
		e.Trace = nil
		defer func() { e.Trace = saved }()
	}
	ctx, bo := e.NextBlock(s.Ctx, dt)
	s.Ctx = ctx
	s.Last = "block"
	s.dirty = true
	return bo
}

// Driver closes the system for one property.
type Driver interface {
	ID() string
	// Stores hashed into the canonical state (module stores + bank, acc as needed).
	Stores() []string
	// Init applies the fixture (through delivered messages) and returns the initial state.
	Init(e *Env) *State
	// Enabled lists the alphabet in state s, simplest first.
	Enabled(e *Env, s *State) []Op
	// Apply executes op on s (already a fresh branch with a cloned model) and returns the
	// step-level oracle verdicts.
	Apply(e *Env, s *State, op Op) []Finding
	// Check evaluates state invariants; called once per newly discovered state.
	Check(e *Env, s *State) []Finding
}

// Config bounds one exploration.
type Config struct {
	Depth    int
	Workers  int
	Deadline time.Time // zero = none
	// MaxViolations stops the search after this many distinct unlisted signatures (default 3).
	MaxViolations int
	// Known signatures (prefix match allowed with trailing '*').
	Known []KnownFinding
	// TxSeqInCanon includes the tx counter in the canonical state (drivers whose module reads TxBytes).
	TxSeqInCanon bool
	Seed         int64
}

// Violation is an unlisted finding with the path that produced it.
type Violation struct {
	Finding
	Path []string
	// PreConfirmed: established by the explorer itself on several instances (see the warm-vs-fresh comparison);
	// not subject to the linear-replay confirmation
	PreConfirmed bool `json:",omitempty"`
}

// Result of one exploration.
type Result struct {
	States        int64
	Nontrivial    int64
	Transitions   int64
	DepthDone     int
	Exhaustive    bool
	Violations    []Violation
	KnownSeen     map[string]Violation // signature -> first occurrence
	OpHist        map[string]map[string]int64
	Samples       [][]string
	PrefixReplays int64
	Wall          time.Duration
	InternalError string
}

type visited struct {
	shards [256]struct {
		mu sync.Mutex
		m  map[[32]byte]int8
	}
}

func newVisited() *visited {
	v := &visited{}
	for i := range v.shards {
		v.shards[i].m = map[[32]byte]int8{}
	}
	return v
}

// visit records h with the given remaining depth. first = never seen; expand = seen with less remaining.
func (v *visited) visit(h [32]byte, remaining int) (first, expand bool) {
	sh := &v.shards[h[0]]
	sh.mu.Lock()
	defer sh.mu.Unlock()
	old, ok := sh.m[h]
	if !ok {
		sh.m[h] = int8(remaining)
		return true, true
	}
	if int(old) >= remaining {
		return false, false
	}
	sh.m[h] = int8(remaining)
	return false, true
}

type task struct {
	path []string
	hash [32]byte
}

type explorer struct {
	cfg     Config
	mk      func() (*Env, Driver)
	vis     *visited
	states  atomic.Int64
	nontriv atomic.Int64
	trans   atomic.Int64
	replays atomic.Int64
	stop    atomic.Bool
	capped  atomic.Bool

	mu       sync.Mutex
	viol     map[string]Violation
	known    map[string]Violation
	opHist   map[string]map[string]int64
	samples  [][]string
	internal string
}

func opKind(name string) string {
	if i := strings.IndexAny(name, "(:"); i > 0 {
		return name[:i]
	}
	return name
}

func (x *explorer) canon(e *Env, d Driver, s *State) [32]byte {
	var m []byte
	if s.Model != nil {
		m = s.Model.Canon()
	}
	if x.cfg.TxSeqInCanon {
		m = append(append([]byte{}, m...), []byte(fmt.Sprintf("|txseq=%d", s.TxSeq))...)
	}
	return Canon(s.Ctx, e, d.Stores(), m)
}

func (x *explorer) report(fs []Finding, path []string) {
	if len(fs) == 0 {
		return
	}
	x.mu.Lock()
	defer x.mu.Unlock()
	for _, f := range fs {
		p := append([]string{}, path...)
		if MatchKnown(x.cfg.Known, f.Sig) != nil {
			if old, ok := x.known[f.Sig]; !ok || len(p) < len(old.Path) {
				x.known[f.Sig] = Violation{Finding: f, Path: p}
			}
			continue
		}
		if old, ok := x.viol[f.Sig]; !ok || len(p) < len(old.Path) {
			x.viol[f.Sig] = Violation{Finding: f, Path: p}
		}
		if len(x.viol) >= x.cfg.MaxViolations {
			x.stop.Store(true)
		}
	}
}

func (x *explorer) note(op string, class string) {
	x.mu.Lock()
	k := opKind(op)
	if x.opHist[k] == nil {
		x.opHist[k] = map[string]int64{}
	}
	x.opHist[k][class]++
	x.mu.Unlock()
}

func (x *explorer) deadlineHit() bool {
	if x.stop.Load() {
		return true
	}
	if !x.cfg.Deadline.IsZero() && time.Now().After(x.cfg.Deadline) {
		x.capped.Store(true)
		x.stop.Store(true)
		return true
	}
	return false
}

// subjectPanic decides whether a panic that escaped a driver's Apply / Check was raised inside the subject: the
// first frame of the stack (innermost first) that belongs to either the repository under test or the harness
// decides. A read the harness performs - a query handler, a keeper getter - that panics inside the repository's own
// code is the subject's defect showing (a client asking the same question gets no answer); a panic raised by
// harness code is a harness error.
func subjectPanic(stack string) bool {
	raised := false
	for _, line := range strings.Split(stack, "\n") {
		line = strings.TrimSpace(line)
		if !strings.HasPrefix(line, "/") { // function lines; file lines start with a path
			continue
		}
		if !raised {
			// the frames above runtime.gopanic are the recovering deferred function and debug.Stack itself
			raised = strings.Contains(line, "/runtime/panic.go")
			continue
		}
		switch {
		case strings.HasPrefix(line, RepoRoot+"/"):
			return true
		case strings.Contains(line, "/verif/harness/") || strings.Contains(line, "/harness/mc/") || strings.Contains(line, "/harness/props/"):
			return false
		}
	}
	return false
}

// RepoRoot is where the repository under test lives (stack frames below it are the subject's).
var RepoRoot = func() string {
	if r := os.Getenv("REPO"); r != "" {
		return r
	}
	return "/repo"
}()

// guarded runs f (a driver's Apply or Check); a panic raised inside the subject becomes a finding of the driver's
// property, any other panic is returned as a harness error text.
func guarded(d Driver, what string, f func() []Finding) (fs []Finding, herr string) {
	defer func() {
		if r := recover(); r != nil {
			st := string(debug.Stack())
			if subjectPanic(st) {
				prop := d.ID()
				if i := strings.IndexByte(prop, '/'); i > 0 {
					prop = prop[:i]
				}
				fs = append(fs, F(prop+"/subject-panics-when-read/"+Normalize(fmt.Sprint(r)), "while the harness was reading the state (%s) the repository's own code paniced: %v", what, r))
				return
			}
			herr = fmt.Sprintf("%v", r)
		}
	}()
	return f(), ""
}

// step applies op to a branch of s; returns child and its hash.
func (x *explorer) step(e *Env, d Driver, s *State, op Op, path []string) (child *State, h [32]byte, expand bool) {
	child = s.branch()
	fs, herr := guarded(d, "step oracles of "+op.Name, func() []Finding { return d.Apply(e, child, op) })
	if herr != "" {
		// a panic escaping the driver itself (not a delivered message, not the subject) is a harness error
		x.mu.Lock()
		if x.internal == "" {
			x.internal = fmt.Sprintf("driver panic at %v + %s: %v", path, op.Name, herr)
		}
		x.mu.Unlock()
		x.stop.Store(true)
	}
	x.trans.Add(1)
	x.note(op.Name, child.Last)
	if !child.dirty && sameModel(s, child) {
		// nothing was written and the model did not move: the child is the parent state (self-loop);
		// report the step findings, skip hashing and do not expand
		x.report(fs, append(append([]string{}, path...), op.Name))
		return child, h, false
	}
	h = x.canon(e, d, child)
	remaining := x.cfg.Depth - child.Depth
	first, expand := x.vis.visit(h, remaining)
	full := append(append([]string{}, path...), op.Name)
	if first {
		x.states.Add(1)
		cfs, cerr := guarded(d, "state invariants", func() []Finding { return d.Check(e, child) })
		fs = append(fs, cfs...)
		if cerr != "" {
			x.mu.Lock()
			if x.internal == "" {
				x.internal = fmt.Sprintf("driver Check panic at %v: %v", full, cerr)
			}
			x.mu.Unlock()
			x.stop.Store(true)
		}
		if child.Nontrivial {
			x.nontriv.Add(1)
		}
	}
	x.report(fs, full)
	return child, h, expand
}

func sameModel(a, b *State) bool {
	if a.Model == nil || b.Model == nil {
		return a.Model == nil && b.Model == nil
	}
	return string(a.Model.Canon()) == string(b.Model.Canon())
}

func (x *explorer) dfs(e *Env, d Driver, s *State, path []string, splitAt int, tasks *[]task) {
	if x.deadlineHit() {
		return
	}
	if s.Depth >= x.cfg.Depth {
		x.sample(path)
		return
	}
	ops := d.Enabled(e, s)
	for _, op := range ops {
		if x.deadlineHit() {
			return
		}
		child, h, expand := x.step(e, d, s, op, path)
		if !expand {
			continue
		}
		full := append(append([]string{}, path...), op.Name)
		if tasks != nil && child.Depth == splitAt && child.Depth < x.cfg.Depth {
			*tasks = append(*tasks, task{full, h})
			continue
		}
		x.dfs(e, d, child, full, splitAt, tasks)
	}
}

func (x *explorer) sample(path []string) {
	x.mu.Lock()
	if len(x.samples) < 4 {
		x.samples = append(x.samples, append([]string{}, path...))
	}
	x.mu.Unlock()
}

// ReplayPath replays op names from a fresh initial state; returns the final state, all findings
// per step, and an error if a name is not enabled (divergence).
func ReplayPath(e *Env, d Driver, path []string) (*State, [][]Finding, error) {
	s := d.Init(e)
	var all [][]Finding
	all = append(all, d.Check(e, s))
	for i, name := range path {
		var op *Op
		for _, o := range d.Enabled(e, s) {
			if o.Name == name {
				oo := o
				op = &oo
				break
			}
		}
		if op == nil {
			return s, all, fmt.Errorf("replay diverged at step %d: op %q not enabled", i, name)
		}
		c := s.branch()
		o := *op
		fs, herr := guarded(d, "step oracles of "+o.Name, func() []Finding { return d.Apply(e, c, o) })
		if herr != "" {
			panic(herr)
		}
		cfs, cerr := guarded(d, "state invariants", func() []Finding { return d.Check(e, c) })
		if cerr != "" {
			panic(cerr)
		}
		fs = append(fs, cfs...)
		all = append(all, fs)
		s = c
	}
	return s, all, nil
}

// Explore runs the depth-bounded exhaustive search. mk builds a fresh (Env, Driver) pair; it is
// called once per worker.
func Explore(cfg Config, mk func() (*Env, Driver)) Result {
	start := time.Now()
	if cfg.Workers <= 0 {
		cfg.Workers = 16
	}
	if cfg.MaxViolations <= 0 {
		cfg.MaxViolations = 3
	}
	x := &explorer{cfg: cfg, mk: mk, vis: newVisited(), viol: map[string]Violation{}, known: map[string]Violation{}, opHist: map[string]map[string]int64{}}

	e0, d0 := mk()
	s0 := d0.Init(e0)
	h0 := x.canon(e0, d0, s0)
	x.vis.visit(h0, cfg.Depth)
	x.states.Add(1)
	x.report(d0.Check(e0, s0), nil)
	if s0.Nontrivial {
		x.nontriv.Add(1)
	}

	// determinism self-check: a second fresh instance must reach the same initial hash
	{
		e1, d1 := mk()
		s1 := d1.Init(e1)
		if h1 := x.canon(e1, d1, s1); h1 != h0 {
			return Result{InternalError: "non-deterministic fixture: initial canon differs between two fresh instances", Wall: time.Since(start)}
		}
	}

	splitAt := 1
	if cfg.Depth >= 4 {
		splitAt = 2
	}
	var tasks []task
	if cfg.Workers == 1 || cfg.Depth <= 2 {
		x.dfs(e0, d0, s0, nil, 0, nil)
	} else {
		x.dfs(e0, d0, s0, nil, splitAt, &tasks)
		// deterministic shuffle by seed so that shard order varies with VERIF_SEED only
		if cfg.Seed != 0 {
			sort.SliceStable(tasks, func(i, j int) bool {
				return (int64(tasks[i].hash[0])^cfg.Seed)&0xff < (int64(tasks[j].hash[0])^cfg.Seed)&0xff
			})
		}
		ch := make(chan task, len(tasks))
		for _, t := range tasks {
			ch <- t
		}
		close(ch)
		var wg sync.WaitGroup
		nw := cfg.Workers
		if nw > len(tasks) {
			nw = len(tasks)
		}
		for w := 0; w < nw; w++ {
			wg.Add(1)
			go func(w int) {
				defer wg.Done()
				var e *Env
				var d Driver
				if w == 0 {
					e, d = e0, d0
				} else {
					e, d = mk()
				}
				for t := range ch {
					if x.deadlineHit() {
						return
					}
					s, _, err := ReplayPath(e, d, t.path)
					x.replays.Add(1)
					if err != nil {
						x.fail("prefix replay: " + err.Error())
						return
					}
					if h := x.canon(e, d, s); h != t.hash {
						// Two instances executed the same op path and disagree. Tie-break on two brand-new instances:
						// if those agree with each other, the disagreeing instance is one that had executed other
						// things before - the implementation keeps state outside the stores; if they disagree too,
						// the harness itself is not deterministic.
						e1, d1 := mk()
						e2, d2 := mk()
						s1, _, err1 := ReplayPath(e1, d1, t.path)
						s2, _, err2 := ReplayPath(e2, d2, t.path)
						if err1 != nil || err2 != nil || x.canon(e1, d1, s1) != x.canon(e2, d2, s2) {
							x.fail(fmt.Sprintf("prefix replay of %v reached a different state on a second instance (harness nondeterminism)", t.path))
							return
						}
						prop := d.ID()
						if i := strings.Index(prop, "/"); i > 0 {
							prop = prop[:i]
						}
						x.mu.Lock()
						sig := prop + "/outcome-depends-on-earlier-executions-of-the-process"
						if _, ok := x.viol[sig]; !ok {
							x.viol[sig] = Violation{Finding: F(sig, "the op path %v leads to one state on application instances that executed nothing else (two fresh instances agree) and to another on an instance that had executed other paths before: the implementation keeps state outside the stores (a cache that survives discarded branches / rolled-back transactions)", t.path),
								Path: append([]string{"<warm-vs-fresh>"}, t.path...), PreConfirmed: true}
						}
						x.mu.Unlock()
						x.stop.Store(true)
						return
					}
					x.dfs(e, d, s, t.path, 0, nil)
				}
			}(w)
		}
		wg.Wait()
	}

	res := Result{
		States: x.states.Load(), Nontrivial: x.nontriv.Load(), Transitions: x.trans.Load(),
		DepthDone: cfg.Depth, Exhaustive: !x.capped.Load() && len(x.viol) == 0 && x.internal == "",
		KnownSeen: x.known, OpHist: x.opHist, Samples: x.samples, PrefixReplays: x.replays.Load(),
		Wall: time.Since(start), InternalError: x.internal,
	}
	var sigs []string
	for s := range x.viol {
		sigs = append(sigs, s)
	}
	sort.Strings(sigs)
	for _, s := range sigs {
		res.Violations = append(res.Violations, x.viol[s])
	}
	return res
}

func (x *explorer) fail(msg string) {
	x.mu.Lock()
	if x.internal == "" {
		x.internal = msg
	}
	x.mu.Unlock()
	x.stop.Store(true)
}

// Confirm replays a violation n times on fresh instances and minimises its path greedily.
// It returns the (possibly shortened) path and whether the signature reproduced every time.
func Confirm(mk func() (*Env, Driver), v Violation, n int) (Violation, bool, string) {
	has := func(path []string) (bool, string, error) {
		e, d := mk()
		_, all, err := ReplayPath(e, d, path)
		if err != nil {
			return false, "", err
		}
		for _, fs := range all {
			for _, f := range fs {
				if f.Sig == v.Sig {
					return true, f.Detail, nil
				}
			}
		}
		return false, "", nil
	}
	for i := 0; i < n; i++ {
		ok, _, err := has(v.Path)
		if err != nil {
			return v, false, "replay error: " + err.Error()
		}
		if !ok {
			return v, false, fmt.Sprintf("signature did not reproduce on replay %d", i+1)
		}
	}
	// greedy minimisation
	path := append([]string{}, v.Path...)
	for i := 0; i < len(path); {
		cand := append(append([]string{}, path[:i]...), path[i+1:]...)
		ok, _, err := has(cand)
		if err == nil && ok {
			path = cand
		} else {
			i++
		}
	}
	// cut the tail after the first occurrence
	for len(path) > 0 {
		cand := path[:len(path)-1]
		ok, _, err := has(cand)
		if err == nil && ok {
			path = cand
		} else {
			break
		}
	}
	_, detail, _ := has(path)
	if detail != "" {
		v.Detail = detail
	}
	v.Path = path
	return v, true, ""
}

func hexs(b []byte) string { return hex.EncodeToString(b) }

var _ = os.Stderr
