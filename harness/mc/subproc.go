package mc

import (
	"bytes"
	"encoding/json"
	"fmt"
	"os"
	"os/exec"
	"time"
)

// WireReport is a PartReport with the fields that do not travel in the evidence file.
type WireReport struct {
	Report     PartReport           `json:"report"`
	Violations []Violation          `json:"violations"`
	KnownSeen  map[string]Violation `json:"known_seen"`
}

// RunPartWire runs one part in this process and prints its wire report as JSON on stdout (used by the
// `part` sub-command in child processes).
func RunPartWire(property string, p Part) int {
	tier := Tier()
	deadline := time.Now().Add(budget(tier))
	rep := p.Run(tier, LoadKnown(property), deadline)
	rep.Name = p.Name
	w := WireReport{Report: rep, Violations: rep.Violations, KnownSeen: rep.KnownSeen}
	b, _ := json.Marshal(w)
	os.Stdout.Write(append(b, '\n'))
	return 0
}

func budget(tier string) time.Duration {
	b := 4 * time.Minute
	if tier == "thorough" {
		b = 40 * time.Minute
	}
	if v := os.Getenv("VERIF_BUDGET_S"); v != "" {
		var n int
		fmt.Sscan(v, &n)
		b = time.Duration(n) * time.Second
	}
	return b
}

// SubprocessPart runs the named part of the property in a child process with a single search worker. It is
// used where the check manipulates process-global environment seams (host clock, map order), so that parts
// can still run in parallel — one process each.
func SubprocessPart(property, name string) Part {
	return Part{Name: name, Parallel: true, Run: func(tier string, known []KnownFinding, deadline time.Time) PartReport {
		exe, err := os.Executable()
		if err != nil {
			return PartReport{Name: name, Internal: err.Error()}
		}
		cmd := exec.Command(exe, "part", property, name)
		cmd.Env = append(os.Environ(), "VERIF_WORKERS=1", "VERIF_TIER="+tier)
		var out, errb bytes.Buffer
		cmd.Stdout, cmd.Stderr = &out, &errb
		if err := cmd.Run(); err != nil {
			return PartReport{Name: name, Internal: fmt.Sprintf("child failed: %v: %s", err, tail(errb.String(), 600))}
		}
		var w WireReport
		lines := bytes.Split(bytes.TrimSpace(out.Bytes()), []byte("\n"))
		if err := json.Unmarshal(lines[len(lines)-1], &w); err != nil {
			return PartReport{Name: name, Internal: "child output unparsable: " + tail(out.String(), 300)}
		}
		rep := w.Report
		rep.Violations, rep.KnownSeen = w.Violations, w.KnownSeen
		return rep
	}}
}

func tail(s string, n int) string {
	if len(s) > n {
		return s[len(s)-n:]
	}
	return s
}
