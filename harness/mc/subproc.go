package mc

import (
	"bytes"
	"encoding/json"
	"fmt"
	"os"
	"os/exec"
	"time"
)

// WireReport is a PartReport with the fields that do not travel in the evidence file.
type WireReport struct {
	Report     PartReport           `json:"report"`
	Violations []Violation          `json:"violations"`
	KnownSeen  map[string]Violation `json:"known_seen"`
}

// RunPartWire runs one part in this process and prints its wire report as JSON on stdout (used by the
// `part` sub-command in child processes).
func RunPartWire(property string, p Part) int {
	tier := Tier()
	deadline := time.Now().Add(budget(tier))
	rep := p.Run(tier, LoadKnown(property), deadline)
	rep.Name = p.Name
	w := WireReport{Report: rep, Violations: rep.Violations, KnownSeen: rep.KnownSeen}
	b, _ := json.Marshal(w)
	os.Stdout.Write(append(b, '\n'))
	return 0
}

func budget(tier string) time.Duration {
	b := 6 * time.Minute
	if tier == "thorough" {
		b = 40 * time.Minute
	}
	if v := os.Getenv("VERIF_BUDGET_S"); v != "" {
		var n int
		fmt.Sscan(v, &n)
		b = time.Duration(n) * time.Second
	}
	return b
}

// SubprocessPart runs the named part of the property in a child process with a single search worker. It is
// used where the check manipulates process-global environment seams (host clock, map order), so that parts
// can still run in parallel — one process each.
func SubprocessPart(property, name string) Part {
	return Part{Name: name, Parallel: true, Run: func(tier string, known []KnownFinding, deadline time.Time) PartReport {
		exe, err := os.Executable()
		if err != nil {
			return PartReport{Name: name, Internal: err.Error()}
		}
		cmd := exec.Command(exe, "part", property, name)
		cmd.Env = append(os.Environ(), "VERIF_WORKERS=1", "VERIF_TIER="+tier)
		var out, errb bytes.Buffer
		cmd.Stdout, cmd.Stderr = &out, &errb
		if err := cmd.Run(); err != nil {
			return PartReport{Name: name, Internal: fmt.Sprintf("child failed: %v: %s", err, tail(errb.String(), 600))}
		}
		var w WireReport
		lines := bytes.Split(bytes.TrimSpace(out.Bytes()), []byte("\n"))
		if err := json.Unmarshal(lines[len(lines)-1], &w); err != nil {
			return PartReport{Name: name, Internal: "child output unparsable: " + tail(out.String(), 300)}
		}
		rep := w.Report
		rep.Violations, rep.KnownSeen = w.Violations, w.KnownSeen
		return rep
	}}
}

func tail(s string, n int) string {
	if len(s) > n {
		return s[len(s)-n:]
	}
	return s
}

// ---------------------------------------------------------------------------------------------------------
// Guarded parts: a check whose subject may take the whole process down (a parameter-sized allocation: "fatal
// error: out of memory" cannot be recovered) runs in a child process under an address-space limit. When the
// child dies, the part is run again with a single worker and a marker file that names what is being executed;
// the marker left behind by two consecutive crashing runs is the violation.

// AbortMark records what the process is about to execute (no-op unless the parent asked for markers).
func AbortMark(sig, detail string, path []string) {
	f := os.Getenv("VERIF_ABORT_MARKER")
	if f == "" {
		return
	}
	b, _ := json.Marshal(map[string]interface{}{"sig": sig, "detail": detail, "path": path})
	_ = os.WriteFile(f, b, 0o644)
}

type abortMark struct {
	Sig    string   `json:"sig"`
	Detail string   `json:"detail"`
	Path   []string `json:"path"`
}

const childMemLimitMB = 12288

func runGuardedChild(property, name, tier string, workers int, marker string) (*WireReport, string) {
	exe, err := os.Executable()
	if err != nil {
		return nil, err.Error()
	}
	cmd := exec.Command(exe, "part", property, name)
	cmd.Env = append(os.Environ(), "VERIF_TIER="+tier, fmt.Sprintf("VERIF_MEM_LIMIT_MB=%d", childMemLimitMB))
	if workers > 0 {
		cmd.Env = append(cmd.Env, fmt.Sprintf("VERIF_WORKERS=%d", workers))
	}
	if marker != "" {
		cmd.Env = append(cmd.Env, "VERIF_ABORT_MARKER="+marker)
	}
	var out, errb bytes.Buffer
	cmd.Stdout, cmd.Stderr = &out, &errb
	rerr := cmd.Run()
	var w WireReport
	lines := bytes.Split(bytes.TrimSpace(out.Bytes()), []byte("\n"))
	if rerr == nil && json.Unmarshal(lines[len(lines)-1], &w) == nil {
		return &w, ""
	}
	msg := "no report"
	if rerr != nil {
		msg = rerr.Error()
	}
	first := errb.String()
	if i := bytes.IndexByte(errb.Bytes(), '\n'); i > 0 {
		first = first[:i]
	}
	return nil, msg + ": " + first
}

// GuardedSubprocessPart runs the named inner part in a child process under an address-space limit.
func GuardedSubprocessPart(property, name string) Part {
	return Part{Name: name, Parallel: true, Run: func(tier string, known []KnownFinding, deadline time.Time) PartReport {
		w, why := runGuardedChild(property, name, tier, 0, "")
		if w != nil {
			rep := w.Report
			rep.Violations, rep.KnownSeen = w.Violations, w.KnownSeen
			return rep
		}
		// the child died: find out on what, with one worker and a marker, twice
		var marks []abortMark
		for i := 0; i < 2; i++ {
			mf, err := os.CreateTemp("", "verif-abort-*")
			if err != nil {
				return PartReport{Name: name, Internal: err.Error()}
			}
			mf.Close()
			defer os.Remove(mf.Name())
			w2, why2 := runGuardedChild(property, name, tier, 1, mf.Name())
			if w2 != nil {
				return PartReport{Name: name, Internal: "child process died (" + why + ") but a single-worker run of the same part completed: not reproducible"}
			}
			var m abortMark
			b, _ := os.ReadFile(mf.Name())
			if json.Unmarshal(b, &m) != nil || m.Sig == "" {
				return PartReport{Name: name, Internal: "child process died outside any marked step: " + why2}
			}
			m.Detail += " — the process ended with: " + why2
			marks = append(marks, m)
		}
		if marks[0].Sig != marks[1].Sig {
			return PartReport{Name: name, Internal: fmt.Sprintf("child process died at different steps in two runs: %s / %s", marks[0].Sig, marks[1].Sig)}
		}
		v := Violation{Finding: Finding{Sig: marks[0].Sig, Detail: marks[0].Detail}, Path: marks[0].Path, PreConfirmed: true}
		rep := PartReport{Name: name, Exhaustive: false, Rule: "exploration ended by the death of the process"}
		if MatchKnown(known, v.Sig) != nil {
			rep.KnownSeen = map[string]Violation{v.Sig: v}
		} else {
			rep.Violations = []Violation{v}
		}
		return rep
	}, Replay: func(path []string) ([]Finding, error) {
		r := GuardedSubprocessPart(property, name).Run(Tier(), nil, time.Now().Add(10*time.Minute))
		var fs []Finding
		for _, v := range r.Violations {
			fs = append(fs, v.Finding)
		}
		if r.Internal != "" {
			return nil, fmt.Errorf("%s", r.Internal)
		}
		return fs, nil
	}}
}
