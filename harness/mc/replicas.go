package mc

import (
	"bytes"
	"encoding/hex"
	"fmt"
	"reflect"
	"strings"
	"time"

	"github.com/cosmos/cosmos-sdk/telemetry"
	sdk "github.com/cosmos/cosmos-sdk/types"

	"verif/harness/envseam"
)

// Deviation is one environment a replica runs under.
type Deviation struct {
	Name  string
	Clock time.Duration
	Seed  uint64
	// Cold: the replica is a brand-new application instance with the state transplanted (restart / other node).
	Cold bool
	// Restart: the instance is constructed like a node process started on existing data - InitChain (and with it
	// every module's InitGenesis) never ran in it; whatever a module sets up in memory only at genesis is absent.
	Restart bool
	// Zone: the host's local time zone (nil = the zone the process started with)
	Zone *time.Location
	// Telemetry: the node runs with `[telemetry] enabled = true` in its app.toml (node-local configuration)
	Telemetry bool
}

var hostZone = time.Local

// a host east of Greenwich by a non-integral number of hours: nothing a chain computes may depend on it
var otherZone = time.FixedZone("UTC+05:45", 5*3600+45*60)

// Deviations used by the determinism check: every replica is cold (fresh instance = fresh process-local state);
// clock offsets straddle every duration threshold in the code (5 minutes in the oracle module, days for
// deposits); seeds 1..7 give the other rotations of small maps (seed 0 is the baseline). A map of up to 8
// entries is iterated from slot (seed & 7), wrapping: only a start slot below the number of entries changes
// the order, so every combined deviation uses a seed whose low three bits are 1 (the rotation that reorders
// every map with two or more entries); the higher bits vary the start bucket / offset of larger maps.
var Deviations = []Deviation{
	{Name: "restarted-node+clock+7m+seed1+zone", Clock: 7 * time.Minute, Seed: 1, Cold: true, Restart: true, Zone: otherZone},
	{Name: "cold+clock-7m+seed9+zone", Clock: -7 * time.Minute, Seed: 9, Cold: true, Zone: otherZone},
	{Name: "cold+clock+400d+seed17+telemetry", Clock: 400 * 24 * time.Hour, Seed: 17, Cold: true, Telemetry: true},
}

var singleDeviations = []Deviation{
	{Name: "cold-instance", Cold: true},
	{Name: "restarted-node", Cold: true, Restart: true},
	{Name: "host-time-zone", Cold: true, Zone: otherZone},
	{Name: "node-config-telemetry", Cold: true, Telemetry: true},
	{Name: "host-clock", Clock: 400 * 24 * time.Hour, Cold: true},
	{Name: "host-clock", Clock: 7 * time.Minute, Cold: true},
	{Name: "host-clock", Clock: -7 * time.Minute, Cold: true},
	{Name: "map-order", Seed: 1, Cold: true}, {Name: "map-order", Seed: 2, Cold: true}, {Name: "map-order", Seed: 3, Cold: true},
	{Name: "map-order", Seed: 4, Cold: true}, {Name: "map-order", Seed: 5, Cold: true}, {Name: "map-order", Seed: 6, Cold: true},
	{Name: "map-order", Seed: 7, Cold: true},
}

func init() {
	// a replica whose host clock agrees with the chain's block time (a node that runs "live"): this is the
	// side of the 5-minute freshness threshold that a replay years later never sees
	live := GenesisTime.Add(time.Minute).Sub(time.Now())
	Deviations = append(Deviations, Deviation{Name: "cold+clock=blocktime+seed25", Clock: live, Seed: 25, Cold: true})
	singleDeviations = append(singleDeviations, Deviation{Name: "host-clock", Clock: live, Cold: true})
	// ... and one whose host clock is BEHIND the chain's block time (every deadline / expiry the chain has passed
	// is still ahead on that clock)
	behind := GenesisTime.Add(-time.Hour).Sub(time.Now())
	Deviations = append(Deviations, Deviation{Name: "cold+clock-behind-blocktime+seed33", Clock: behind, Seed: 33, Cold: true})
	singleDeviations = append(singleDeviations, Deviation{Name: "host-clock", Clock: behind, Cold: true})
}

func setEnv(d Deviation) {
	if d.Zone != nil {
		time.Local = d.Zone
	} else {
		time.Local = hostZone
	}
	setTelemetry(d.Telemetry)
	envseam.SetClockOffset(d.Clock)
	envseam.SetMapSeed(true, d.Seed)
}

var telemetryOn bool

// setTelemetry switches the SDK's process-wide telemetry flag the way a node's start-up does from its app.toml.
func setTelemetry(on bool) {
	if on == telemetryOn {
		return
	}
	telemetryOn = on
	_, _ = telemetry.New(telemetry.Config{Enabled: on, ServiceName: "verif", PrometheusRetentionTime: 0})
}

func baselineEnv() {
	setTelemetry(false)
	time.Local = hostZone
	envseam.SetClockOffset(0)
	envseam.SetMapSeed(true, 0)
}

// Replicas wraps a driver for the determinism property: every transition the inner driver generates is
// executed from the same pre-state on the search's own (warm) instance under the baseline environment and on
// fresh instances under deviating environments; results, whole-application state and exported genesis must
// be byte-identical. Requires a single-worker exploration (the environment seams are process-global).
type Replicas struct {
	Inner    Driver
	Mk       func() (*Env, Driver)
	Property string
	Exports  []string // modules whose exported genesis is compared in every state
	All      bool     // run every deviation on every transition (thorough); otherwise rotate
	// NoRestart: the driver keeps environment-bound state from its fixture (cannot be brought up without InitChain)
	NoRestart bool
	step      int
	twin      Driver // a driver whose Init ran on a normally initialised instance (source of Init-derived fields)
	// initFinding: the fixture itself behaved differently under another environment (see Init)
	initFinding *Finding
}

func (r *Replicas) ID() string       { return r.Property + "/" + r.Inner.ID() }
func (r *Replicas) Stores() []string { return r.Inner.Stores() }
func (r *Replicas) Enabled(e *Env, s *State) []Op {
	if r.initFinding != nil {
		return nil
	}
	return r.Inner.Enabled(e, s)
}

func (r *Replicas) Init(e *Env) *State {
	baselineEnv()
	s, perr := tryInit(r.Inner, e)
	if perr == nil {
		return s
	}
	// The driver's fixture (ordinary valid transactions) fails under the baseline environment. If it goes through
	// under another host clock, what the chain accepts depends on the clock of the node.
	if envseam.Controlled {
		for _, sd := range singleDeviations {
			if sd.Clock == 0 {
				continue
			}
			setEnv(sd)
			e2, d2 := r.Mk()
			if w, ok := d2.(*Replicas); ok {
				d2 = w.Inner
			}
			_, p2 := tryInit(d2, e2)
			baselineEnv()
			if p2 == nil {
				f := F(r.Property+"/replica-differs/host-clock/fixture", "the fixture transactions of %s fail under the baseline host clock (%v) and succeed when the host clock is shifted by %s: acceptance depends on the clock of the node", r.Inner.ID(), perr, sd.Clock)
				r.initFinding = &f
				return &State{Ctx: Branch(e.Root)}
			}
		}
	}
	panic(perr)
}

func tryInit(d Driver, e *Env) (s *State, perr interface{}) {
	defer func() { perr = recover() }()
	return d.Init(e), nil
}

type replicaResult struct {
	hash    []byte
	stores  map[string][]byte
	last    string
	enabled bool
	results []byte // digest of the transaction / block results of the transition
	first   string
}

func wholeState(e *Env, ctx sdk.Context) ([]byte, map[string][]byte) {
	per := map[string][]byte{}
	var all []byte
	for _, st := range e.AllKVStores() {
		h := StateHash(ctx, e, []string{st})
		per[st] = h
		all = append(all, h...)
	}
	hdr := ctx.BlockHeader()
	all = append(all, []byte(fmt.Sprintf("|%d|%d|%x", hdr.Height, hdr.Time.UnixNano(), hdr.AppHash))...)
	return all, per
}

// runReplica executes op from the pre-state on a fresh instance under d.
func (r *Replicas) runReplica(e *Env, pre *State, op Op, d Deviation) replicaResult {
	setEnv(d)
	defer baselineEnv()
	var ce *Env
	var cd Driver
	if d.Restart && !r.NoRestart {
		if r.twin == nil {
			te, td := r.Mk()
			if w, ok := td.(*Replicas); ok {
				td = w.Inner
			}
			td.Init(te)
			r.twin = td
		}
		RestartedNode = true
		ce, cd = r.Mk()
		RestartedNode = false
		if w, ok := cd.(*Replicas); ok {
			cd = w.Inner
		}
		// the fixture cannot run on a chain that was never initialised: take the Init-derived fields from the twin
		if tv, cv := reflect.ValueOf(r.twin), reflect.ValueOf(cd); tv.Kind() == reflect.Ptr && cv.Kind() == reflect.Ptr && tv.Type() == cv.Type() {
			cv.Elem().Set(tv.Elem())
		}
	} else {
		ce, cd = r.Mk()
		if w, ok := cd.(*Replicas); ok {
			cd = w.Inner
		}
		cd.Init(ce) // sets the driver's own fields; its fixture state is replaced by the transplant
	}
	cctx := Transplant(e, pre.Ctx, ce, Branch(ce.Root))
	cs := &State{Ctx: cctx, Depth: pre.Depth, TxSeq: pre.TxSeq}
	if pre.Model != nil {
		cs.Model = pre.Model.Clone()
	}
	var cop *Op
	for _, o := range cd.Enabled(ce, cs) {
		if o.Name == op.Name {
			oo := o
			cop = &oo
			break
		}
	}
	if cop == nil {
		return replicaResult{enabled: false}
	}
	ce.Results = &ResultLog{}
	cd.Apply(ce, cs, *cop)
	h, per := wholeState(ce, cs.Ctx)
	return replicaResult{hash: h, stores: per, last: cs.Last, enabled: true, results: ce.Results.Sum(), first: ce.Results.First}
}

func (r *Replicas) Apply(e *Env, s *State, op Op) []Finding {
	baselineEnv()
	// the pre-state is s itself before the inner Apply mutates it; replicas read it first
	devs := Deviations
	if !r.All {
		// one deviation per transition, chosen by a fixed function of the transition (so that a replay of the
		// same path meets the same replica); the thorough tier runs all of them on every transition
		h := uint32(2166136261)
		for _, c := range []byte(fmt.Sprintf("%d|%s", s.Depth, op.Name)) {
			h = (h ^ uint32(c)) * 16777619
		}
		// the restarted node (no InitChain, no fixture run in the process, shifted clock, reordered maps) is the
		// strongest single deviation: it takes every second transition, the others share the rest
		if k := int(h % 8); k < 4 {
			devs = []Deviation{Deviations[0]}
		} else {
			devs = []Deviation{Deviations[1+(k-4)%(len(Deviations)-1)]}
		}
	}
	var reps []replicaResult
	if envseam.Controlled {
		for _, d := range devs {
			reps = append(reps, r.runReplica(e, s, op, d))
		}
	} else {
		// without the environment overlay only the cold-instance dimension can be exercised
		devs = []Deviation{{Name: "cold-instance", Cold: true}}
		reps = append(reps, r.runReplica(e, s, op, devs[0]))
	}
	// the baseline transition runs on a branch of s, so that s itself stays the untouched pre-state for the
	// attribution re-runs below (a branch taken from s would see later writes to s); s adopts the result at the end
	post := s.Fork()
	post.fork = s.fork
	e.Results = &ResultLog{}
	r.Inner.Apply(e, post, op)
	res0, first0 := e.Results.Sum(), e.Results.First
	e.Results = nil
	h0, per0 := wholeState(e, post.Ctx)
	same := func(rep replicaResult) bool {
		return rep.enabled && bytes.Equal(rep.hash, h0) && rep.last == post.Last && bytes.Equal(rep.results, res0)
	}
	var fs []Finding
	for i, rep := range reps {
		if same(rep) {
			continue
		}
		// attribute: which single dimension reproduces the difference, and where it shows
		dim, where := "combined", describeDiff(per0, rep, post.Last)
		if where == "header" && !bytes.Equal(rep.results, res0) {
			where = "results"
		}
		for _, sd := range singleDeviations {
			if !envseam.Controlled && sd.Name != "cold-instance" && sd.Name != "restarted-node" {
				continue
			}
			x := r.runReplica(e, s, op, sd)
			if !same(x) {
				dim, where = sd.Name, describeDiff(per0, x, post.Last)
				if where == "header" {
					where = "results"
					rep.first = x.first
				}
				break
			}
		}
		fs = append(fs, F(fmt.Sprintf("%s/replica-differs/%s/%s/%s", r.Property, dim, where, opKind(op.Name)),
			"transition %s from the same state differs between the baseline and replica %s (attributed to %s): %s%s", op.Name, devs[i].Name, dim, where, resultsNote(where, first0, rep.first)))
		break
	}
	depth := s.Depth
	*s = *post
	s.Depth = depth
	return fs
}

func resultsNote(where, a, b string) string {
	if where != "results" {
		return ""
	}
	cut := func(s string) string {
		if len(s) > 400 {
			return s[:400] + "..."
		}
		return s
	}
	return fmt.Sprintf(" (stores identical; first result of the transition: baseline %q, replica %q)", cut(a), cut(b))
}

func describeDiff(per0 map[string][]byte, rep replicaResult, last0 string) string {
	if !rep.enabled {
		return "operation-not-offered"
	}
	if rep.last != last0 {
		return "result-" + last0 + "-vs-" + rep.last
	}
	var names []string
	for st, h := range per0 {
		if !bytes.Equal(h, rep.stores[st]) {
			names = append(names, st)
		}
	}
	if len(names) == 0 {
		return "header"
	}
	sortStrings(names)
	return "store-" + strings.Join(names, "+")
}

func sortStrings(a []string) {
	for i := 1; i < len(a); i++ {
		for j := i; j > 0 && a[j] < a[j-1]; j-- {
			a[j], a[j-1] = a[j-1], a[j]
		}
	}
}

// Check compares the exported genesis of the same state under every map seed and clock offset (no replay
// needed: export is a pure read), and under a cold instance.
func (r *Replicas) Check(e *Env, s *State) []Finding {
	baselineEnv()
	if r.initFinding != nil {
		return []Finding{*r.initFinding}
	}
	r.Inner.Check(e, s)
	var fs []Finding
	if !envseam.Controlled {
		return fs
	}
	base := map[string][]byte{}
	for _, m := range r.Exports {
		raw, err := exportModule(e, s.Ctx, m)
		if err != nil {
			continue
		}
		base[m] = raw
	}
	for i, sd := range singleDeviations[1:] {
		if !r.All && i%3 != 0 {
			continue // quick tier: every third single deviation (clock +400d, seed 1, seed 4, seed 7)
		}
		setEnv(sd)
		for _, m := range r.Exports {
			raw, err := exportModule(e, s.Ctx, m)
			if err != nil || base[m] == nil {
				continue
			}
			if !bytes.Equal(raw, base[m]) {
				path, a, b := jsonDiff(base[m], raw)
				fs = append(fs, F(fmt.Sprintf("%s/export-differs/%s/%s", r.Property, sd.Name, m),
					"exported genesis of %s from the same state differs under %s (seed %d, clock %s) at %s: %s vs %s", m, sd.Name, sd.Seed, sd.Clock, path, a, b))
			}
		}
		baselineEnv()
		if len(fs) > 0 {
			break
		}
	}
	return fs
}

var _ = hex.EncodeToString
