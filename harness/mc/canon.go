package mc

import (
	"crypto/sha256"
	"encoding/binary"
	"encoding/hex"
	"fmt"
	"sort"

	sdk "github.com/cosmos/cosmos-sdk/types"
)

// KV is one store entry.
type KV struct{ K, V []byte }

// DumpStore returns the ordered key/value dump of one store as seen from ctx.
func DumpStore(ctx sdk.Context, e *Env, store string) []KV {
	st := ctx.MultiStore().GetKVStore(e.StoreKey(store)) // bypass gas metering
	it := st.Iterator(nil, nil)
	defer it.Close()
	var out []KV
	for ; it.Valid(); it.Next() {
		k := append([]byte{}, it.Key()...)
		v := append([]byte{}, it.Value()...)
		out = append(out, KV{k, v})
	}
	return out
}

// StateHash is SHA-256 over the ordered dump of the given stores (store names are sorted and
// length-prefixed so the encoding is injective).
func StateHash(ctx sdk.Context, e *Env, stores []string) []byte {
	h := sha256.New()
	ss := append([]string{}, stores...)
	sort.Strings(ss)
	var lb [8]byte
	w := func(b []byte) {
		binary.BigEndian.PutUint64(lb[:], uint64(len(b)))
		h.Write(lb[:])
		h.Write(b)
	}
	for _, s := range ss {
		w([]byte(s))
		st := ctx.MultiStore().GetKVStore(e.StoreKey(s))
		it := st.Iterator(nil, nil)
		n := 0
		for ; it.Valid(); it.Next() {
			w(it.Key())
			w(it.Value())
			n++
		}
		it.Close()
		binary.BigEndian.PutUint64(lb[:], uint64(n))
		h.Write(lb[:])
	}
	return h.Sum(nil)
}

// Canon is the canonical hash of a search state: declared stores + every header field a handler
// can read + the driver's path-carried model encoding.
func Canon(ctx sdk.Context, e *Env, stores []string, model []byte) [32]byte {
	h := sha256.New()
	h.Write(StateHash(ctx, e, stores))
	hdr := ctx.BlockHeader()
	var b [8]byte
	binary.BigEndian.PutUint64(b[:], uint64(hdr.Height))
	h.Write(b[:])
	binary.BigEndian.PutUint64(b[:], uint64(hdr.Time.UnixNano()))
	h.Write(b[:])
	h.Write(hdr.AppHash)
	binary.BigEndian.PutUint64(b[:], uint64(len(model)))
	h.Write(b[:])
	h.Write(model)
	var out [32]byte
	copy(out[:], h.Sum(nil))
	return out
}

// DiffStores lists the keys whose values differ between two contexts, per store (ordered).
func DiffStores(a, b sdk.Context, e *Env, stores []string) []string {
	var out []string
	for _, s := range stores {
		da, db := DumpStore(a, e, s), DumpStore(b, e, s)
		ma := map[string]string{}
		for _, kv := range da {
			ma[string(kv.K)] = string(kv.V)
		}
		mb := map[string]string{}
		for _, kv := range db {
			mb[string(kv.K)] = string(kv.V)
		}
		keys := map[string]bool{}
		for k := range ma {
			keys[k] = true
		}
		for k := range mb {
			keys[k] = true
		}
		var ks []string
		for k := range keys {
			ks = append(ks, k)
		}
		sort.Strings(ks)
		for _, k := range ks {
			va, oka := ma[k]
			vb, okb := mb[k]
			if oka != okb || va != vb {
				out = append(out, fmt.Sprintf("%s/%s: %s -> %s", s, hex.EncodeToString([]byte(k)), hexOrNil(va, oka), hexOrNil(vb, okb)))
			}
		}
	}
	return out
}

func hexOrNil(v string, ok bool) string {
	if !ok {
		return "<absent>"
	}
	return hex.EncodeToString([]byte(v))
}
