package mc

import (
	"crypto/sha256"
	"fmt"
	"math/big"
	"regexp"
	"runtime/debug"
	"strings"
	"time"

	"cosmossdk.io/core/appmodule"
	errorsmod "cosmossdk.io/errors"
	storetypes "cosmossdk.io/store/types"
	sdk "github.com/cosmos/cosmos-sdk/types"
	"github.com/cosmos/cosmos-sdk/types/module"
	"github.com/cosmos/gogoproto/proto"
)

type bigInt = big.Int

var bigOne = big.NewInt(1)

// Outcome of one delivered transaction.
type Outcome struct {
	OK        bool
	Panic     bool
	Err       error
	Codespace string
	Code      uint32
	PanicText string
	Stack     string
	// Responses are the typed Msg responses, one per message, when OK.
	Responses []proto.Message
	Events    sdk.Events
	// FailedAt is the index of the message that failed (when !OK).
	FailedAt int
	// GasUsed: what the transaction's gas meter counted (store reads/writes of the handlers; part of the result a
	// chain commits to). Not meaningful after a panic.
	GasUsed uint64
}

// Class is "ok", "err" or "panic".
func (o Outcome) Class() string {
	switch {
	case o.OK:
		return "ok"
	case o.Panic:
		return "panic"
	default:
		return "err"
	}
}

func (o Outcome) String() string {
	switch {
	case o.OK:
		return "ok"
	case o.Panic:
		return "panic: " + o.PanicText
	default:
		return fmt.Sprintf("err[%s/%d]: %v", o.Codespace, o.Code, o.Err)
	}
}

type hasValidateBasic interface{ ValidateBasic() error }

// TxBytesFor gives deterministic pseudo transaction bytes; they feed service context ids,
// record tx hashes and random request ids exactly like real tx bytes do.
func TxBytesFor(label string) []byte {
	h := sha256.Sum256([]byte("verif/tx/" + label))
	return h[:]
}

// Deliver executes msgs as one transaction on ctx with on-chain atomicity: ValidateBasic on every
// message that has one, then each message through the app's MsgServiceRouter on a branch; the
// branch is written back to ctx only if every message succeeded. Panics are captured.
// txLabel must be unique per transaction along a history (it determines TxBytes).
func (e *Env) Deliver(ctx sdk.Context, txLabel string, msgs ...sdk.Msg) (out Outcome) {
	return e.DeliverWith(ctx, txLabel, nil, msgs...)
}

// Handler is an alternative message handler (used where the wired keeper cannot reach a code path,
// e.g. the token fee-swap registry); nil means the app's MsgServiceRouter.
type Handler func(ctx sdk.Context, msg sdk.Msg) (proto.Message, error)

func (e *Env) DeliverWith(ctx sdk.Context, txLabel string, h Handler, msgs ...sdk.Msg) (out Outcome) {
	return e.DeliverBytes(ctx, TxBytesFor(txLabel), h, msgs...)
}

// DeliverBytes is DeliverWith with explicit transaction bytes; nil models a message executed outside a
// transaction (e.g. by a passed governance proposal in an end-blocker), where ctx.TxBytes() is empty.
func (e *Env) DeliverBytes(ctx sdk.Context, txb []byte, h Handler, msgs ...sdk.Msg) (out Outcome) {
	if e.Results != nil {
		defer func() { e.Results.tx(out) }()
	}
	if e.Trace != nil {
		custom := h != nil || txb == nil
		var signed []byte
		if e.Trace.Sign && !custom {
			if b, ok := e.Trace.sign(e, ctx, msgs); ok {
				txb, signed = b, b
			} else {
				custom = true
			}
		}
		label := fmt.Sprintf("%x", sha256.Sum256(txb))[:16]
		defer func() {
			e.Trace.Steps = append(e.Trace.Steps, TraceStep{Kind: "tx", Label: label, Msgs: msgs, OK: out.OK, Custom: custom, Bytes: signed})
		}()
	}
	txCtx := ctx.WithTxBytes(txb).
		WithGasMeter(storetypes.NewInfiniteGasMeter()).
		WithEventManager(sdk.NewEventManager())
	cctx, write := txCtx.CacheContext()
	idx := 0
	defer func() {
		if r := recover(); r != nil {
			out = Outcome{Panic: true, PanicText: fmt.Sprint(r), Stack: string(debug.Stack()), FailedAt: idx}
			return
		}
		out.GasUsed = txCtx.GasMeter().GasConsumed()
	}()
	for i, m := range msgs {
		idx = i
		if vb, ok := m.(hasValidateBasic); ok {
			if err := vb.ValidateBasic(); err != nil {
				return errOutcome(err, i)
			}
		}
	}
	var resps []proto.Message
	for i, m := range msgs {
		idx = i
		var resp proto.Message
		if h != nil {
			r, err := h(cctx, m)
			if err != nil {
				return errOutcome(err, i)
			}
			resp = r
		} else {
			handler := e.App.MsgServiceRouter().Handler(m)
			if handler == nil {
				return errOutcome(fmt.Errorf("no handler for %s", sdk.MsgTypeURL(m)), i)
			}
			res, err := handler(cctx, m)
			if err != nil {
				return errOutcome(err, i)
			}
			if len(res.MsgResponses) > 0 {
				var pm proto.Message
				if err := e.Cdc.InterfaceRegistry().UnpackAny(res.MsgResponses[0], &pm); err == nil {
					resp = pm
				} else if v, ok := res.MsgResponses[0].GetCachedValue().(proto.Message); ok {
					resp = v
				}
			}
			cctx.EventManager().EmitEvents(res.GetEvents())
		}
		resps = append(resps, resp)
	}
	evs := cctx.EventManager().Events()
	write()
	return Outcome{OK: true, Responses: resps, Events: evs}
}

func errOutcome(err error, i int) Outcome {
	cs, code, _ := errorsmod.ABCIInfo(err, false)
	return Outcome{Err: err, Codespace: cs, Code: code, FailedAt: i}
}

// BlockOutcome records what the begin/end blockers did during one NextBlock.
type BlockOutcome struct {
	Panics []string // "<module>/<phase>: text"
	Events sdk.Events
}

// NextBlock runs end-block at the current height, then moves to height+1 / time+dt and runs
// begin-block, using the real module objects in the app's configured order, restricted to
// e.BlockModules. Each call is wrapped in recover(). It mutates the stores of ctx (callers pass
// a branch) and returns the context of the new block.
func (e *Env) NextBlock(ctx sdk.Context, dt time.Duration) (sdk.Context, BlockOutcome) {
	bo := e.EndBlockOnly(ctx)
	if f := e.BetweenBlocks; f != nil {
		// one-shot hook (see Restarting): something that happens to a chain between two blocks
		e.BetweenBlocks = nil
		ctx = f(ctx)
	}
	nctx, bo2 := e.BeginNext(ctx, dt)
	bo.Panics = append(bo.Panics, bo2.Panics...)
	bo.Events = append(bo.Events, bo2.Events...)
	if e.Results != nil {
		e.Results.block(bo)
	}
	return nctx, bo
}

// ResultLog is a running digest of what transactions and blocks *returned* (result class, error code, typed
// responses, events with their attributes) - the part of "the same history gives the same results" that is not
// in any store. The determinism check compares it between replicas.
type ResultLog struct {
	h     [32]byte
	N     int
	First string // first recorded item in clear (for messages)
}

func (r *ResultLog) add(s string) {
	if r.N == 0 {
		r.First = s
	}
	r.N++
	r.h = sha256.Sum256(append(r.h[:], []byte(s)...))
}

func (r *ResultLog) Sum() []byte { return append([]byte{}, r.h[:]...) }

func eventsString(evs sdk.Events) string {
	var b strings.Builder
	for _, ev := range evs {
		b.WriteString(ev.Type)
		b.WriteByte('{')
		for _, a := range ev.Attributes {
			b.WriteString(a.Key + "=" + a.Value + ";")
		}
		b.WriteByte('}')
	}
	return b.String()
}

func (r *ResultLog) tx(o Outcome) {
	var b strings.Builder
	fmt.Fprintf(&b, "tx|%s|%s|%d|gas=%d|", o.Class(), o.Codespace, o.Code, o.GasUsed)
	if o.OK {
		for _, resp := range o.Responses {
			if resp != nil {
				if bz, err := proto.Marshal(resp); err == nil {
					fmt.Fprintf(&b, "%x,", bz)
				}
			}
		}
		b.WriteString("|" + eventsString(o.Events))
	}
	r.add(b.String())
}

func (r *ResultLog) block(bo BlockOutcome) {
	r.add(fmt.Sprintf("block|%d|%s", len(bo.Panics), eventsString(bo.Events)))
}

// BeginNext moves ctx to height+1 / time+dt (app hash = hash of the irismod stores as they are now, i.e. at
// the end of the previous block) and runs the begin blockers. It is the second half of NextBlock.
func (e *Env) BeginNext(ctx sdk.Context, dt time.Duration) (sdk.Context, BlockOutcome) {
	var bo BlockOutcome
	em := sdk.NewEventManager()
	ctx = ctx.WithEventManager(em).WithTxBytes(nil)
	h := ctx.BlockHeader()
	prevHash := StateHash(ctx, e, allIrismodStores)
	h.Height++
	h.Time = h.Time.Add(dt)
	h.AppHash = prevHash
	ctx = ctx.WithBlockHeader(h).WithHeaderHash(fixedHash("hdr", h.Height))
	e.runBlockers(ctx, true, &bo)
	bo.Events = em.Events()
	return ctx.WithEventManager(sdk.NewEventManager()), bo
}

// BeginAt runs the begin blockers on ctx as it is (used after a genesis import, whose context already
// carries the header of the first block).
func (e *Env) BeginAt(ctx sdk.Context) BlockOutcome {
	var bo BlockOutcome
	em := sdk.NewEventManager()
	e.runBlockers(ctx.WithEventManager(em).WithTxBytes(nil), true, &bo)
	bo.Events = em.Events()
	return bo
}

// EndBlockOnly runs the end blockers at the current height (used to observe a block boundary
// without starting the next block).
func (e *Env) EndBlockOnly(ctx sdk.Context) BlockOutcome {
	var bo BlockOutcome
	em := sdk.NewEventManager()
	e.runBlockers(ctx.WithEventManager(em).WithTxBytes(nil), false, &bo)
	bo.Events = em.Events()
	if e.Trace != nil {
		d, b := e.Trace.snapshot(e, ctx)
		e.Trace.Steps = append(e.Trace.Steps, TraceStep{Kind: "block", Height: ctx.BlockHeight(), Time: ctx.BlockTime(), EndDump: d, Bank: b})
	}
	return bo
}

var allIrismodStores = []string{"coinswap", "farm", "htlc", "mt", "nft", "service", "oracle", "random", "record", "token", "bank"}

func (e *Env) runBlockers(ctx sdk.Context, begin bool, bo *BlockOutcome) {
	mm := e.App.ModuleManager
	order := mm.OrderEndBlockers
	phase := "end"
	if begin {
		order = mm.OrderBeginBlockers
		phase = "begin"
	}
	want := map[string]bool{}
	for _, m := range e.BlockModules {
		want[m] = true
	}
	for _, name := range order {
		if !want[name] {
			continue
		}
		mod := mm.Modules[name]
		func() {
			defer func() {
				if r := recover(); r != nil {
					bo.Panics = append(bo.Panics, fmt.Sprintf("%s/%s: %v", name, phase, r))
				}
			}()
			var err error
			if begin {
				if m, ok := mod.(appmodule.HasBeginBlocker); ok {
					err = m.BeginBlock(ctx)
				}
			} else {
				if m, ok := mod.(appmodule.HasEndBlocker); ok {
					err = m.EndBlock(ctx)
				} else if m, ok := mod.(module.HasABCIEndBlock); ok {
					_, err = m.EndBlock(ctx)
				}
			}
			if err != nil {
				// on chain an error from a begin/end blocker halts the node just like a panic
				bo.Panics = append(bo.Panics, fmt.Sprintf("%s/%s: error: %v", name, phase, err))
			}
		}()
	}
}

var numRe = regexp.MustCompile(`[0-9]+`)
var hexRe = regexp.MustCompile(`\b[0-9a-fA-F]{16,}\b`)
var bechRe = regexp.MustCompile(`\bcosmos1[0-9a-z]{20,}\b`)

// Normalize strips numbers, hashes and addresses from a message so it can be part of a signature.
func Normalize(s string) string {
	s = bechRe.ReplaceAllString(s, "<addr>")
	s = hexRe.ReplaceAllString(s, "<hex>")
	s = numRe.ReplaceAllString(s, "N")
	if len(s) > 160 {
		s = s[:160]
	}
	return strings.TrimSpace(s)
}
