package mc

import (
	"bytes"
	"fmt"
	"math/rand"
	"strings"
	"time"

	abci "github.com/cometbft/cometbft/abci/types"
	cmtproto "github.com/cometbft/cometbft/proto/tendermint/types"
	cryptotypes "github.com/cosmos/cosmos-sdk/crypto/types"
	simtestutil "github.com/cosmos/cosmos-sdk/testutil/sims"
	sdk "github.com/cosmos/cosmos-sdk/types"
)

// TraceStep is one recorded action of the seam (used by the conformance pass).
type TraceStep struct {
	Kind    string // "tx" | "block"
	Label   string
	Msgs    []sdk.Msg
	OK      bool
	Custom  bool   // executed by a custom handler or without tx bytes: not expressible as a signed transaction
	Bytes   []byte // the signed transaction the seam itself executed under (tracer in signing mode)
	Dt      time.Duration
	Height  int64                // block steps: the height whose end-block ran
	Time    time.Time            // block steps: block time of that height
	EndDump map[string][]KV      // block steps: declared stores after end-block of Height (= what Commit persists)
	Bank    map[string]sdk.Coins // block steps: balances of the harness accounts
}

// Tracer collects the seam's actions when attached to an Env.
type Tracer struct {
	Steps  []TraceStep
	Stores []string
	// Sign makes the seam execute every router-handled transaction under the bytes of the real signed
	// transaction (so that everything the modules derive from ctx.TxBytes() - record tx hashes, service
	// context ids - is what the real pipeline will produce); the tracer mirrors the chain's account sequences.
	Sign bool
	seq  map[string]uint64
	rnd  *rand.Rand
}

// sign builds the signed transaction for msgs, or reports that they are not expressible as one.
func (t *Tracer) sign(e *Env, ctx sdk.Context, msgs []sdk.Msg) ([]byte, bool) {
	if t.seq == nil {
		t.seq = map[string]uint64{}
		t.rnd = rand.New(rand.NewSource(1))
	}
	var signers []string
	seen := map[string]bool{}
	for _, m := range msgs {
		ss, _, err := e.Cdc.GetMsgV1Signers(m)
		if err != nil {
			return nil, false
		}
		for _, s := range ss {
			n := NameOf(s)
			if n == "" {
				return nil, false
			}
			if !seen[n] {
				seen[n] = true
				signers = append(signers, n)
			}
		}
	}
	if len(signers) == 0 {
		return nil, false
	}
	var privs []cryptotypes.PrivKey
	var nums, seqs []uint64
	for _, n := range signers {
		acc := e.App.AccountKeeper.GetAccount(ctx, Addr(n))
		if acc == nil {
			return nil, false
		}
		privs = append(privs, PrivKey(n))
		nums = append(nums, acc.GetAccountNumber())
		seqs = append(seqs, t.seq[n])
	}
	tx, err := simtestutil.GenSignedMockTx(t.rnd, e.App.TxConfig(), msgs, sdk.NewCoins(), 50_000_000, ChainID, nums, seqs, privs...)
	if err != nil {
		return nil, false
	}
	bz, err := e.App.TxConfig().TxEncoder()(tx)
	if err != nil {
		return nil, false
	}
	// the chain advances the sequences of a transaction's signers iff it gets past the ante handler, which is
	// the case for every well-signed zero-fee transaction whose messages pass ValidateBasic
	for _, m := range msgs {
		if vb, ok := m.(hasValidateBasic); ok && vb.ValidateBasic() != nil {
			return bz, true
		}
	}
	for _, n := range signers {
		t.seq[n]++
	}
	return bz, true
}

func (t *Tracer) snapshot(e *Env, ctx sdk.Context) (map[string][]KV, map[string]sdk.Coins) {
	d := map[string][]KV{}
	for _, s := range t.Stores {
		d[s] = DumpStore(ctx, e, s)
	}
	b := map[string]sdk.Coins{}
	namesMu.Lock()
	names := make(map[string]sdk.AccAddress, len(addrByName))
	for n, a := range addrByName {
		names[n] = a
	}
	namesMu.Unlock()
	for n, a := range names {
		b[n] = e.AllBal(ctx, a)
	}
	return d, b
}

// ConformanceResult of replaying seam traces through the full transaction pipeline.
type ConformanceResult struct {
	Validated   int      // paths whose every block agreed
	Skipped     int      // paths not expressible as signed transactions (authority messages, custom handlers)
	Txs         int      // signed transactions executed through FinalizeBlock
	Blocks      int      // blocks finalised and committed
	Mismatch    string   // first disagreement ("" if none)
	SamplePaths []string // a few of the validated paths
}

// Conformance binds the seam to the real transaction path: every given path is executed on the seam while
// recording the messages of every transaction and the store contents at every block end; the same messages
// are then wrapped in signed transactions (fixed secp256k1 keys, zero fees) and run through
// FinalizeBlock + Commit on a second application; after every block the committed contents of the declared
// stores and the harness accounts' balances (except the bond denom, which x/mint inflates in the full app)
// must equal the seam's, and every transaction's success flag must agree. A disagreement means the SEAM
// misrepresents the implementation: it is reported as an internal error, never as a property violation.
func Conformance(mk func() (*Env, Driver), paths [][]string, stores []string, skipDenoms map[string]bool, sign bool) ConformanceResult {
	var res ConformanceResult
	for _, path := range paths {
		// a restart from the exported genesis is no transaction: the second application cannot be told to do it
		inexpressible := false
		for _, op := range path {
			if strings.HasPrefix(op, "restart-") {
				inexpressible = true
			}
		}
		if inexpressible {
			res.Skipped++
			continue
		}
		eA, dA := mk()
		tr := &Tracer{Stores: stores, Sign: sign}
		eA.Trace = tr
		sA, _, err := ReplayPath(eA, dA, path)
		if err != nil {
			if sign {
				// op names that embed ids derived from the transaction bytes do not exist under the real bytes
				res.Skipped++
				continue
			}
			res.Mismatch = "seam replay failed: " + err.Error()
			return res
		}
		// close the last (partial) block on a throw-away branch so that it has an end-of-block snapshot
		fin := Branch(sA.Ctx)
		eA.EndBlockOnly(fin)
		eA.Trace = nil

		eB, _ := mk()
		ok, why, txs, blocks := replayReal(eB, tr.Steps, stores, skipDenoms)
		res.Txs += txs
		res.Blocks += blocks
		switch {
		case why == "unsignable":
			res.Skipped++
		case !ok:
			res.Mismatch = fmt.Sprintf("path %v: %s", path, why)
			return res
		default:
			res.Validated++
			if len(res.SamplePaths) < 3 {
				res.SamplePaths = append(res.SamplePaths, fmt.Sprint(path))
			}
		}
	}
	return res
}

func replayReal(e *Env, steps []TraceStep, stores []string, skipDenoms map[string]bool) (bool, string, int, int) {
	app := e.App
	r := rand.New(rand.NewSource(1))
	var pending [][]byte
	var pendingOK []bool
	var pendingLabel []string
	seq := map[string]uint64{}
	nTx, nBlocks := 0, 0
	for _, st := range steps {
		if st.Kind == "tx" {
			if st.Custom {
				return false, "unsignable", nTx, nBlocks
			}
			if st.Bytes != nil {
				pending = append(pending, st.Bytes)
				pendingOK = append(pendingOK, st.OK)
				pendingLabel = append(pendingLabel, st.Label)
				continue
			}
			// signers in order of first appearance
			var signers []string
			seen := map[string]bool{}
			for _, m := range st.Msgs {
				ss, _, err := e.Cdc.GetMsgV1Signers(m)
				if err != nil {
					return false, "unsignable", nTx, nBlocks
				}
				for _, s := range ss {
					n := NameOf(s)
					if n == "" {
						return false, "unsignable", nTx, nBlocks // e.g. the gov authority
					}
					if !seen[n] {
						seen[n] = true
						signers = append(signers, n)
					}
				}
			}
			ctx := readCtx(e)
			var privs []cryptotypes.PrivKey
			var nums, seqs []uint64
			for _, n := range signers {
				acc := app.AccountKeeper.GetAccount(ctx, Addr(n))
				if acc == nil {
					return false, "unsignable", nTx, nBlocks
				}
				privs = append(privs, PrivKey(n))
				nums = append(nums, acc.GetAccountNumber())
				sq, ok := seq[n]
				if !ok {
					sq = acc.GetSequence()
				}
				seqs = append(seqs, sq)
			}
			// the chain advances the signers' sequences iff the transaction gets past the ante handler, i.e. iff its
			// messages pass ValidateBasic (a transaction that fails there is rejected before the ante handler runs)
			vbOK := true
			for _, m := range st.Msgs {
				if vb, ok := m.(hasValidateBasic); ok && vb.ValidateBasic() != nil {
					vbOK = false
				}
			}
			for i, n := range signers {
				if vbOK {
					seq[n] = seqs[i] + 1
				} else {
					seq[n] = seqs[i]
				}
			}
			tx, err := simtestutil.GenSignedMockTx(r, app.TxConfig(), st.Msgs, sdk.NewCoins(), 50_000_000, ChainID, nums, seqs, privs...)
			if err != nil {
				return false, "signing failed: " + err.Error(), nTx, nBlocks
			}
			bz, err := app.TxConfig().TxEncoder()(tx)
			if err != nil {
				return false, "encoding failed: " + err.Error(), nTx, nBlocks
			}
			pending = append(pending, bz)
			pendingOK = append(pendingOK, st.OK)
			pendingLabel = append(pendingLabel, st.Label)
			continue
		}
		// block step: finalise the block with the collected transactions and compare
		resp, err := app.FinalizeBlock(&abci.RequestFinalizeBlock{Height: st.Height, Time: st.Time, Txs: pending})
		if err != nil {
			return false, fmt.Sprintf("FinalizeBlock(%d) failed: %v", st.Height, err), nTx, nBlocks
		}
		if _, err := app.Commit(); err != nil {
			return false, fmt.Sprintf("Commit(%d) failed: %v", st.Height, err), nTx, nBlocks
		}
		nBlocks++
		for i, tr := range resp.TxResults {
			nTx++
			if (tr.Code == 0) != pendingOK[i] {
				return false, fmt.Sprintf("block %d tx %q: seam ok=%v, real tx code %d (%s)", st.Height, pendingLabel[i], pendingOK[i], tr.Code, tr.Log), nTx, nBlocks
			}
		}
		// sequences advance on chain even when a message fails (the ante handler ran): re-read next time
		seq = map[string]uint64{}
		pending, pendingOK, pendingLabel = nil, nil, nil
		ctx := app.NewUncachedContext(false, cmtproto.Header{Height: st.Height, Time: st.Time})
		for _, s := range stores {
			got := DumpStore(ctx, e, s)
			want := st.EndDump[s]
			if len(got) != len(want) {
				return false, fmt.Sprintf("after block %d store %s: %d keys committed by the real pipeline, %d in the seam", st.Height, s, len(got), len(want)), nTx, nBlocks
			}
			for i := range got {
				if !bytes.Equal(got[i].K, want[i].K) || !bytes.Equal(got[i].V, want[i].V) {
					return false, fmt.Sprintf("after block %d store %s differs at key %x", st.Height, s, got[i].K), nTx, nBlocks
				}
			}
		}
		for n, want := range st.Bank {
			got := e.AllBal(ctx, Addr(n))
			for _, c := range got {
				if !skipDenoms[c.Denom] && !want.AmountOf(c.Denom).Equal(c.Amount) {
					return false, fmt.Sprintf("after block %d balance of %s in %s: real %s, seam %s", st.Height, n, c.Denom, c.Amount, want.AmountOf(c.Denom)), nTx, nBlocks
				}
			}
			for _, c := range want {
				if !skipDenoms[c.Denom] && !got.AmountOf(c.Denom).Equal(c.Amount) {
					return false, fmt.Sprintf("after block %d balance of %s in %s: real %s, seam %s", st.Height, n, c.Denom, got.AmountOf(c.Denom), c.Amount), nTx, nBlocks
				}
			}
		}
	}
	return true, "", nTx, nBlocks
}

// readCtx returns a context on the latest state: the finalize-block state before the first commit (InitChain
// leaves the genesis state there), the committed state afterwards.
func readCtx(e *Env) (ctx sdk.Context) {
	defer func() {
		if recover() != nil {
			ctx = e.App.NewUncachedContext(false, cmtproto.Header{})
		}
	}()
	return e.App.BaseApp.NewContextLegacy(false, cmtproto.Header{})
}
