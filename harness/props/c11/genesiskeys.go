package c11

import (
	"bytes"
	"fmt"
	"strings"
	"time"

	sdk "github.com/cosmos/cosmos-sdk/types"

	"mods.irisnet.org/modules/service"
	svctypes "mods.irisnet.org/modules/service/types"

	"verif/harness/envseam"
	"verif/harness/mc"
	svcdrv "verif/harness/props/service"
)

// genesisKeysPart: the service genesis carries two Go maps (withdraw addresses by owner, request contexts by
// id). Their keys are text - bech32 and hex - so one store key has several spellings; a valid genesis may
// contain two of them with different values. Which value the imported chain ends up with must not depend on
// the order in which a Go map happens to be walked: the same genesis is imported under every map seed and the
// resulting store and re-exported genesis must be identical. (Runs in its own process: the map seed seam is
// process-global.)
func genesisKeysPart() mc.Part {
	return mc.Part{Name: "service-genesis-key-spellings", Run: func(tier string, known []mc.KnownFinding, dl time.Time) mc.PartReport {
		start := time.Now()
		rep := mc.PartReport{Exhaustive: true, Rule: "one import of the crafted genesis under one map seed",
			Bounds: map[string]interface{}{"map_seeds": "0..7", "maps": "withdraw_addresses (lower / upper case bech32), request_contexts (upper / lower case hex)"}}
		if !envseam.Controlled {
			rep.Bounds["skipped"] = "binary built without the environment overlay"
			return rep
		}
		mk := svcdrv.New(svcdrv.Variant{Name: "fees", Mode: "C12", Tmpl: []string{"one", "rep"}, Withdraw: true})
		e, d := mk()
		// a history that leaves two request contexts and a withdraw address, then the module's own
		// prepare-for-zero-height step (only paused contexts with completed batches are valid genesis content)
		s, _, err := mc.ReplayPath(e, d, []string{"call(one)", "call(rep)", "block", "withdraw(O1,P1)"})
		if err != nil {
			s, _, err = mc.ReplayPath(e, d, []string{"call(one)", "call(rep)", "block"})
		}
		if err != nil {
			rep.Internal = "fixture path: " + err.Error()
			return rep
		}
		ctx := mc.Branch(s.Ctx)
		service.PrepForZeroHeightGenesis(ctx, e.Service)
		gs := service.ExportGenesis(ctx, e.Service)
		if len(gs.RequestContexts) < 2 {
			rep.Internal = fmt.Sprintf("fixture left %d request contexts", len(gs.RequestContexts))
			return rep
		}
		// second spellings with different values
		for id, rc := range gs.RequestContexts {
			cp := *rc
			cp.Input = `{"header":{},"body":{"spelling":"lower"}}`
			gs.RequestContexts[strings.ToLower(id)] = &cp
		}
		gs.WithdrawAddresses[mc.Addr("O1").String()] = mc.Addr("W").String()
		gs.WithdrawAddresses[strings.ToUpper(mc.Addr("O1").String())] = mc.Addr("X").String()
		if err := svctypes.ValidateGenesis(*gs); err != nil {
			rep.Internal = "crafted genesis rejected by the module's validation: " + err.Error()
			return rep
		}
		var first []byte
		firstSeed := uint64(0)
		for seed := uint64(0); seed < 8; seed++ {
			envseam.SetMapSeed(true, seed)
			ictx := mc.Branch(s.Ctx)
			st := ictx.MultiStore().GetKVStore(e.StoreKey("service"))
			var keys [][]byte
			it := st.Iterator(nil, nil)
			for ; it.Valid(); it.Next() {
				keys = append(keys, append([]byte{}, it.Key()...))
			}
			it.Close()
			for _, k := range keys {
				st.Delete(k)
			}
			var perr interface{}
			func() {
				defer func() { perr = recover() }()
				service.InitGenesis(ictx, e.Service, *gs)
			}()
			envseam.SetMapSeed(true, 0)
			rep.Evaluations++
			if perr != nil {
				rep.Internal = fmt.Sprintf("InitGenesis panicked on the crafted genesis: %v", perr)
				return rep
			}
			h := mc.StateHash(ictx, e, []string{"service"})
			out := append(append([]byte{}, h...), e.Cdc.MustMarshalJSON(service.ExportGenesis(ictx, e.Service))...)
			if first == nil {
				first, firstSeed = out, seed
				continue
			}
			if !bytes.Equal(out, first) {
				v := mc.Violation{Finding: mc.F("C11/genesis-import-depends-on-map-order/service",
					"importing one and the same valid service genesis (two spellings of the same request-context id / owner address with different values) leaves a different store and re-exported genesis under map seed %d than under map seed %d", seed, firstSeed),
					Path: []string{"<genesis-import>"}, PreConfirmed: true}
				if k := mc.MatchKnown(known, v.Sig); k != nil {
					rep.KnownSeen = map[string]mc.Violation{v.Sig: v}
				} else {
					rep.Violations = append(rep.Violations, v)
				}
				break
			}
		}
		rep.Nontrivial = rep.Evaluations
		rep.WallS = time.Since(start).Seconds()
		return rep
	}, Replay: func(path []string) ([]mc.Finding, error) {
		r := genesisKeysPart().Run(mc.Tier(), nil, time.Now().Add(time.Minute))
		var fs []mc.Finding
		for _, v := range r.Violations {
			fs = append(fs, v.Finding)
		}
		return fs, nil
	}}
}

var _ sdk.Msg
