package c12

import (
	"encoding/hex"
	"fmt"
	"strings"
	"time"

	sdkmath "cosmossdk.io/math"
	"github.com/cometbft/cometbft/crypto/tmhash"
	sdk "github.com/cosmos/cosmos-sdk/types"
	"github.com/cosmos/cosmos-sdk/types/query"

	cstypes "mods.irisnet.org/modules/coinswap/types"
	farmtypes "mods.irisnet.org/modules/farm/types"
	htlctypes "mods.irisnet.org/modules/htlc/types"
	mttypes "mods.irisnet.org/modules/mt/types"
	nfttypes "mods.irisnet.org/modules/nft/types"
	recordtypes "mods.irisnet.org/modules/record/types"
	tokenv1 "mods.irisnet.org/modules/token/types/v1"

	"verif/harness/mc"
)

// Bulk states: "the genesis exported from any reachable chain state" includes states holding more objects than
// fit a page of the paginated store walks the modules use (the SDK's default page is 100 entries). One driver per
// module creates bulkN objects through ordinary messages; the round trip is evaluated on that state and after one
// block, and every object is then asked for *by its own id* on both sides (a listing query would be cut at the
// same page on both sides and agree).
const bulkN = 130

type bulkModel struct{ ids []string }

func (m *bulkModel) Clone() mc.Model { return &bulkModel{ids: m.ids} }
func (m *bulkModel) Canon() []byte   { return []byte(fmt.Sprint(len(m.ids))) }

type bulkDriver struct {
	module string
	stores []string
	init   func(e *mc.Env, s *mc.State) []string
}

func (d *bulkDriver) ID() string       { return "C12/bulk-" + d.module }
func (d *bulkDriver) Stores() []string { return d.stores }
func (d *bulkDriver) Init(e *mc.Env) *mc.State {
	s := &mc.State{Ctx: mc.Branch(e.Root)}
	s.Model = &bulkModel{ids: d.init(e, s)}
	return s
}
func (d *bulkDriver) Enabled(e *mc.Env, s *mc.State) []mc.Op { return []mc.Op{{Name: "block"}} }
func (d *bulkDriver) Apply(e *mc.Env, s *mc.State, op mc.Op) []mc.Finding {
	s.NextBlock(e, 5*time.Second)
	return nil
}
func (d *bulkDriver) Check(e *mc.Env, s *mc.State) []mc.Finding {
	s.Nontrivial = true
	return nil
}

func bulkMust(out mc.Outcome, what string) {
	if !out.OK {
		panic("bulk fixture: " + what + ": " + out.String())
	}
}

func evAttr(out mc.Outcome, typ, key string) string {
	for _, ev := range out.Events {
		if ev.Type != typ && !strings.HasSuffix(ev.Type, typ) {
			continue
		}
		for _, a := range ev.Attributes {
			if a.Key == key {
				return strings.Trim(a.Value, `"`)
			}
		}
	}
	return ""
}

var bigPage = &query.PageRequest{Limit: 10 * bulkN, CountTotal: true}

func bulkSpecs() []spec {
	rich := sdk.NewCoins(mc.CI("stake", mc.Big(100)), mc.CI("btc", mc.Big(100)), mc.CI("eth", mc.Big(100)))
	env := func(extra ...sdk.Coin) *mc.Env {
		return mc.NewEnv(mc.EnvOptions{Balances: map[string]sdk.Coins{"A": rich.Add(extra...), "B": rich}})
	}
	idsOf := func(e *mc.Env, ctx sdk.Context) []string { return nil }
	_ = idsOf
	var out []spec
	add := func(module string, modules []string, mkEnv func() *mc.Env, init func(e *mc.Env, s *mc.State) []string, q func(e *mc.Env, ctx sdk.Context, ids []string) (map[string]string, error)) {
		var ids []string
		out = append(out, spec{name: "bulk-" + module, q: 1, t: 1, txSeq: module == "record",
			mk: func() (*mc.Env, mc.Driver) {
				e := mkEnv()
				return e, &bulkDriver{module: module, stores: append([]string{"bank"}, modules...), init: func(e *mc.Env, s *mc.State) []string {
					ids = init(e, s)
					return ids
				}}
			},
			rt: mc.RoundTripSpec{Modules: modules, Query: q, IDs: func(e *mc.Env, ctx sdk.Context) []string { return ids }}})
	}

	// ---- token: bulkN tokens issued by A (issue fee lowered to 1 by governance first)
	add("token", []string{"token"}, func() *mc.Env { return env() }, func(e *mc.Env, s *mc.State) []string {
		p := e.Token.GetParams(s.Ctx)
		p.IssueTokenBaseFee = sdk.NewInt64Coin(p.IssueTokenBaseFee.Denom, 1)
		bulkMust(s.Deliver(e, "bulk-params", &tokenv1.MsgUpdateParams{Authority: auth(), Params: p}), "token params")
		var ids []string
		for i := 0; i < bulkN; i++ {
			sym, unit := fmt.Sprintf("tk%03d", i), fmt.Sprintf("utk%03d", i)
			bulkMust(s.Deliver(e, "bulk-issue-"+sym, &tokenv1.MsgIssueToken{Symbol: sym, Name: "T" + sym, MinUnit: unit, Scale: 6, InitialSupply: 1, MaxSupply: 10, Mintable: true, Owner: mc.Addr("A").String()}), "issue "+sym)
			ids = append(ids, unit)
		}
		return ids
	}, func(e *mc.Env, ctx sdk.Context, ids []string) (map[string]string, error) {
		x := &q{e, map[string]string{}}
		for _, id := range ids {
			r, err := e.Token.Token(ctx, &tokenv1.QueryTokenRequest{Denom: id})
			x.put("token.by-min-unit("+id+")", r, err)
		}
		r, err := e.Token.Tokens(ctx, &tokenv1.QueryTokensRequest{Pagination: bigPage})
		x.put("token.tokens(all)", r, err)
		return x.out, nil
	})

	// ---- nft: one class with bulkN tokens held by A and B
	add("nft", []string{"nft"}, func() *mc.Env { return env() }, func(e *mc.Env, s *mc.State) []string {
		bulkMust(s.Deliver(e, "bulk-class", &nfttypes.MsgIssueDenom{Id: "bulkclass", Name: "Bulk", Sender: mc.Addr("A").String(), Symbol: "blk"}), "nft class")
		var ids []string
		for i := 0; i < bulkN; i++ {
			id := fmt.Sprintf("nft%03d", i)
			to := []string{"A", "B"}[i%2]
			bulkMust(s.Deliver(e, "bulk-mint-"+id, &nfttypes.MsgMintNFT{Id: id, DenomId: "bulkclass", Name: "n" + id, URI: "u", Data: `{"k":1}`, Sender: mc.Addr("A").String(), Recipient: mc.Addr(to).String()}), "mint "+id)
			ids = append(ids, id)
		}
		return ids
	}, func(e *mc.Env, ctx sdk.Context, ids []string) (map[string]string, error) {
		x := &q{e, map[string]string{}}
		for _, id := range ids {
			r, err := e.NFT.NFT(ctx, &nfttypes.QueryNFTRequest{DenomId: "bulkclass", TokenId: id})
			x.put("nft.token("+id+")", r, err)
		}
		sup, err := e.NFT.Supply(ctx, &nfttypes.QuerySupplyRequest{DenomId: "bulkclass"})
		x.put("nft.supply", sup, err)
		c, err := e.NFT.Collection(ctx, &nfttypes.QueryCollectionRequest{DenomId: "bulkclass", Pagination: bigPage})
		x.put("nft.collection(all)", c, err)
		return x.out, nil
	})

	// ---- mt: one class with bulkN multi-tokens
	add("mt", []string{"mt"}, func() *mc.Env { return env() }, func(e *mc.Env, s *mc.State) []string {
		o := s.Deliver(e, "bulk-class", &mttypes.MsgIssueDenom{Name: "bulk", Data: []byte("d"), Sender: mc.Addr("A").String()})
		bulkMust(o, "mt class")
		class := evAttr(o, "issue_denom", "denom_id")
		if class == "" {
			panic("bulk fixture: no mt class id in the events")
		}
		ids := []string{class}
		for i := 0; i < bulkN; i++ {
			o := s.Deliver(e, fmt.Sprintf("bulk-mint-%03d", i), &mttypes.MsgMintMT{DenomId: class, Amount: uint64(i + 1), Data: []byte("m"), Sender: mc.Addr("A").String(), Recipient: mc.Addr([]string{"A", "B"}[i%2]).String()})
			bulkMust(o, "mint mt")
			id := evAttr(o, "mint_mt", "mt_id")
			if id == "" {
				panic("bulk fixture: no mt id in the events")
			}
			ids = append(ids, id)
		}
		return ids
	}, func(e *mc.Env, ctx sdk.Context, ids []string) (map[string]string, error) {
		x := &q{e, map[string]string{}}
		if len(ids) == 0 {
			return x.out, nil
		}
		class := ids[0]
		for _, id := range ids[1:] {
			r, err := e.MT.MT(ctx, &mttypes.QueryMTRequest{DenomId: class, MtId: id})
			x.put("mt.token("+id+")", r, err)
			sr, err := e.MT.MTSupply(ctx, &mttypes.QueryMTSupplyRequest{DenomId: class, MtId: id})
			x.put("mt.supply("+id+")", sr, err)
		}
		for _, a := range []string{"A", "B"} {
			b, err := e.MT.Balances(ctx, &mttypes.QueryBalancesRequest{Owner: mc.Addr(a).String(), DenomId: class, Pagination: bigPage})
			x.put("mt.balances("+a+")", b, err)
		}
		return x.out, nil
	})

	// ---- htlc: bulkN open plain contracts
	add("htlc", []string{"htlc"}, func() *mc.Env { return env() }, func(e *mc.Env, s *mc.State) []string {
		var ids []string
		for i := 0; i < bulkN; i++ {
			secret := tmhash.Sum([]byte(fmt.Sprintf("bulk-secret-%d", i)))
			hl := tmhash.Sum(secret)
			o := s.Deliver(e, fmt.Sprintf("bulk-htlc-%03d", i), &htlctypes.MsgCreateHTLC{Sender: mc.Addr("A").String(), To: mc.Addr("B").String(),
				ReceiverOnOtherChain: "r", SenderOnOtherChain: "s", Amount: sdk.NewCoins(mc.C("btc", int64(i+1))), HashLock: hex.EncodeToString(hl), TimeLock: uint64(50 + i%10)})
			bulkMust(o, "create htlc")
			id := evAttr(o, htlctypes.EventTypeCreateHTLC, htlctypes.AttributeKeyID)
			if id == "" {
				panic("bulk fixture: no htlc id in the events")
			}
			ids = append(ids, id)
		}
		return ids
	}, func(e *mc.Env, ctx sdk.Context, ids []string) (map[string]string, error) {
		x := &q{e, map[string]string{}}
		for i, id := range ids {
			r, err := e.HTLC.HTLC(ctx, &htlctypes.QueryHTLCRequest{Id: id})
			x.put(fmt.Sprintf("htlc.contract(#%03d)", i), r, err)
		}
		return x.out, nil
	})

	// ---- coinswap: bulkN pools
	var poolCoins []sdk.Coin
	for i := 0; i < bulkN; i++ {
		poolCoins = append(poolCoins, mc.C(fmt.Sprintf("cn%03d", i), 1_000_000))
	}
	add("coinswap", []string{"coinswap"}, func() *mc.Env { return env(poolCoins...) }, func(e *mc.Env, s *mc.State) []string {
		var ids []string
		for i := 0; i < bulkN; i++ {
			dn := fmt.Sprintf("cn%03d", i)
			bulkMust(s.Deliver(e, "bulk-pool-"+dn, &cstypes.MsgAddLiquidity{MaxToken: mc.C(dn, int64(1000+i)), ExactStandardAmt: sdkmath.NewInt(int64(2000 + i)),
				MinLiquidity: sdkmath.OneInt(), Deadline: s.Ctx.BlockTime().Unix() + 10, Sender: mc.Addr("A").String()}), "add liquidity "+dn)
			ids = append(ids, dn)
		}
		return ids
	}, func(e *mc.Env, ctx sdk.Context, ids []string) (map[string]string, error) {
		x := &q{e, map[string]string{}}
		for _, dn := range ids {
			p, ok := e.Coinswap.GetPool(ctx, cstypes.GetPoolId(dn))
			if !ok {
				x.out["coinswap.pool("+dn+")"] = "absent"
				continue
			}
			r, err := e.Coinswap.LiquidityPool(ctx, &cstypes.QueryLiquidityPoolRequest{LptDenom: p.LptDenom})
			x.put("coinswap.pool("+dn+")", r, err)
		}
		return x.out, nil
	})

	// ---- farm: bulkN pools on one liquidity token
	add("farm", []string{"coinswap", "farm"}, func() *mc.Env { return env() }, func(e *mc.Env, s *mc.State) []string {
		bulkMust(s.Deliver(e, "bulk-lp", &cstypes.MsgAddLiquidity{MaxToken: mc.C("btc", 1000), ExactStandardAmt: sdkmath.NewInt(2000),
			MinLiquidity: sdkmath.OneInt(), Deadline: s.Ctx.BlockTime().Unix() + 10, Sender: mc.Addr("A").String()}), "lp pool")
		p, _ := e.Coinswap.GetPool(s.Ctx, cstypes.GetPoolId("btc"))
		var ids []string
		for i := 0; i < bulkN; i++ {
			// every other pool pays in two denominations (their rule keys share the pool's prefix)
			rpb, tot := sdk.NewCoins(mc.C("eth", 1)), sdk.NewCoins(mc.C("eth", int64(100+i)))
			if i%2 == 1 {
				rpb, tot = sdk.NewCoins(mc.C("btc", 2), mc.C("eth", 1)), sdk.NewCoins(mc.C("btc", int64(300+i)), mc.C("eth", int64(100+i)))
			}
			o := s.Deliver(e, fmt.Sprintf("bulk-farm-%03d", i), &farmtypes.MsgCreatePool{Description: "p", LptDenom: p.LptDenom, StartHeight: s.Ctx.BlockHeight(),
				RewardPerBlock: rpb, TotalReward: tot, Editable: true, Creator: mc.Addr("A").String()})
			bulkMust(o, "create farm pool")
			id := evAttr(o, farmtypes.EventTypeCreatePool, farmtypes.AttributeValuePoolId)
			if id == "" {
				panic("bulk fixture: no farm pool id in the events")
			}
			ids = append(ids, id)
		}
		bulkMust(s.Deliver(e, "bulk-stake", &farmtypes.MsgStake{PoolId: ids[bulkN-1], Amount: sdk.NewCoin(p.LptDenom, sdkmath.NewInt(5)), Sender: mc.Addr("A").String()}), "stake")
		return ids
	}, func(e *mc.Env, ctx sdk.Context, ids []string) (map[string]string, error) {
		x := &q{e, map[string]string{}}
		for _, id := range ids {
			r, err := e.Farm.FarmPool(ctx, &farmtypes.QueryFarmPoolRequest{Id: id})
			x.put("farm.pool("+id+")", r, err)
		}
		fr, err := e.Farm.Farmer(ctx, &farmtypes.QueryFarmerRequest{Farmer: mc.Addr("A").String()})
		x.put("farm.farmer(A)", fr, err)
		return x.out, nil
	})
	return out
}

var _ = recordtypes.ModuleName
