// Package c12: exported state re-imports and preserves what users rely on. The module drivers generate the
// reachable states; in every new state the genesis round trip of mc.RoundTrip is evaluated.
package c12

import (
	"encoding/hex"
	"fmt"
	"sort"
	"strings"

	sdkmath "cosmossdk.io/math"
	tmbytes "github.com/cometbft/cometbft/libs/bytes"
	sdk "github.com/cosmos/cosmos-sdk/types"
	"github.com/cosmos/gogoproto/proto"

	cstypes "mods.irisnet.org/modules/coinswap/types"
	farmtypes "mods.irisnet.org/modules/farm/types"
	"mods.irisnet.org/modules/htlc"
	htlctypes "mods.irisnet.org/modules/htlc/types"
	mttypes "mods.irisnet.org/modules/mt/types"
	nfttypes "mods.irisnet.org/modules/nft/types"
	"mods.irisnet.org/modules/oracle"
	oracletypes "mods.irisnet.org/modules/oracle/types"
	"mods.irisnet.org/modules/random"
	randomtypes "mods.irisnet.org/modules/random/types"
	recordtypes "mods.irisnet.org/modules/record/types"
	"mods.irisnet.org/modules/service"
	svctypes "mods.irisnet.org/modules/service/types"
	tokenv1 "mods.irisnet.org/modules/token/types/v1"

	"verif/harness/mc"
	"verif/harness/props/c09"
	"verif/harness/props/c14"
	"verif/harness/props/c15"
	"verif/harness/props/c17"
	"verif/harness/props/c18"
	"verif/harness/props/c19"
	csdrv "verif/harness/props/coinswap"
	farmdrv "verif/harness/props/farm"
	htlcdrv "verif/harness/props/htlc"
	svcdrv "verif/harness/props/service"
)

var actors = []string{"A", "B", "C", "D", "K", "X", "U", "V", "O1", "O2", "P1", "P2", "P3", "W", "R", "S"}

type q struct {
	e   *mc.Env
	out map[string]string
}

func (x *q) put(name string, msg proto.Message, err error) {
	if err != nil {
		x.out[name] = "error: " + mc.Normalize(err.Error())
		return
	}
	bz, merr := x.e.Cdc.MarshalJSON(msg)
	if merr != nil {
		x.out[name] = "marshal-error: " + merr.Error()
		return
	}
	x.out[name] = string(bz)
}

// ---- per-module query snapshots (the durable objects the property lists)

func qCoinswap(e *mc.Env, ctx sdk.Context, _ []string) (map[string]string, error) {
	x := &q{e, map[string]string{}}
	r, err := e.Coinswap.LiquidityPools(ctx, &cstypes.QueryLiquidityPoolsRequest{})
	x.put("coinswap.pools", r, err)
	p, err := e.Coinswap.Params(ctx, &cstypes.QueryParamsRequest{})
	x.put("coinswap.params", p, err)
	return x.out, nil
}

func qFarm(e *mc.Env, ctx sdk.Context, _ []string) (map[string]string, error) {
	x := &q{e, map[string]string{}}
	r, err := e.Farm.FarmPools(ctx, &farmtypes.QueryFarmPoolsRequest{})
	x.put("farm.pools", r, err)
	for _, a := range actors {
		fr, err := e.Farm.Farmer(ctx, &farmtypes.QueryFarmerRequest{Farmer: mc.Addr(a).String()})
		if err != nil {
			continue // not a farmer on this side; the other side must agree (key absent on both)
		}
		x.put("farm.farmer("+a+")", fr, nil)
	}
	return x.out, nil
}

func idsHTLC(e *mc.Env, ctx sdk.Context) []string {
	var ids []string
	e.HTLC.IterateHTLCs(ctx, func(id tmbytes.HexBytes, h htlctypes.HTLC) bool {
		if h.State == htlctypes.Open {
			ids = append(ids, id.String())
		}
		return false
	})
	return ids
}

func qHTLC(e *mc.Env, ctx sdk.Context, ids []string) (map[string]string, error) {
	x := &q{e, map[string]string{}}
	for i, id := range ids {
		r, err := e.HTLC.HTLC(ctx, &htlctypes.QueryHTLCRequest{Id: id})
		x.put(fmt.Sprintf("htlc.open-contract(#%d)", i), r, err)
	}
	s, err := e.HTLC.AssetSupplies(ctx, &htlctypes.QueryAssetSuppliesRequest{})
	x.put("htlc.asset-supplies", s, err)
	p, err := e.HTLC.Params(ctx, &htlctypes.QueryParamsRequest{})
	x.put("htlc.params", p, err)
	return x.out, nil
}

func qToken(e *mc.Env, ctx sdk.Context, _ []string) (map[string]string, error) {
	x := &q{e, map[string]string{}}
	r, err := e.Token.Tokens(ctx, &tokenv1.QueryTokensRequest{})
	x.put("token.tokens", r, err)
	b, err := e.Token.TotalBurn(ctx, &tokenv1.QueryTotalBurnRequest{})
	x.put("token.total-burn", b, err)
	p, err := e.Token.Params(ctx, &tokenv1.QueryParamsRequest{})
	x.put("token.params", p, err)
	return x.out, nil
}

func qNFT(e *mc.Env, ctx sdk.Context, _ []string) (map[string]string, error) {
	x := &q{e, map[string]string{}}
	r, err := e.NFT.Denoms(ctx, &nfttypes.QueryDenomsRequest{})
	x.put("nft.classes", r, err)
	if err == nil {
		for _, d := range r.Denoms {
			c, err := e.NFT.Collection(ctx, &nfttypes.QueryCollectionRequest{DenomId: d.Id})
			x.put("nft.collection("+d.Id+")", c, err)
			s, err := e.NFT.Supply(ctx, &nfttypes.QuerySupplyRequest{DenomId: d.Id})
			x.put("nft.supply("+d.Id+")", s, err)
			for _, a := range actors {
				o, err := e.NFT.NFTsOfOwner(ctx, &nfttypes.QueryNFTsOfOwnerRequest{DenomId: d.Id, Owner: mc.Addr(a).String()})
				if err == nil && o.Owner != nil && len(o.Owner.IDCollections) > 0 {
					x.put("nft.owner("+d.Id+","+a+")", o, nil)
				}
			}
		}
	}
	return x.out, nil
}

func qMT(e *mc.Env, ctx sdk.Context, _ []string) (map[string]string, error) {
	x := &q{e, map[string]string{}}
	r, err := e.MT.Denoms(ctx, &mttypes.QueryDenomsRequest{})
	x.put("mt.classes", r, err)
	if err == nil {
		for _, d := range r.Denoms {
			m, err := e.MT.MTs(ctx, &mttypes.QueryMTsRequest{DenomId: d.Id})
			x.put("mt.tokens("+d.Id+")", m, err)
			for _, a := range actors {
				b, err := e.MT.Balances(ctx, &mttypes.QueryBalancesRequest{Owner: mc.Addr(a).String(), DenomId: d.Id})
				if err == nil && len(b.Balance) > 0 {
					x.put("mt.balances("+d.Id+","+a+")", b, nil)
				}
			}
		}
	}
	return x.out, nil
}

// longOwner is an account address of 32 bytes (the length of module-derived and interchain accounts)
func longOwner() sdk.AccAddress {
	b := make([]byte, 32)
	copy(b, mc.Addr("long-owner"))
	copy(b[20:], mc.Addr("long-owner-tail"))
	return sdk.AccAddress(b)
}

func idsService(e *mc.Env, ctx sdk.Context) []string {
	var ids []string
	e.Service.IterateRequestContexts(ctx, func(id tmbytes.HexBytes, _ svctypes.RequestContext) bool {
		ids = append(ids, id.String())
		return false
	})
	return ids
}

func qService(e *mc.Env, ctx sdk.Context, ids []string) (map[string]string, error) {
	x := &q{e, map[string]string{}}
	for _, name := range []string{"svc", "random"} {
		d, err := e.Service.Definition(ctx, &svctypes.QueryDefinitionRequest{ServiceName: name})
		if err == nil {
			x.put("service.definition("+name+")", d, nil)
			b, err := e.Service.Bindings(ctx, &svctypes.QueryBindingsRequest{ServiceName: name})
			x.put("service.bindings("+name+")", b, err)
		}
	}
	for i, id := range ids {
		r, err := e.Service.RequestContext(ctx, &svctypes.QueryRequestContextRequest{RequestContextId: id})
		x.put(fmt.Sprintf("service.context(#%d)", i), r, err)
	}
	for _, a := range []string{"P1", "P2", "P3"} {
		f, err := e.Service.EarnedFees(ctx, &svctypes.QueryEarnedFeesRequest{Provider: mc.Addr(a).String()})
		if err == nil {
			x.put("service.earned-fees("+a+")", f, nil)
		}
	}
	for _, ow := range []sdk.AccAddress{mc.Addr("O1"), mc.Addr("O2"), longOwner()} {
		w, err := e.Service.WithdrawAddress(ctx, &svctypes.QueryWithdrawAddressRequest{Owner: ow.String()})
		x.put(fmt.Sprintf("service.withdraw-address(%d-byte owner %x)", len(ow), ow.Bytes()[:4]), w, err)
	}
	p, err := e.Service.Params(ctx, &svctypes.QueryParamsRequest{})
	x.put("service.params", p, err)
	return x.out, nil
}

func qOracle(e *mc.Env, ctx sdk.Context, ids []string) (map[string]string, error) {
	x := &q{e, map[string]string{}}
	r, err := e.Oracle.Feeds(ctx, &oracletypes.QueryFeedsRequest{})
	x.put("oracle.feeds", r, err)
	if err == nil {
		for _, f := range r.Feeds {
			v, err := e.Oracle.FeedValue(ctx, &oracletypes.QueryFeedValueRequest{FeedName: f.Feed.FeedName})
			x.put("oracle.feed-values("+f.Feed.FeedName+")", v, err)
		}
	}
	return x.out, nil
}

func idsRecord(e *mc.Env, ctx sdk.Context) []string {
	var ids []string
	it := e.Record.RecordsIterator(ctx)
	for ; it.Valid(); it.Next() {
		ids = append(ids, hex.EncodeToString(it.Key()[1:]))
	}
	it.Close()
	return ids
}

func qRecord(e *mc.Env, ctx sdk.Context, ids []string) (map[string]string, error) {
	x := &q{e, map[string]string{}}
	for i, id := range ids {
		r, err := e.Record.Record(ctx, &recordtypes.QueryRecordRequest{RecordId: id})
		x.put(fmt.Sprintf("record.by-original-id(#%d)", i), r, err)
	}
	return x.out, nil
}

func qRandom(e *mc.Env, ctx sdk.Context, _ []string) (map[string]string, error) {
	x := &q{e, map[string]string{}}
	h := ctx.BlockHeight()
	for d := int64(0); d <= 6; d++ {
		r, err := e.Random.RandomRequestQueue(ctx, &randomtypes.QueryRandomRequestQueueRequest{Height: h + d})
		if err == nil && len(r.Requests) > 0 {
			x.put(fmt.Sprintf("random.pending(+%d)", d), r, nil)
		}
	}
	return x.out, nil
}

func merge(fns ...mc.QueryFn) mc.QueryFn {
	return func(e *mc.Env, ctx sdk.Context, ids []string) (map[string]string, error) {
		out := map[string]string{}
		for _, f := range fns {
			m, err := f(e, ctx, ids)
			if err != nil {
				return nil, err
			}
			for k, v := range m {
				out[k] = v
			}
		}
		return out, nil
	}
}

type spec struct {
	name  string
	mk    func() (*mc.Env, mc.Driver)
	rt    mc.RoundTripSpec
	q, t  int
	txSeq bool
}

func wrap(s spec) func() (*mc.Env, mc.Driver) {
	return func() (*mc.Env, mc.Driver) {
		e, d := s.mk()
		target := mc.NewEnv(mc.EnvOptions{})
		rt := s.rt
		rt.Property = "C12"
		return e, &mc.RoundTrip{Inner: d, Spec: rt, Target: target}
	}
}

func find[T any](vs []T, name func(T) string, want string) T {
	for _, v := range vs {
		if name(v) == want {
			return v
		}
	}
	panic("variant " + want + " not found")
}

func auth() string { return mc.Authority().String() }

// parameter changes by governance, offered in every state of the respective driver
var (
	govFarm = []mc.GovOp{
		{Name: "farm(max_reward_categories=1)", Msg: func(e *mc.Env, ctx sdk.Context) sdk.Msg {
			p := e.Farm.GetParams(ctx)
			p.MaxRewardCategories = 1
			return &farmtypes.MsgUpdateParams{Authority: auth(), Params: p}
		}},
		{Name: "farm(tax_rate=1,fee=1)", Msg: func(e *mc.Env, ctx sdk.Context) sdk.Msg {
			p := e.Farm.GetParams(ctx)
			p.TaxRate = sdkmath.LegacyOneDec()
			p.PoolCreationFee = sdk.NewInt64Coin(p.PoolCreationFee.Denom, 1)
			return &farmtypes.MsgUpdateParams{Authority: auth(), Params: p}
		}},
	}
	govHTLC = []mc.GovOp{
		{Name: "htlc(first asset: limits lowered to 1)", Msg: func(e *mc.Env, ctx sdk.Context) sdk.Msg {
			p := e.HTLC.GetParams(ctx)
			if len(p.AssetParams) == 0 {
				return nil
			}
			p.AssetParams[0].SupplyLimit.Limit = sdkmath.OneInt()
			p.AssetParams[0].SupplyLimit.TimeBasedLimit = sdkmath.OneInt()
			return &htlctypes.MsgUpdateParams{Authority: auth(), Params: p}
		}},
		{Name: "htlc(first asset: inactive)", Msg: func(e *mc.Env, ctx sdk.Context) sdk.Msg {
			p := e.HTLC.GetParams(ctx)
			if len(p.AssetParams) == 0 {
				return nil
			}
			p.AssetParams[0].Active = false
			return &htlctypes.MsgUpdateParams{Authority: auth(), Params: p}
		}},
		{Name: "htlc(last asset removed)", Msg: func(e *mc.Env, ctx sdk.Context) sdk.Msg {
			p := e.HTLC.GetParams(ctx)
			if len(p.AssetParams) < 2 {
				return nil
			}
			p.AssetParams = p.AssetParams[:len(p.AssetParams)-1]
			return &htlctypes.MsgUpdateParams{Authority: auth(), Params: p}
		}},
	}
	govService = []mc.GovOp{
		// (not governance: two more user messages) owners - one of them a 32-byte account address, as module-derived,
		// interchain and group-policy accounts have - name the address their earned fees are withdrawn to
		{Name: "service:set-withdraw-address(owner with a 32-byte address)", Msg: func(e *mc.Env, ctx sdk.Context) sdk.Msg {
			return &svctypes.MsgSetWithdrawAddress{Owner: longOwner().String(), WithdrawAddress: mc.Addr("W").String()}
		}},
		{Name: "service:set-withdraw-address(O1)", Msg: func(e *mc.Env, ctx sdk.Context) sdk.Msg {
			return &svctypes.MsgSetWithdrawAddress{Owner: mc.Addr("O1").String(), WithdrawAddress: mc.Addr("X").String()}
		}},
		{Name: "service(max_request_timeout=1)", Msg: func(e *mc.Env, ctx sdk.Context) sdk.Msg {
			p := e.Service.GetParams(ctx)
			p.MaxRequestTimeout = 1
			return &svctypes.MsgUpdateParams{Authority: auth(), Params: p}
		}},
		{Name: "service(min_deposit x1000)", Msg: func(e *mc.Env, ctx sdk.Context) sdk.Msg {
			p := e.Service.GetParams(ctx)
			for i := range p.MinDeposit {
				p.MinDeposit[i].Amount = p.MinDeposit[i].Amount.MulRaw(1000)
			}
			p.MinDepositMultiple = p.MinDepositMultiple * 1000
			return &svctypes.MsgUpdateParams{Authority: auth(), Params: p}
		}},
	}
	govToken = []mc.GovOp{
		{Name: "token(tax=0,mint_ratio=1,base_fee=1)", Msg: func(e *mc.Env, ctx sdk.Context) sdk.Msg {
			p := e.Token.GetParams(ctx)
			p.TokenTaxRate = sdkmath.LegacyZeroDec()
			p.MintTokenFeeRatio = sdkmath.LegacyOneDec()
			p.IssueTokenBaseFee = sdk.NewInt64Coin(p.IssueTokenBaseFee.Denom, 1)
			return &tokenv1.MsgUpdateParams{Authority: auth(), Params: p}
		}},
	}
)

func specs() []spec {
	farmV := farmdrv.Variant{Name: "creator-ops", Farmers: []string{"A", "B"}, StakeAmts: []int64{1, 3},
		RPB: sdk.NewCoins(mc.C("eth", 3)), Total: sdk.NewCoins(mc.C("eth", 20)), Creator: true, Mode: "C12"}
	farmTwo := farmdrv.Variant{Name: "two-denoms", Farmers: []string{"A", "B"}, StakeAmts: []int64{2},
		RPB: sdk.NewCoins(mc.C("eth", 2), mc.C("btc", 3)), Total: sdk.NewCoins(mc.C("eth", 11), mc.C("btc", 10)), Mode: "C12"}
	farmBig := farmdrv.Variant{Name: "big-stake", Farmers: []string{"A"}, StakeAmts: []int64{1},
		RPB: sdk.NewCoins(mc.C("eth", 1)), Total: sdk.NewCoins(mc.C("eth", 7)), BigStake: true, Mode: "C12"}
	c09v := find(c09.Variants(), func(v c09.Variant) string { return v.Name }, "cap-scale1")
	c17h := find(c17.Variants(), func(v c17.Variant) string { return v.Name }, "history")
	c17l := find(c17.Variants(), func(v c17.Variant) string { return v.Name }, "lifecycle")
	return []spec{
		{name: "record", mk: c19.New, rt: mc.RoundTripSpec{Modules: []string{"record"}, IDs: idsRecord, Query: qRecord}, q: 3, t: 5, txSeq: true},
		{name: "coinswap", mk: csdrv.New(csdrv.Variant{Name: "small", Mode: "C12", Std1: sdkmath.NewInt(10007), Tok1: sdkmath.NewInt(1003), Std2: sdkmath.NewInt(5003), Tok2: sdkmath.NewInt(997),
			Amts: []sdkmath.Int{sdkmath.NewInt(1), sdkmath.NewInt(7), sdkmath.NewInt(640)}, Params: true}), rt: mc.RoundTripSpec{Modules: []string{"coinswap"}, Query: qCoinswap}, q: 2, t: 3},
		{name: "farm", mk: farmdrv.New(farmV), rt: mc.RoundTripSpec{Modules: []string{"coinswap", "farm"}, Query: merge(qCoinswap, qFarm)}, q: 4, t: 6},
		{name: "farm-two-denoms-gov", mk: farmdrv.New(farmTwo), rt: mc.RoundTripSpec{Modules: []string{"coinswap", "farm"}, Query: merge(qCoinswap, qFarm), Gov: govFarm}, q: 4, t: 5},
		{name: "farm-big-stake", mk: farmdrv.New(farmBig), rt: mc.RoundTripSpec{Modules: []string{"coinswap", "farm"}, Query: merge(qCoinswap, qFarm)}, q: 4, t: 6},
		{name: "htlc-plain", mk: htlcdrv.New(htlcdrv.Variant{Name: "plain", Mode: "C12"}), rt: mc.RoundTripSpec{Modules: []string{"htlc"}, IDs: idsHTLC, Query: qHTLC,
			ZeroHeightKeeps: map[string][]string{"htlc": {"/htlcs[]", "/supplies[]"}},
			Prep:            func(e *mc.Env, ctx sdk.Context) { htlc.PrepForZeroHeightGenesis(ctx, e.HTLC) }}, q: 4, t: 6},
		{name: "htlc-cross-chain", mk: htlcdrv.New(htlcdrv.Variant{Name: "cross-chain", Mode: "C12", Cross: true}), rt: mc.RoundTripSpec{Modules: []string{"htlc"}, IDs: idsHTLC, Query: qHTLC, Gov: govHTLC,
			ZeroHeightKeeps: map[string][]string{"htlc": {"/htlcs[]", "/supplies[]"}},
			Prep:            func(e *mc.Env, ctx sdk.Context) { htlc.PrepForZeroHeightGenesis(ctx, e.HTLC) }}, q: 4, t: 5},
		{name: "token", mk: c09.New(c09v), rt: mc.RoundTripSpec{Modules: []string{"token"}, Query: qToken, Gov: govToken}, q: 4, t: 5},
		{name: "token-identity", mk: c09.New(find(c09.Variants(), func(v c09.Variant) string { return v.Name }, "identity")),
			rt: mc.RoundTripSpec{Modules: []string{"token"}, Query: qToken}, q: 3, t: 4},
		{name: "token-erc20-registration", mk: c09.New(find(c09.Variants(), func(v c09.Variant) string { return v.Name }, "identity-erc20-registration")),
			rt: mc.RoundTripSpec{Modules: []string{"token"}, Query: qToken}, q: 3, t: 4},
		{name: "nft", mk: c14.New(c14.Variants()[1]), rt: mc.RoundTripSpec{Modules: []string{"nft"}, Query: qNFT}, q: 3, t: 4},
		{name: "mt-ledger", mk: c15.New(c15.Variants()[0]), rt: mc.RoundTripSpec{Modules: []string{"mt"}, Query: qMT, UnorderedArrays: map[string]bool{"mt": true}}, q: 3, t: 4},
		{name: "mt-classes", mk: c15.New(c15.Variants()[1]), rt: mc.RoundTripSpec{Modules: []string{"mt"}, Query: qMT, UnorderedArrays: map[string]bool{"mt": true}}, q: 4, t: 5},
		{name: "service", mk: svcdrv.New(svcdrv.Variant{Name: "fees", Mode: "C12", Tmpl: []string{"one", "rep"}, Withdraw: true}),
			rt: mc.RoundTripSpec{Modules: []string{"service"}, IDs: idsService, Query: qService, Gov: govService,
				ZeroHeightKeeps: map[string][]string{"service": {"/definitions[]", "/bindings[]", "/request_contexts/*"}},
				Prep:            func(e *mc.Env, ctx sdk.Context) { service.PrepForZeroHeightGenesis(ctx, e.Service) }}, q: 4, t: 6, txSeq: true},
		{name: "random", mk: c18.New(c18.QueueVariant()), rt: mc.RoundTripSpec{Modules: []string{"random"}, Query: qRandom,
			ZeroHeightKeeps: map[string][]string{"random": {"/pending_random_requests/*/requests[]"}},
			Prep:            func(e *mc.Env, ctx sdk.Context) { random.PrepForZeroHeightGenesis(ctx, e.Random) }}, q: 4, t: 5, txSeq: true},
		{name: "oracle-history", mk: c17.New(c17h), rt: mc.RoundTripSpec{Modules: []string{"service", "oracle"}, IDs: idsService, Query: merge(qService, qOracle),
			ZeroHeightKeeps: map[string][]string{"oracle": {"/entries[]", "/entries[]/values[]"}, "service": {"/definitions[]", "/bindings[]", "/request_contexts/*"}},
			Prep: func(e *mc.Env, ctx sdk.Context) {
				service.PrepForZeroHeightGenesis(ctx, e.Service)
				oracle.PrepForZeroHeightGenesis(ctx, e.Oracle)
			}}, q: 4, t: 6, txSeq: true},
		{name: "oracle-lifecycle", mk: c17.New(c17l), rt: mc.RoundTripSpec{Modules: []string{"service", "oracle"}, IDs: idsService, Query: merge(qService, qOracle)}, q: 3, t: 4, txSeq: true},
	}
}

var _ = random.PrepForZeroHeightGenesis
var _ = qRandom
var _ = sort.Strings
var _ = strings.ToUpper

// Entry is one module driver of the cross-cutting catalogue (also used by C11).
type Entry struct {
	Name     string
	Mk       func() (*mc.Env, mc.Driver)
	Modules  []string
	TxSeq    bool
	Quick    int
	Thorough int
}

// Catalog lists the module drivers with the modules whose genesis they exercise.
func Catalog() []Entry {
	var out []Entry
	for _, s := range specs() {
		out = append(out, Entry{Name: s.name, Mk: s.mk, Modules: s.rt.Modules, TxSeq: s.txSeq, Quick: s.q, Thorough: s.t})
	}
	return out
}

const rule = "every newly discovered state of the module driver gets the export -> validate -> import -> export -> query comparison; non-trivial as defined by the module driver"

// Parts of C12.
func Parts() []mc.Part {
	var ps []mc.Part
	for _, s := range specs() {
		ps = append(ps, mc.ExplorePart(s.name, wrap(s), s.q, s.t, s.txSeq, rule))
	}
	for _, s := range bulkSpecs() {
		ps = append(ps, mc.ExplorePart(s.name, wrap(s), s.q, s.t, s.txSeq, rule))
	}
	return ps
}
