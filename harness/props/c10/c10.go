// Package c10: token conversions (ERC20 both ways, swap-to-native hook, fee-token swap) neither create
// nor lose value.
package c10

import (
	"fmt"
	"math/big"
	"time"

	sdkmath "cosmossdk.io/math"
	sdk "github.com/cosmos/cosmos-sdk/types"
	authtypes "github.com/cosmos/cosmos-sdk/x/auth/types"
	"github.com/cosmos/gogoproto/proto"
	"github.com/ethereum/go-ethereum/common"
	ethtypes "github.com/ethereum/go-ethereum/core/types"

	"mods.irisnet.org/modules/token/contracts"
	tokenkeeper "mods.irisnet.org/modules/token/keeper"
	tokentypes "mods.irisnet.org/modules/token/types"
	v1 "mods.irisnet.org/modules/token/types/v1"

	"verif/harness/envseam"
	"verif/harness/mc"
)

const (
	symA, unitA = "tka", "uta" // ERC20-bound token, scale 6
	symB, unitB = "tkb", "utb" // fee token, scale 18
)

// Variant selects the alphabet.
type Variant struct {
	Name    string
	FeeSwap bool
	Ratio   string
	// LateIssue: the second fee token is not part of the fixture but issued on the path, with scale 18 or 6.
	// What a swap mints depends on the scales of the tokens as they are on *this* path; sibling paths (and with
	// them every discarded branch a node executes: failed transactions, simulations) may have seen other ones.
	LateIssue bool
	// NearCap: the second fee token is issued one main unit below its maximum supply; a holder may burn half a
	// micro-unit's worth of it, so that the room under the cap is no whole number of units of the other token
	NearCap bool
	// ContractScale: decimals the ERC20 contract is deployed with (0 = the token's own scale, 6)
	ContractScale uint32
}

// lateModel: the scale the second fee token was issued with on this path (0 = not issued yet).
type lateModel struct{ scaleB int64 }

func (m *lateModel) Clone() mc.Model { c := *m; return &c }
func (m *lateModel) Canon() []byte   { return []byte(fmt.Sprint(m.scaleB)) }

type opData struct {
	kind   string
	who    string
	to     string
	amt    sdkmath.Int
	rel    string // "", "all", "all+1"
	fault  string
	router bool
	// bySymbol: the coin of the message carries the token's symbol as denom
	bySymbol bool
	// split: the hook receipt carries the amount as two events (1 and the rest)
	split bool
	// via: the EVM transaction is addressed to another contract that calls the bound one
	via bool
	// rawTo: the receiver string the contract event carries, when it is not an account address of the chain
	rawTo string
}

// Driver implements mc.Driver.
type Driver struct {
	V        Variant
	evm      *envseam.EVM
	contract common.Address
	srv      v1.MsgServer // message server over the keeper copy that carries the swap registry (built once)
}

func New(v Variant) func() (*mc.Env, mc.Driver) {
	return func() (*mc.Env, mc.Driver) {
		evm := &envseam.EVM{}
		rich := sdk.NewCoins(mc.C("stake", 1_000_000_000))
		e := mc.NewEnv(mc.EnvOptions{Balances: map[string]sdk.Coins{"A": rich, "B": rich}, EVM: evm, BlockModules: []string{"token"}})
		evm.Key = e.StoreKey("evidence") // an otherwise unused store of the same multistore
		return e, &Driver{V: v, evm: evm}
	}
}

func (d *Driver) ID() string       { return "C10/" + d.V.Name }
func (d *Driver) Stores() []string { return []string{"token", "bank", "evidence"} }

func must(out mc.Outcome, what string) {
	if !out.OK {
		panic(fmt.Sprintf("fixture step %s failed: %s", what, out))
	}
}

func eth(name string) common.Address { return common.BytesToAddress(mc.Addr(name).Bytes()) }

func (d *Driver) Init(e *mc.Env) *mc.State {
	s := &mc.State{Ctx: mc.Branch(e.Root)}
	p := e.Token.GetParams(s.Ctx)
	p.EnableErc20 = true
	p.Beacon = "0x00000000000000000000000000000000000000be"
	must(s.Deliver(e, "fx-params", &v1.MsgUpdateParams{Authority: mc.Authority().String(), Params: p}), "params")
	must(s.Deliver(e, "fx-issue-a", &v1.MsgIssueToken{Symbol: symA, Name: "A", MinUnit: unitA, Scale: 6, InitialSupply: 7, MaxSupply: 1000, Mintable: true, Owner: mc.Addr("A").String()}), "issue a")
	if d.V.LateIssue {
		s.Model = &lateModel{}
	} else {
		initB, maxB := uint64(5), uint64(1000)
		if d.V.NearCap {
			initB, maxB = 999, 1000
		}
		must(s.Deliver(e, "fx-issue-b", &v1.MsgIssueToken{Symbol: symB, Name: "B", MinUnit: unitB, Scale: 18, InitialSupply: initB, MaxSupply: maxB, Mintable: true, Owner: mc.Addr("A").String()}), "issue b")
	}
	// the contract's own decimals are an argument of the deployment and need not be the token's scale
	dscale := uint32(6)
	if d.V.ContractScale > 0 {
		dscale = d.V.ContractScale
	}
	must(s.Deliver(e, "fx-deploy", &v1.MsgDeployERC20{Symbol: symA, Name: "A", Scale: dscale, MinUnit: unitA, Authority: mc.Authority().String()}), "deploy erc20")
	tok, err := e.Token.GetToken(s.Ctx, unitA)
	if err != nil {
		panic(err)
	}
	d.contract = common.HexToAddress(tok.GetContract())
	if !d.evm.HasContract(s.Ctx, d.contract) {
		panic("fixture: contract not deployed in the harness EVM")
	}
	return s
}

func (d *Driver) Enabled(e *mc.Env, s *mc.State) []mc.Op {
	var ops []mc.Op
	add := func(name string, od opData) { ops = append(ops, mc.Op{Name: name, Data: od}) }
	one, five := sdkmath.NewInt(1), sdkmath.NewInt(5)
	if d.V.FeeSwap && d.V.LateIssue && s.Model.(*lateModel).scaleB == 0 {
		add("issue-b(scale=18)", opData{kind: "issue-b", who: "A", amt: sdkmath.NewInt(18)})
		add("issue-b(scale=6)", opData{kind: "issue-b", who: "A", amt: sdkmath.NewInt(6)})
		add("issue-lookalike(B,symbol="+unitA+",scale=18)", opData{kind: "lookalike", who: "B"})
		return ops
	}
	if d.V.FeeSwap {
		e12 := sdkmath.NewIntWithDecimal(1, 12)
		amts := map[string]sdkmath.Int{"1": one, "1e12-1": e12.SubRaw(1), "1e12": e12, "2.6e12": sdkmath.NewIntWithDecimal(26, 11), "2.5e12": sdkmath.NewIntWithDecimal(25, 11), "1e18+7": sdkmath.NewIntWithDecimal(1, 18).AddRaw(7)}
		for _, n := range []string{"1", "1e12-1", "1e12", "2.5e12", "2.6e12", "1e18+7"} {
			add("feeswap(A,"+n+")", opData{kind: "feeswap", who: "A", to: "", amt: amts[n]})
		}
		add("feeswap(A,2.6e12,to=B)", opData{kind: "feeswap", who: "A", to: "B", amt: amts["2.6e12"]})
		add("feeswap(A,all)", opData{kind: "feeswap", who: "A", rel: "all"})
		add("feeswap(A,1e12,to=blocked)", opData{kind: "feeswap", who: "A", to: "feecollector", amt: e12})
		add("feeswap-via-router(A,1e12)", opData{kind: "feeswap", who: "A", amt: e12, router: true})
		add("feeswap-reverse(A,5)", opData{kind: "feeswap-rev", who: "A", amt: five})
		if d.V.NearCap {
			// outputs around and above the room that is left under the minted token's maximum supply
			add("feeswap-reverse(A,1e6)", opData{kind: "feeswap-rev", who: "A", amt: sdkmath.NewInt(1_000_000)})
			add("feeswap-reverse(A,2e6)", opData{kind: "feeswap-rev", who: "A", amt: sdkmath.NewInt(2_000_000)})
			add("burn-b(A,5e11)", opData{kind: "burn-b", who: "A", amt: sdkmath.NewIntWithDecimal(5, 11)})
		}
		// a third party issues a token whose SYMBOL equals the min unit of a swappable token (symbols and min
		// units are unique only among themselves), with another scale
		add("issue-lookalike(B,symbol="+unitA+",scale=18)", opData{kind: "lookalike", who: "B"})
		return ops
	}
	for _, f := range []string{envseam.FaultNone, envseam.FaultCallError, envseam.FaultVMFailed, envseam.FaultWrongAmount, envseam.FaultBalanceErr} {
		sfx := ""
		if f != "" {
			sfx = ",fault=" + f
		}
		add("to-erc20(A,5,B"+sfx+")", opData{kind: "to", who: "A", to: "B", amt: five, fault: f})
		add("from-erc20(B,1,A"+sfx+")", opData{kind: "from", who: "B", to: "A", amt: one, fault: f})
	}
	add("to-erc20(A,1,A)", opData{kind: "to", who: "A", to: "A", amt: one})
	add("to-erc20(A,all,B)", opData{kind: "to", who: "A", to: "B", rel: "all"})
	add("to-erc20(A,all+1,B)", opData{kind: "to", who: "A", to: "B", rel: "all+1"})
	add("from-erc20(B,all,B)", opData{kind: "from", who: "B", to: "B", rel: "all"})
	add("from-erc20(B,all+1,A)", opData{kind: "from", who: "B", to: "A", rel: "all+1"})
	add("from-erc20(B,1,blocked)", opData{kind: "from", who: "B", to: "feecollector", amt: one})
	// the same conversions naming the token by its SYMBOL instead of its min unit (no such coin exists)
	add("from-erc20(B,1-by-symbol,A)", opData{kind: "from", who: "B", to: "A", amt: one, bySymbol: true})
	add("to-erc20(A,1-by-symbol,B)", opData{kind: "to", who: "A", to: "B", amt: one, bySymbol: true})
	add("hook-to-native(B,3,A)", opData{kind: "hook", who: "B", to: "A", amt: sdkmath.NewInt(3)})
	add("hook-to-native(B,all+1,A)", opData{kind: "hook", who: "B", to: "A", rel: "all+1"})
	// one EVM transaction whose receipt carries two SwapToNative events for the same receiver (1 + 2)
	add("hook-to-native(B,1+2,A,one-receipt)", opData{kind: "hook", who: "B", to: "A", amt: sdkmath.NewInt(3), split: true})
	// the contract's swapToNative reached through another contract (a router, a wallet contract): the transaction
	// is addressed to that contract, the event is the bound contract's all the same
	// somebody parks native coins of the token on the token module's own account (an ordinary address to the bank):
	// a conversion still burns exactly the converted amount
	add("park(A,1->token-module-account)", opData{kind: "park", who: "A", amt: one})
	// the contract hands over whatever string its caller named as receiver; one that is no account address of the
	// chain cannot be paid: the conversion must fail as a whole (the contract side has already burned)
	add("!hook-to-native(B,2,receiver=0x-hex-of-A)", opData{kind: "hook", who: "B", to: "A", amt: sdkmath.NewInt(2), rawTo: eth("A").Hex()})
	add("!hook-to-native(B,2,receiver=free-text)", opData{kind: "hook", who: "B", to: "A", amt: sdkmath.NewInt(2), rawTo: "my wallet"})
	add("hook-to-native(B,2,A,via-other-contract)", opData{kind: "hook", who: "B", to: "A", amt: sdkmath.NewInt(2), via: true})
	// governance switches the ERC20 feature off / on: conversions attempted while it is off must fail as a whole
	add("erc20-off", opData{kind: "switch", rel: "off"})
	add("erc20-on", opData{kind: "switch", rel: "on"})
	// the chain restarts from its own exported token genesis (the contract side lives on): conversions must go on
	// exactly as before
	add("restart-from-genesis", opData{kind: "restart"})
	return ops
}

func addrOf(name string) sdk.AccAddress {
	if name == "feecollector" {
		return mc.ModuleAddr(authtypes.FeeCollectorName)
	}
	return mc.Addr(name)
}

type ledger struct {
	native map[string]*big.Int // A, B, feecollector, module
	erc    map[string]*big.Int
	supN   *big.Int
	supE   *big.Int
	natB   map[string]*big.Int // balances of the fee token
	supB   *big.Int
}

func (d *Driver) ledger(e *mc.Env, s *mc.State) ledger {
	l := ledger{native: map[string]*big.Int{}, erc: map[string]*big.Int{}, natB: map[string]*big.Int{}}
	for _, n := range []string{"A", "B", "feecollector"} {
		l.native[n] = e.Bal(s.Ctx, addrOf(n), unitA).BigInt()
		l.natB[n] = e.Bal(s.Ctx, addrOf(n), unitB).BigInt()
		l.erc[n] = d.evm.BalanceOf(s.Ctx, d.contract, common.BytesToAddress(addrOf(n).Bytes()))
	}
	l.native["module"] = e.Bal(s.Ctx, mc.ModuleAddr(tokentypes.ModuleName), unitA).BigInt()
	l.natB["module"] = e.Bal(s.Ctx, mc.ModuleAddr(tokentypes.ModuleName), unitB).BigInt()
	l.supN = e.Supply(s.Ctx, unitA).BigInt()
	l.supB = e.Supply(s.Ctx, unitB).BigInt()
	l.supE = d.evm.TotalSupply(s.Ctx, d.contract)
	return l
}

func (l ledger) String() string {
	return fmt.Sprintf("native%v erc20%v supply(native=%s,erc20=%s) feetoken%v supply=%s", l.native, l.erc, l.supN, l.supE, l.natB, l.supB)
}

func same(a, b ledger) bool { return a.String() == b.String() }

func (d *Driver) Apply(e *mc.Env, s *mc.State, op mc.Op) []mc.Finding {
	od := op.Data.(opData)
	var fs []mc.Finding
	pre := d.ledger(e, s)
	amt := od.amt
	switch od.kind {
	case "restart":
		if err := mc.ReimportModule(e, s.Ctx, tokentypes.ModuleName); err != nil {
			return []mc.Finding{mc.F("C10/harness/token-genesis-reimport-failed", "%v", err)}
		}
		s.MarkDirty()
		s.Last = "ok"
		if post := d.ledger(e, s); !same(pre, post) {
			fs = append(fs, mc.F("C10/restart-moved-value", "%s: ledgers changed: before %s after %s", op.Name, pre, post))
		}
		return fs
	case "issue-b":
		out := s.Deliver(e, op.Name, &v1.MsgIssueToken{Symbol: symB, Name: "B", MinUnit: unitB, Scale: uint32(od.amt.Int64()), InitialSupply: 5, MaxSupply: 1000, Mintable: true, Owner: mc.Addr(od.who).String()})
		if out.OK {
			s.Model.(*lateModel).scaleB = od.amt.Int64()
		}
		return nil
	case "lookalike":
		s.Deliver(e, op.Name, &v1.MsgIssueToken{Symbol: unitA, Name: "lookalike", MinUnit: "x" + unitA, Scale: 18, InitialSupply: 1, MaxSupply: 10, Mintable: false, Owner: mc.Addr(od.who).String()})
		return nil
	case "switch":
		p := e.Token.GetParams(s.Ctx)
		p.EnableErc20 = od.rel == "on"
		s.Deliver(e, op.Name, &v1.MsgUpdateParams{Authority: mc.Authority().String(), Params: p})
		if post := d.ledger(e, s); !same(pre, post) {
			fs = append(fs, mc.F("C10/param-change-moved-value", "%s: ledgers changed: before %s after %s", op.Name, pre, post))
		}
		return fs
	case "park":
		s.Deliver(e, op.Name, mc.Send(mc.Addr(od.who), mc.ModuleAddr(tokentypes.ModuleName), mc.CI(unitA, amt)))
		return fs
	case "to", "from", "hook":
		src := pre.native[od.who]
		if od.kind != "to" {
			src = pre.erc[od.who]
		}
		switch od.rel {
		case "all":
			amt = sdkmath.NewIntFromBigInt(src)
		case "all+1":
			amt = sdkmath.NewIntFromBigInt(src).AddRaw(1)
		}
		if !amt.IsPositive() {
			s.Last = "err"
			return nil
		}
		d.evm.Fault = od.fault
		dn := unitA
		if od.bySymbol {
			dn = symA
		}
		var out mc.Outcome
		switch od.kind {
		case "to":
			out = s.Deliver(e, op.Name, &v1.MsgSwapToERC20{Amount: mc.CI(dn, amt), Sender: mc.Addr(od.who).String(), Receiver: eth(od.to).Hex()})
		case "from":
			out = s.Deliver(e, op.Name, &v1.MsgSwapFromERC20{WantedAmount: mc.CI(dn, amt), Sender: mc.Addr(od.who).String(), Receiver: addrOf(od.to).String()})
		default:
			// what an EVM transaction calling the contract's swapToNative does: the contract burns the caller's
			// ERC20 balance and emits SwapToNative; the token module's hook then mints natively — all atomically
			out = s.DeliverWith(e, op.Name, func(ctx sdk.Context, _ sdk.Msg) (proto.Message, error) {
				if err := d.evm.Burn(ctx, d.contract, eth(od.who), amt.BigInt()); err != nil {
					return nil, err
				}
				ev := contracts.ERC20TokenContract.ABI.Events[contracts.EventSwapToNative]
				parts := []*big.Int{amt.BigInt()}
				if od.split {
					parts = []*big.Int{big.NewInt(1), new(big.Int).Sub(amt.BigInt(), big.NewInt(1))}
				}
				receipt := &ethtypes.Receipt{}
				for _, pa := range parts {
					rcv := mc.Addr(od.to).String()
					if od.rawTo != "" {
						rcv = od.rawTo
					}
					data, err := ev.Inputs.Pack(eth(od.who), rcv, pa)
					if err != nil {
						return nil, err
					}
					receipt.Logs = append(receipt.Logs, &ethtypes.Log{Address: d.contract, Topics: []common.Hash{ev.ID}, Data: data})
				}
				// the EVM transaction the receipt belongs to: a call by the holder to the contract itself, or to
				// another contract that calls it
				callee := d.contract
				if od.via {
					callee = common.HexToAddress("0x00000000000000000000000000000000000000aa")
				}
				evmMsg := ethtypes.NewMessage(eth(od.who), &callee, 0, big.NewInt(0), 100000, big.NewInt(0), big.NewInt(0), big.NewInt(0), nil, nil, false)
				return &v1.MsgSwapFromERC20Response{}, e.Token.Hooks().PostTxProcessing(ctx, evmMsg, receipt)
			}, &v1.MsgSwapFromERC20{WantedAmount: mc.CI(unitA, amt), Sender: mc.Addr(od.who).String(), Receiver: mc.Addr(od.to).String()})
		}
		d.evm.Fault = envseam.FaultNone
		post := d.ledger(e, s)
		if !out.OK {
			if !same(pre, post) {
				fs = append(fs, mc.F("C10/failed-conversion-changed-state/"+od.kind, "%s failed (%s) but ledgers changed: before %s after %s", op.Name, out, pre, post))
			}
			return fs
		}
		if od.rawTo != "" {
			fs = append(fs, mc.F("C10/conversion-to-unpayable-receiver-accepted/hook", "%s succeeded: the ERC20 side burned %s, the receiver %q is no account of the chain; before %s after %s", op.Name, amt, od.rawTo, pre, post))
			if new(big.Int).Add(pre.supN, pre.supE).Cmp(new(big.Int).Add(post.supN, post.supE)) != 0 {
				fs = append(fs, mc.F("C10/total-supply-not-conserved/hook", "%s: native+erc20 supply %s -> %s", op.Name, new(big.Int).Add(pre.supN, pre.supE), new(big.Int).Add(post.supN, post.supE)))
			}
			return fs
		}
		// exact movement on both ledgers
		exp := d.ledger(e, s) // start from post then overwrite expected fields from pre
		exp = pre.clone()
		a := amt.BigInt()
		switch od.kind {
		case "to":
			exp.native[od.who] = new(big.Int).Sub(pre.native[od.who], a)
			exp.supN = new(big.Int).Sub(pre.supN, a)
			exp.erc[od.to] = new(big.Int).Add(pre.erc[od.to], a)
			exp.supE = new(big.Int).Add(pre.supE, a)
		default:
			exp.erc[od.who] = new(big.Int).Sub(pre.erc[od.who], a)
			exp.supE = new(big.Int).Sub(pre.supE, a)
			exp.native[od.to] = new(big.Int).Add(pre.native[od.to], a)
			exp.supN = new(big.Int).Add(pre.supN, a)
		}
		if !same(exp, post) {
			sig := "C10/conversion-moves-differ/" + od.kind
			if od.fault != "" {
				sig += "/after-evm-" + od.fault
			}
			fs = append(fs, mc.F(sig, "%s succeeded: expected %s, observed %s", op.Name, exp, post))
		}
		sumPre := new(big.Int).Add(pre.supN, pre.supE)
		sumPost := new(big.Int).Add(post.supN, post.supE)
		if sumPre.Cmp(sumPost) != 0 {
			fs = append(fs, mc.F("C10/total-supply-not-conserved/"+od.kind, "%s: native+erc20 supply %s -> %s", op.Name, sumPre, sumPost))
		}
		if od.to == "feecollector" && od.kind == "from" {
			// nothing in the property forbids it explicitly; recorded in the histogram only
		}
		return fs
	case "burn-b":
		s.Deliver(e, op.Name, &v1.MsgBurnToken{Coin: mc.CI(unitB, amt), Sender: mc.Addr(od.who).String()})
		return fs
	case "feeswap", "feeswap-rev":
		ratio := sdkmath.LegacyMustNewDecFromStr(d.V.Ratio)
		sB := int64(18)
		if d.V.LateIssue {
			sB = s.Model.(*lateModel).scaleB
		}
		paidDenom, gotDenom, sIn, sOut := unitB, unitA, sB, int64(6)
		if od.kind == "feeswap-rev" {
			paidDenom, gotDenom, sIn, sOut = unitA, unitB, 6, sB
		}
		if od.rel == "all" {
			amt = e.Bal(s.Ctx, mc.Addr(od.who), paidDenom)
		}
		if !amt.IsPositive() {
			s.Last = "err"
			return nil
		}
		rcpt := ""
		if od.to != "" {
			rcpt = addrOf(od.to).String()
		}
		msg := &v1.MsgSwapFeeToken{FeePaid: mc.CI(paidDenom, amt), Receiver: rcpt, Sender: mc.Addr(od.who).String()}
		var out mc.Outcome
		if od.router {
			out = s.Deliver(e, op.Name, msg)
		} else {
			// the registry is part of the application's wiring: built once per application instance, like the
			// keeper it is handed to, and used for every message the instance ever executes
			if d.srv == nil {
				regRatio := sdkmath.LegacyMustNewDecFromStr(d.V.Ratio)
				reg := v1.SwapRegistry{unitB: v1.SwapParams{MinUnit: unitA, Ratio: regRatio}, unitA: v1.SwapParams{MinUnit: unitB, Ratio: regRatio}}
				d.srv = tokenkeeper.NewMsgServerImpl(e.Token.WithSwapRegistry(reg))
			}
			srv := d.srv
			out = s.DeliverWith(e, op.Name, func(ctx sdk.Context, m sdk.Msg) (proto.Message, error) {
				return srv.SwapFeeToken(ctx, m.(*v1.MsgSwapFeeToken))
			}, msg)
		}
		post := d.ledger(e, s)
		if !out.OK {
			if !same(pre, post) {
				fs = append(fs, mc.F("C10/failed-conversion-changed-state/feeswap", "%s failed (%s) but ledgers changed", op.Name, out))
			}
			return fs
		}
		if od.router {
			fs = append(fs, mc.F("C10/feeswap-without-registry-accepted", "%s succeeded through the app router whose keeper has no swap registry", op.Name))
		}
		paidBal := func(l ledger, n string) *big.Int {
			if paidDenom == unitB {
				return l.natB[n]
			}
			return l.native[n]
		}
		gotBal := func(l ledger, n string) *big.Int {
			if gotDenom == unitB {
				return l.natB[n]
			}
			return l.native[n]
		}
		burned := new(big.Int).Sub(paidBal(pre, od.who), paidBal(post, od.who))
		to := od.who
		if od.to != "" {
			to = od.to
		}
		minted := new(big.Int).Sub(gotBal(post, to), gotBal(pre, to))
		if to == od.who && paidDenom == gotDenom {
			minted = new(big.Int)
		}
		cls := "ratio-1"
		if !ratio.Equal(sdkmath.LegacyOneDec()) {
			cls = "ratio-other"
		}
		if burned.Sign() < 0 || burned.Cmp(amt.BigInt()) > 0 {
			fs = append(fs, mc.F("C10/feeswap/burned-more-than-offered/"+cls, "%s: offered %s, sender's balance fell by %s", op.Name, amt, burned))
		}
		// supplies move by exactly burned / minted
		var dSupPaid, dSupGot *big.Int
		if paidDenom == unitB {
			dSupPaid, dSupGot = new(big.Int).Sub(pre.supB, post.supB), new(big.Int).Sub(post.supN, pre.supN)
		} else {
			dSupPaid, dSupGot = new(big.Int).Sub(pre.supN, post.supN), new(big.Int).Sub(post.supB, pre.supB)
		}
		if dSupPaid.Cmp(burned) != 0 || dSupGot.Cmp(minted) != 0 {
			fs = append(fs, mc.F("C10/feeswap/supply-moves-differ/"+cls, "%s: sender -%s / supply -%s ; recipient +%s / supply +%s", op.Name, burned, dSupPaid, minted, dSupGot))
		}
		if resp, ok := out.Responses[0].(*v1.MsgSwapFeeTokenResponse); !ok || resp.FeeGot.Amount.BigInt().Cmp(minted) != 0 {
			fs = append(fs, mc.F("C10/feeswap/response-differs/"+cls, "%s: response %v, recipient credited %s", op.Name, out.Responses[0], minted))
		}
		fs = append(fs, worthCheck("C10/feeswap", op.Name, cls, amt.BigInt(), burned, minted, ratio, sIn, sOut)...)
		if post.natB["module"].Sign() != 0 || post.native["module"].Sign() != 0 {
			fs = append(fs, mc.F("C10/feeswap/module-account-retains-coins", "%s: token module account holds %s%s / %s%s", op.Name, post.native["module"], unitA, post.natB["module"], unitB))
		}
		return fs
	}
	panic("unknown op")
}

func (l ledger) clone() ledger {
	c := ledger{native: map[string]*big.Int{}, erc: map[string]*big.Int{}, natB: map[string]*big.Int{}, supN: new(big.Int).Set(l.supN), supE: new(big.Int).Set(l.supE), supB: new(big.Int).Set(l.supB)}
	for k, v := range l.native {
		c.native[k] = new(big.Int).Set(v)
	}
	for k, v := range l.erc {
		c.erc[k] = new(big.Int).Set(v)
	}
	for k, v := range l.natB {
		c.natB[k] = new(big.Int).Set(v)
	}
	return c
}

var ten = big.NewInt(10)

func pow10(n int64) *big.Int { return new(big.Int).Exp(ten, big.NewInt(n), nil) }

// worthCheck: 0 <= burned <= offered; minted*10^sIn <= burned*ratio*10^sOut (exact rationals); at ratio 1
// equality, and the unburned dust is worth less than one output unit.
func worthCheck(prefix, opName, cls string, offered, burned, minted *big.Int, ratio sdkmath.LegacyDec, sIn, sOut int64) []mc.Finding {
	var fs []mc.Finding
	lhs := new(big.Rat).SetInt(new(big.Int).Mul(minted, pow10(sIn)))
	r := new(big.Rat).SetFrac(ratio.BigInt(), pow10(18))
	rhs := new(big.Rat).Mul(new(big.Rat).SetInt(new(big.Int).Mul(burned, pow10(sOut))), r)
	if lhs.Cmp(rhs) > 0 {
		fs = append(fs, mc.F(prefix+"/minted-more-than-worth/"+cls, "%s: burned %s (scale %d) minted %s (scale %d) at ratio %s", opName, burned, sIn, minted, sOut, ratio))
	}
	if cls == "ratio-1" {
		if lhs.Cmp(rhs) != 0 {
			fs = append(fs, mc.F(prefix+"/not-exact-at-ratio-1", "%s: burned %s x 10^%d != minted %s x 10^%d", opName, burned, sOut, minted, sIn))
		}
		// dust = offered - burned must be unconvertible: worth less than one output unit
		dust := new(big.Int).Sub(offered, burned)
		if dust.Sign() >= 0 && new(big.Int).Mul(dust, pow10(sOut)).Cmp(pow10(sIn)) >= 0 {
			fs = append(fs, mc.F(prefix+"/convertible-amount-left-unconverted", "%s: offered %s burned %s: the remainder %s is worth at least one output unit", opName, offered, burned, dust))
		}
	}
	return fs
}

func (d *Driver) Check(e *mc.Env, s *mc.State) []mc.Finding {
	l := d.ledger(e, s)
	s.Nontrivial = l.supE.Sign() > 0 || s.Depth > 0
	return nil
}

var _ = time.Second
