package c10

import (
	"fmt"
	"math/big"
	"time"

	sdkmath "cosmossdk.io/math"

	tokentypes "mods.irisnet.org/modules/token/types"

	"verif/harness/mc"
)

// KernelPart enumerates LossLessSwap over all scale pairs 0..18, a lattice of inputs and a menu of ratios,
// against exact rational arithmetic.
func KernelPart() mc.Part {
	return mc.Part{Name: "lossless-swap-kernel", Run: func(tier string, known []mc.KnownFinding, dl time.Time) mc.PartReport {
		start := time.Now()
		N := int64(120)
		if tier == "thorough" {
			N = 400
		}
		var inputs []*big.Int
		for v := int64(0); v <= N; v++ {
			inputs = append(inputs, big.NewInt(v))
		}
		for k := int64(1); k <= 30; k++ {
			for _, dd := range []int64{-1, 0, 1, 5} {
				inputs = append(inputs, new(big.Int).Add(pow10(k), big.NewInt(dd)))
			}
			inputs = append(inputs, new(big.Int).Mul(big.NewInt(26), pow10(k)), new(big.Int).Mul(big.NewInt(25), pow10(k)))
		}
		for _, k := range []uint{63, 64, 96, 127, 128} {
			for _, dd := range []int64{-1, 0, 1} {
				inputs = append(inputs, new(big.Int).Add(new(big.Int).Lsh(big.NewInt(1), k), big.NewInt(dd)))
			}
		}
		ratios := []string{"1", "0.5", "2", "0.333333333333333333", "0.000000000000000001", "3.7", "999999999.999999999600000000", "1000000000000000000"}
		rep := mc.PartReport{Exhaustive: true, Bounds: map[string]interface{}{"scales": "all pairs 0..18", "inputs": len(inputs), "ratios": ratios}}
		seen := map[string]bool{}
		var evals, nontriv, panics int64
		for _, rs := range ratios {
			ratio, err := sdkmath.LegacyNewDecFromStr(rs)
			if err != nil {
				ratio = sdkmath.LegacyMustNewDecFromStr("999999999.9999999996")
			}
			cls := "ratio-other"
			if ratio.Equal(sdkmath.LegacyOneDec()) {
				cls = "ratio-1"
			}
			for sIn := int64(0); sIn <= 18; sIn++ {
				for sOut := int64(0); sOut <= 18; sOut++ {
					for _, in := range inputs {
						func() {
							defer func() {
								if r := recover(); r != nil {
									panics++ // overflow of the 315-bit decimal: the message fails, nothing is converted
								}
							}()
							burnt, minted := tokentypes.LossLessSwap(sdkmath.NewIntFromBigInt(in), ratio, uint32(sIn), uint32(sOut))
							evals++
							if minted.IsPositive() {
								nontriv++
							}
							var fs []mc.Finding
							if burnt.IsNegative() || burnt.BigInt().Cmp(in) > 0 {
								fs = append(fs, mc.F("C10/kernel/burned-outside-offer/"+cls, "LossLessSwap(%s,%s,%d,%d) burns %s", in, ratio, sIn, sOut, burnt))
							}
							if minted.IsNegative() {
								fs = append(fs, mc.F("C10/kernel/negative-mint/"+cls, "LossLessSwap(%s,%s,%d,%d) mints %s", in, ratio, sIn, sOut, minted))
							}
							fs = append(fs, worthCheck("C10/kernel", fmt.Sprintf("LossLessSwap(%s,%s,%d,%d)", in, ratio, sIn, sOut), cls, in, burnt.BigInt(), minted.BigInt(), ratio, sIn, sOut)...)
							for _, f := range fs {
								if !seen[f.Sig] {
									seen[f.Sig] = true
									rep.Violations = append(rep.Violations, mc.Violation{Finding: f})
								}
							}
						}()
					}
				}
			}
		}
		rep.Evaluations, rep.Nontrivial = evals, nontriv
		rep.Bounds["overflow_panics"] = panics
		rep.Samples = []interface{}{"LossLessSwap(2600000000000, 1, 18, 6)", "LossLessSwap(2^128+1, 0.333333333333333333, 0, 18)"}
		rep.Rule = "every (input, ratio, scale_in, scale_out) of the lattice; non-trivial = positive minted amount"
		rep.WallS = time.Since(start).Seconds()
		return rep
	}}
}

const rule = "state after at least one conversion attempt; distinct by canonical hash of token+bank+EVM-ledger stores"

// Parts of C10.
func Parts() []mc.Part {
	return []mc.Part{
		KernelPart(),
		mc.ExplorePart("erc20", New(Variant{Name: "erc20", Ratio: "1"}), 6, 8, false, rule),
		// the contract of the (scale 6) token is deployed with 3 decimals: conversions still move exactly the converted amount
		mc.ExplorePart("erc20-contract-decimals-3", New(Variant{Name: "erc20-contract-decimals-3", Ratio: "1", ContractScale: 3}), 4, 5, false, rule),
		mc.ExplorePart("feeswap-ratio-1", New(Variant{Name: "feeswap-ratio-1", FeeSwap: true, Ratio: "1"}), 4, 5, false, rule),
		mc.ExplorePart("feeswap-near-max-supply", New(Variant{Name: "feeswap-near-max-supply", FeeSwap: true, Ratio: "1", NearCap: true}), 3, 4, false, rule),
		mc.ExplorePart("feeswap-late-issue", New(Variant{Name: "feeswap-late-issue", FeeSwap: true, Ratio: "1", LateIssue: true}), 4, 5, false, rule),
		mc.ExplorePart("feeswap-ratio-0.5", New(Variant{Name: "feeswap-ratio-0.5", FeeSwap: true, Ratio: "0.5"}), 4, 5, false, rule),
		mc.ExplorePart("feeswap-ratio-third", New(Variant{Name: "feeswap-ratio-third", FeeSwap: true, Ratio: "0.333333333333333333"}), 4, 5, false, rule),
	}
}
