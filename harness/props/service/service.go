// Package service drives the service module for C07 (deposits and fees conserved) and C08 (one outcome
// per request; contexts follow their schedule; callbacks).
package service

import (
	"bytes"
	"encoding/hex"
	"fmt"
	"math/big"
	"sort"
	"strings"
	"time"

	sdkmath "cosmossdk.io/math"
	tmbytes "github.com/cometbft/cometbft/libs/bytes"
	sdk "github.com/cosmos/cosmos-sdk/types"
	"github.com/cosmos/gogoproto/proto"

	gogotypes "github.com/cosmos/gogoproto/types"
	svctypes "mods.irisnet.org/modules/service/types"

	"verif/harness/mc"
)

const (
	svc     = "svc"
	denom   = "stake"
	cbName  = "verifcb"
	input   = `{"header":{},"body":{}}`
	resOK   = `{"code":200,"message":""}`
	resErr  = `{"code":400,"message":"no"}`
	output  = `{"header":{},"body":{}}`
	schemas = `{"input":{"type":"object"},"output":{"type":"object"}}`
)

// Variant of the exploration.
type Variant struct {
	Name string
	Mode string // "C07" | "C08"
	Tmpl []string
	// Binding ops (update/disable/enable/refund-deposit) and the long time jump
	BindingOps bool
	// Context control ops (pause/start/kill/update by consumer and stranger), bad responses
	ControlOps bool
	Withdraw   bool
	// GovOps: governance lowers the maximum request timeout below the timeout of contexts that already exist
	GovOps bool
	// InitialHeight of the chain (0 = 1)
	InitialHeight int64
}

type provider struct {
	name, owner, pricing string
	deposit              int64
	qos                  uint64
}

// providers: P1 and P3 deposit twice the minimum (price x 1000), so that a provider that was slashed for an
// expired request stays available for the following batches; P2 deposits exactly the minimum, so that its first
// slash disables the binding and a second expiry in the same block meets a binding that is already unavailable
func providers() []provider {
	promoStart := mc.GenesisTime.Add(-time.Hour).Format(time.RFC3339)
	promoEnd := mc.GenesisTime.Add(240 * time.Hour).Format(time.RFC3339)
	return []provider{
		{"P1", "O1", fmt.Sprintf(`{"price":"100stake","promotions_by_time":[{"start_time":"%s","end_time":"%s","discount":"0.7"}]}`, promoStart, promoEnd), 200000, 2},
		{"P2", "O1", `{"price":"100stake","promotions_by_volume":[{"volume":1,"discount":"0.5"}]}`, 100000, 2},
		{"P3", "O2", `{"price":"61stake"}`, 122000, 4},
	}
}

type tmpl struct {
	name      string
	consumer  string
	providers []string
	timeout   int64
	repeated  bool
	freq      uint64
	total     int64
	module    bool
	threshold uint32
}

var tmpls = map[string]tmpl{
	"one":  {name: "one", consumer: "U", providers: []string{"P1", "P2"}, timeout: 2},
	"rep":  {name: "rep", consumer: "U", providers: []string{"P1", "P3"}, timeout: 4, repeated: true, freq: 4, total: 2},
	"poor": {name: "poor", consumer: "V", providers: []string{"P2"}, timeout: 2, repeated: true, freq: 3, total: -1},
	// a second context of the poor consumer: together with "poor" it costs more than V holds, so that when both
	// are due in one block the order in which the end-blocker takes them decides which one is served
	"poor2": {name: "poor2", consumer: "V", providers: []string{"P3"}, timeout: 4, repeated: true, freq: 5, total: -1},
	// a repeated context whose total is a single batch: everything that happens after that batch happens at the
	// boundary "below its total" (pause / start around the only batch's expiry)
	"rep1": {name: "rep1", consumer: "U", providers: []string{"P1"}, timeout: 2, repeated: true, freq: 2, total: 1},
	// the poor consumer (130) addresses two providers whose discounted prices add up to 131: he can pay for the
	// first request of a batch but not for the batch
	"poorpair": {name: "poorpair", consumer: "V", providers: []string{"P1", "P3"}, timeout: 4, repeated: true, freq: 5, total: -1},
	// a module-owned context that is satisfied by one of its two providers (threshold below the provider count):
	// the other request stays open until it is answered or expires
	"mod1": {name: "mod1", consumer: "U", providers: []string{"P1", "P3"}, timeout: 4, repeated: true, freq: 4, total: 2, module: true, threshold: 1},
	// a repeated context whose frequency exceeds its timeout: between the expiry of one batch and the start of the
	// next the context waits in the new-batch queue only
	"gap": {name: "gap", consumer: "U", providers: []string{"P1"}, timeout: 2, repeated: true, freq: 4, total: 3},
	"mod": {name: "mod", consumer: "U", providers: []string{"P1", "P2"}, timeout: 2, repeated: true, freq: 2, total: 2, module: true, threshold: 2},
}

type mctx struct {
	ID        string
	Tmpl      string
	Created   int64
	LastBatch int64 // height of the last observed batch start (0 = none yet)
	Batches   uint64
	Disturbed bool // a scheduled step (batch expiry or next batch) fell into a paused span: the next batch's height is not asserted
	Modified  bool // settings updated by the consumer: the property's schedule clause no longer applies
	Gone      bool
	// per batch: number of responses carrying an output (module contexts)
	Outputs   int
	Callbacks int // callbacks seen for the current batch
}

type mreq struct {
	ID     string
	Ctx    string
	Status int // 0 active, 1 answered, 2 expired
}

type model struct {
	ctxs []mctx
	reqs []mreq
}

func (m *model) Clone() mc.Model {
	return &model{ctxs: append([]mctx{}, m.ctxs...), reqs: append([]mreq{}, m.reqs...)}
}

func (m *model) Canon() []byte {
	var b bytes.Buffer
	for _, c := range m.ctxs {
		fmt.Fprintf(&b, "%s|%s|%d|%d|%d|%v|%v|%v|%d|%d;", c.ID, c.Tmpl, c.Created, c.LastBatch, c.Batches, c.Disturbed, c.Modified, c.Gone, c.Outputs, c.Callbacks)
	}
	rs := append([]mreq{}, m.reqs...)
	sort.Slice(rs, func(i, j int) bool { return rs[i].ID < rs[j].ID })
	for _, r := range rs {
		fmt.Fprintf(&b, "%s:%d;", r.ID, r.Status)
	}
	return b.Bytes()
}

func (m *model) ctx(id string) *mctx {
	for i := range m.ctxs {
		if m.ctxs[i].ID == id {
			return &m.ctxs[i]
		}
	}
	return nil
}

func (m *model) req(id string) *mreq {
	for i := range m.reqs {
		if m.reqs[i].ID == id {
			return &m.reqs[i]
		}
	}
	return nil
}

type opData struct {
	kind string
	tmpl string
	req  string
	by   string
	ctx  string
	prov string
	n    int64
	dt   time.Duration
	out  bool
}

// Driver implements mc.Driver.
type Driver struct{ V Variant }

func New(v Variant) func() (*mc.Env, mc.Driver) {
	return func() (*mc.Env, mc.Driver) {
		rich := sdk.NewCoins(mc.C(denom, 10_000_000))
		e := mc.NewEnv(mc.EnvOptions{
			Balances: map[string]sdk.Coins{"U": rich, "V": sdk.NewCoins(mc.C(denom, 130)), "O1": rich, "O2": rich, "X": rich,
				"P1": nil, "P2": nil, "P3": nil, "W": nil},
			BlockModules:  []string{"service"},
			InitialHeight: v.InitialHeight,
		})
		d := &Driver{V: v}
		// module callbacks (shared maps of the real keeper): they only emit events, which the harness counts
		_ = e.Service.RegisterResponseCallback(cbName, func(ctx sdk.Context, id tmbytes.HexBytes, outs []string, err error) {
			ok := "1"
			if err != nil {
				ok = "0"
			}
			ctx.EventManager().EmitEvent(sdk.NewEvent("verifcb_response", sdk.NewAttribute("ctx", id.String()),
				sdk.NewAttribute("outputs", fmt.Sprint(len(outs))), sdk.NewAttribute("ok", ok)))
		})
		_ = e.Service.RegisterStateCallback(cbName, func(ctx sdk.Context, id tmbytes.HexBytes, cause string) {
			ctx.EventManager().EmitEvent(sdk.NewEvent("verifcb_state", sdk.NewAttribute("ctx", id.String()), sdk.NewAttribute("cause", cause)))
		})
		return e, d
	}
}

func (d *Driver) ID() string       { return d.V.Mode + "/" + d.V.Name }
func (d *Driver) Stores() []string { return []string{"service", "bank"} }

func must(out mc.Outcome, what string) {
	if !out.OK {
		panic(fmt.Sprintf("fixture step %s failed: %s", what, out))
	}
}

func (d *Driver) Init(e *mc.Env) *mc.State {
	s := &mc.State{Ctx: mc.Branch(e.Root), Model: &model{}}
	must(s.Deliver(e, "fx-define", &svctypes.MsgDefineService{Name: svc, Description: "d", Tags: []string{"t"}, Author: mc.Addr("U").String(), AuthorDescription: "a", Schemas: schemas}), "define")
	for _, p := range providers() {
		must(s.Deliver(e, "fx-bind-"+p.name, &svctypes.MsgBindService{ServiceName: svc, Provider: mc.Addr(p.name).String(),
			Deposit: sdk.NewCoins(mc.C(denom, p.deposit)), Pricing: p.pricing, QoS: p.qos, Options: "{}", Owner: mc.Addr(p.owner).String()}), "bind "+p.name)
	}
	must(s.Deliver(e, "fx-withdraw-addr", &svctypes.MsgSetWithdrawAddress{Owner: mc.Addr("O1").String(), WithdrawAddress: mc.Addr("W").String()}), "withdraw address")
	return s
}

// ---------------------------------------------------------------- observation

type reqObs struct {
	ID               string
	Ctx              string
	Batch            uint64
	Provider         string
	Consumer         string
	Fee              sdk.Coins
	ReqHeight        int64
	ExpirationHeight int64
	Active           bool
}

type obs struct {
	reqs     []reqObs
	ctxs     map[string]svctypes.RequestContext
	deposits map[string]sdk.Coins // provider -> binding deposit
	avail    map[string]bool
	earned   map[string]sdk.Coins // provider -> earned fees
	ownerEar map[string]sdk.Coins
}

func nameOf(addr string) string {
	for _, n := range []string{"U", "V", "O1", "O2", "X", "P1", "P2", "P3", "W"} {
		if mc.Addr(n).String() == addr {
			return n
		}
	}
	return addr
}

func (d *Driver) observe(e *mc.Env, s *mc.State) obs {
	o := obs{ctxs: map[string]svctypes.RequestContext{}, deposits: map[string]sdk.Coins{}, avail: map[string]bool{}, earned: map[string]sdk.Coins{}, ownerEar: map[string]sdk.Coins{}}
	e.Service.IterateRequestContexts(s.Ctx, func(id tmbytes.HexBytes, rc svctypes.RequestContext) bool {
		o.ctxs[strings.ToUpper(hex.EncodeToString(id))] = rc
		return false
	})
	e.Service.IterateRequests(s.Ctx, func(id tmbytes.HexBytes, cr svctypes.CompactRequest) bool {
		r, found := e.Service.GetRequest(s.Ctx, id)
		cons := ""
		if found {
			cons = nameOf(r.Consumer)
		}
		o.reqs = append(o.reqs, reqObs{ID: strings.ToUpper(hex.EncodeToString(id)), Ctx: strings.ToUpper(cr.RequestContextId), Batch: cr.RequestContextBatchCounter,
			Provider: nameOf(cr.Provider), Consumer: cons, Fee: cr.ServiceFee, ReqHeight: cr.RequestHeight, ExpirationHeight: cr.ExpirationHeight,
			Active: e.Service.IsRequestActive(s.Ctx, id)})
		return false
	})
	sort.Slice(o.reqs, func(i, j int) bool { return o.reqs[i].ID < o.reqs[j].ID })
	for _, p := range providers() {
		b, found := e.Service.GetServiceBinding(s.Ctx, svc, mc.Addr(p.name))
		if found {
			o.deposits[p.name] = b.Deposit
			o.avail[p.name] = b.Available
		}
		f, _ := e.Service.GetEarnedFees(s.Ctx, mc.Addr(p.name))
		o.earned[p.name] = f
	}
	for _, ow := range []string{"O1", "O2"} {
		f, _ := e.Service.GetOwnerEarnedFees(s.Ctx, mc.Addr(ow))
		o.ownerEar[ow] = f
	}
	return o
}

func (d *Driver) universe() mc.Universe {
	u := mc.Universe{"deposit-escrow": mc.ModuleAddr(svctypes.DepositAccName), "request-escrow": mc.ModuleAddr(svctypes.RequestAccName),
		"fee-pool": mc.ModuleAddr(svctypes.FeeCollectorName)}
	for _, n := range []string{"U", "V", "O1", "O2", "X", "P1", "P2", "P3", "W"} {
		u[n] = mc.Addr(n)
	}
	return u
}

func ownerOf(p string) string {
	for _, x := range providers() {
		if x.name == p {
			return x.owner
		}
	}
	return ""
}

// ---------------------------------------------------------------- alphabet

func (d *Driver) Enabled(e *mc.Env, s *mc.State) []mc.Op {
	m := s.Model.(*model)
	o := d.observe(e, s)
	var ops []mc.Op
	add := func(name string, od opData) { ops = append(ops, mc.Op{Name: name, Data: od}) }
	add("block", opData{kind: "block", dt: 5 * time.Second})
	used := map[string]bool{}
	for _, c := range m.ctxs {
		used[c.Tmpl] = true
	}
	for _, t := range d.V.Tmpl {
		if !used[t] {
			add("call("+t+")", opData{kind: "call", tmpl: t})
		}
	}
	// responses: requests are named by context template, batch and provider so that names are stable
	for _, r := range o.reqs {
		mcx := m.ctx(r.Ctx)
		if mcx == nil {
			continue
		}
		label := fmt.Sprintf("%s.b%d.%s", mcx.Tmpl, r.Batch, r.Provider)
		if r.Active {
			add("respond("+label+")", opData{kind: "respond", req: r.ID, by: r.Provider, out: true})
			if tmpls[mcx.Tmpl].module {
				add("respond-noout("+label+")", opData{kind: "respond", req: r.ID, by: r.Provider, out: false})
			}
		}
		if d.V.ControlOps {
			other := "P3"
			if r.Provider == "P3" {
				other = "P1"
			}
			if r.Active {
				add("!respond-by-other("+label+")", opData{kind: "respond", req: r.ID, by: other, out: true})
				add("!respond-by-stranger("+label+")", opData{kind: "respond", req: r.ID, by: "X", out: true})
			} else {
				add("!respond-again("+label+")", opData{kind: "respond", req: r.ID, by: r.Provider, out: true})
			}
		}
	}
	if d.V.GovOps && e.Service.GetParams(s.Ctx).MaxRequestTimeout > 2 {
		add("gov:max-request-timeout(2)", opData{kind: "gov-timeout", n: 2})
	}
	// jump to the next due height
	if h := d.nextDue(e, s); h > s.Ctx.BlockHeight()+1 {
		add("jump-to-due", opData{kind: "jump", n: h - s.Ctx.BlockHeight()})
	}
	if d.V.Withdraw {
		add("withdraw(O1,P1)", opData{kind: "withdraw", by: "O1", prov: "P1"})
		add("withdraw(O1,P2)", opData{kind: "withdraw", by: "O1", prov: "P2"})
		add("withdraw(O2,P3)", opData{kind: "withdraw", by: "O2", prov: "P3"})
		add("!withdraw(X,P1)", opData{kind: "withdraw", by: "X", prov: "P1"})
	}
	if d.V.BindingOps {
		add("update(P2,+7)", opData{kind: "update", prov: "P2", n: 7})
		add("disable(P2)", opData{kind: "disable", prov: "P2"})
		add("enable(P2,+3)", opData{kind: "enable", prov: "P2", n: 3})
		add("refund-deposit(P2)", opData{kind: "refund", prov: "P2"})
		add("block(21d)", opData{kind: "block", dt: 21 * 24 * time.Hour})
	}
	if d.V.ControlOps {
		for _, c := range m.ctxs {
			if c.Gone || !tmpls[c.Tmpl].repeated || tmpls[c.Tmpl].module {
				continue
			}
			for _, by := range []string{tmpls[c.Tmpl].consumer, "X"} {
				bang := ""
				if by == "X" {
					bang = "!"
				}
				add(fmt.Sprintf("%spause(%s,%s)", bang, c.Tmpl, by), opData{kind: "pause", ctx: c.ID, by: by})
				add(fmt.Sprintf("%sstart(%s,%s)", bang, c.Tmpl, by), opData{kind: "start", ctx: c.ID, by: by})
				add(fmt.Sprintf("%skill(%s,%s)", bang, c.Tmpl, by), opData{kind: "kill", ctx: c.ID, by: by})
			}
			add(fmt.Sprintf("!update-freq(%s,X)", c.Tmpl), opData{kind: "updatectx", ctx: c.ID, by: "X"})
			add(fmt.Sprintf("update-freq(%s,%s)", c.Tmpl, tmpls[c.Tmpl].consumer), opData{kind: "updatectx", ctx: c.ID, by: tmpls[c.Tmpl].consumer})
			add(fmt.Sprintf("update-timeout(%s,%s)", c.Tmpl, tmpls[c.Tmpl].consumer), opData{kind: "updatectx", ctx: c.ID, by: tmpls[c.Tmpl].consumer, n: int64(tmpls[c.Tmpl].freq) + 2})
		}
	}
	return ops
}

// nextDue scans the service store's two time-bound queues for the smallest height >= current.
func (d *Driver) nextDue(e *mc.Env, s *mc.State) int64 {
	best := int64(0)
	for _, kv := range mc.DumpStore(s.Ctx, e, "service") {
		if len(kv.K) >= 9 && (kv.K[0] == 0x09 || kv.K[0] == 0x10) {
			h := int64(sdk.BigEndianToUint64(kv.K[1:9]))
			if h >= s.Ctx.BlockHeight() && (best == 0 || h < best) {
				best = h
			}
		}
	}
	return best
}

// ---------------------------------------------------------------- apply

var adoptC13 = map[string]string{
	"C08/batch-off-schedule/":          "C13/service/due-processing/batch-off-schedule/",
	"C08/expired-request-still-active": "C13/service/due-processing/expired-request-still-active",
	"C08/second-outcome":               "C13/service/due-processing/second-outcome",
	"C08/several-batches-in-one-block": "C13/service/due-processing/several-batches-in-one-block",
	"C08/one-shot-not-removed":         "C13/service/due-processing/one-shot-not-removed",
}

func (d *Driver) sel(fs []mc.Finding) []mc.Finding {
	if d.V.Mode == "C13" {
		return mc.Select(fs, "C13", adoptC13)
	}
	return mc.Select(fs, d.V.Mode, nil)
}

func (d *Driver) Apply(e *mc.Env, s *mc.State, op mc.Op) []mc.Finding {
	return d.sel(d.apply(e, s, op))
}

// Hygiene compares the raw new-batch and batch-expiration queues (and their per-context height markers)
// and the active-request markers with the contexts and requests: entries refer to existing contexts, entry
// and marker agree, nothing is queued at a height whose end-block has already run, a running context always
// has something scheduled, and no request stays active past its expiration height.
func Hygiene(e *mc.Env, s *mc.State) []mc.Finding {
	var fs []mc.Finding
	h := s.Ctx.BlockHeight()
	scheduled := map[string]int{}
	for _, q := range []struct {
		name   string
		prefix byte
		marker byte
	}{{"new-batch", 0x10, 0x12}, {"batch-expiration", 0x09, 0x11}} {
		markers := map[string]int64{}
		for _, kv := range mc.DumpStore(s.Ctx, e, "service") {
			if len(kv.K) > 1 && kv.K[0] == q.marker {
				var v gogotypes.Int64Value
				e.Cdc.MustUnmarshal(kv.V, &v)
				markers[strings.ToUpper(hex.EncodeToString(kv.K[1:]))] = v.Value
			}
		}
		seen := map[string]bool{}
		for _, en := range mc.QueueEntries(s.Ctx, e, "service", q.prefix) {
			id := strings.ToUpper(hex.EncodeToString(en.Rest))
			seen[id] = true
			scheduled[id]++
			if _, found := e.Service.GetRequestContext(s.Ctx, en.Rest); !found {
				fs = append(fs, mc.F("C13/queue/service/"+q.name+"/entry-without-context", "entry at height %d for a context that does not exist", en.Height))
			}
			if en.Height < h {
				fs = append(fs, mc.F("C13/queue/service/"+q.name+"/entry-in-the-past", "entry at height %d still present in block %d (end-block of that height has run)", en.Height, h))
			}
			if mh, ok := markers[id]; !ok || mh != en.Height {
				fs = append(fs, mc.F("C13/queue/service/"+q.name+"/marker-disagrees", "entry at height %d, height marker %v (present=%v)", en.Height, mh, ok))
			}
		}
		for id, mh := range markers {
			if !seen[id] {
				fs = append(fs, mc.F("C13/queue/service/"+q.name+"/marker-without-entry", "height marker %d for context without queue entry", mh))
			}
		}
	}
	e.Service.IterateRequestContexts(s.Ctx, func(id tmbytes.HexBytes, rc svctypes.RequestContext) bool {
		if rc.State == svctypes.RUNNING && scheduled[strings.ToUpper(hex.EncodeToString(id))] == 0 {
			fs = append(fs, mc.F("C13/queue/service/running-context-without-entry", "running context (repeated=%v, batch %d, batch state %s) has neither a new-batch nor a batch-expiration entry", rc.Repeated, rc.BatchCounter, rc.BatchState))
		}
		return false
	})
	e.Service.IterateRequests(s.Ctx, func(id tmbytes.HexBytes, cr svctypes.CompactRequest) bool {
		if e.Service.IsRequestActive(s.Ctx, id) && cr.ExpirationHeight < h {
			fs = append(fs, mc.F("C13/queue/service/active-request-past-expiry", "request expiring at %d is still active in block %d", cr.ExpirationHeight, h))
		}
		return false
	})
	return fs
}

func coinsBig(c sdk.Coins) *big.Int { return c.AmountOf(denom).BigInt() }

func (d *Driver) apply(e *mc.Env, s *mc.State, op mc.Op) []mc.Finding {
	od := op.Data.(opData)
	m := s.Model.(*model)
	var fs []mc.Finding
	u := d.universe()
	switch od.kind {
	case "block":
		return d.oneBlock(e, s, od.dt)
	case "jump":
		for i := int64(0); i < od.n; i++ {
			fs = append(fs, d.oneBlock(e, s, 5*time.Second)...)
		}
		return fs
	case "call":
		t := tmpls[od.tmpl]
		var pds []string
		var pda []sdk.AccAddress
		for _, p := range t.providers {
			pds = append(pds, mc.Addr(p).String())
			pda = append(pda, mc.Addr(p))
		}
		msg := &svctypes.MsgCallService{ServiceName: svc, Providers: pds, Consumer: mc.Addr(t.consumer).String(), Input: input,
			ServiceFeeCap: sdk.NewCoins(mc.C(denom, 100)), Timeout: t.timeout, Repeated: t.repeated, RepeatedFrequency: t.freq, RepeatedTotal: t.total}
		var out mc.Outcome
		id := ""
		if t.module {
			// contexts of other modules are created through the keeper API inside a transaction
			out = s.DeliverWith(e, op.Name, func(ctx sdk.Context, _ sdk.Msg) (protoMsg, error) {
				cid, err := e.Service.CreateRequestContext(ctx, svc, pda, mc.Addr(t.consumer), input, sdk.NewCoins(mc.C(denom, 100)), t.timeout,
					t.repeated, t.freq, t.total, svctypes.RUNNING, t.threshold, cbName)
				if err != nil {
					return nil, err
				}
				return &svctypes.MsgCallServiceResponse{RequestContextId: cid.String()}, nil
			}, msg)
		} else {
			out = s.Deliver(e, op.Name, msg)
		}
		if !out.OK {
			return fs
		}
		if r, ok := out.Responses[0].(*svctypes.MsgCallServiceResponse); ok {
			id = strings.ToUpper(r.RequestContextId)
		}
		m.ctxs = append(m.ctxs, mctx{ID: id, Tmpl: od.tmpl, Created: s.Ctx.BlockHeight()})
		return fs
	case "respond":
		pre := d.observe(e, s)
		var r *reqObs
		for i := range pre.reqs {
			if pre.reqs[i].ID == od.req {
				r = &pre.reqs[i]
			}
		}
		before := e.Snapshot(s.Ctx, u)
		res, outp := resOK, output
		if !od.out {
			res, outp = resErr, ""
		}
		out := s.Deliver(e, op.Name, &svctypes.MsgRespondService{RequestId: od.req, Provider: mc.Addr(od.by).String(), Result: res, Output: outp})
		mr := m.req(od.req)
		legit := r != nil && r.Active && od.by == r.Provider && mr != nil && mr.Status == 0
		if !out.OK {
			if legit {
				fs = append(fs, mc.F("C08/valid-response-rejected", "%s by the addressed provider on an active request rejected: %s", op.Name, out))
			}
			return fs
		}
		post := d.observe(e, s)
		got := mc.Diff(before, e.Snapshot(s.Ctx, u))
		if !legit {
			why := "not-active"
			if r != nil && od.by != r.Provider {
				why = "foreign-provider"
			}
			fs = append(fs, mc.F("C08/invalid-response-accepted/"+why, "%s accepted; moved [%s]", op.Name, got))
			return fs
		}
		mr.Status = 1
		// C07: fee goes to the provider minus tax, tax to the fee pool
		tax := sdkmath.LegacyNewDecFromInt(r.Fee.AmountOf(denom)).Mul(e.Service.ServiceFeeTax(s.Ctx)).TruncateInt().BigInt()
		exp := mc.Expect().Add("request-escrow", denom, new(big.Int).Neg(tax)).Add("fee-pool", denom, tax)
		if !got.Equal(exp) {
			fs = append(fs, mc.F("C07/respond-settlement-differs/bank", "%s (fee %s) moved [%s], expected [%s]", op.Name, r.Fee, got, exp))
		}
		net := new(big.Int).Sub(coinsBig(r.Fee), tax)
		de := new(big.Int).Sub(coinsBig(post.earned[r.Provider]), coinsBig(pre.earned[r.Provider]))
		do := new(big.Int).Sub(coinsBig(post.ownerEar[ownerOf(r.Provider)]), coinsBig(pre.ownerEar[ownerOf(r.Provider)]))
		if de.Cmp(net) != 0 || do.Cmp(net) != 0 {
			fs = append(fs, mc.F("C07/respond-settlement-differs/earned", "%s: fee %s tax %s: provider earned +%s, owner earned +%s, expected +%s", op.Name, r.Fee, tax, de, do, net))
		}
		// C08: callback bookkeeping for module contexts
		if c := m.ctx(r.Ctx); c != nil && tmpls[c.Tmpl].module {
			if od.out {
				c.Outputs++
			}
			fs = append(fs, d.countCallbacks(m, out.Events, pre, post)...)
		}
		return fs
	case "withdraw":
		pre := d.observe(e, s)
		before := e.Snapshot(s.Ctx, u)
		out := s.Deliver(e, op.Name, &svctypes.MsgWithdrawEarnedFees{Owner: mc.Addr(od.by).String(), Provider: mc.Addr(od.prov).String()})
		if !out.OK {
			return fs
		}
		post := d.observe(e, s)
		got := mc.Diff(before, e.Snapshot(s.Ctx, u))
		if od.by != ownerOf(od.prov) {
			fs = append(fs, mc.F("C07/withdraw-by-non-owner-accepted", "%s accepted; moved [%s]", op.Name, got))
			return fs
		}
		amt := coinsBig(pre.earned[od.prov])
		dest := od.by
		if od.by == "O1" {
			dest = "W"
		}
		exp := mc.Expect().Add("request-escrow", denom, new(big.Int).Neg(amt)).Add(dest, denom, amt)
		if !got.Equal(exp) {
			fs = append(fs, mc.F("C07/withdraw-settlement-differs/bank", "%s moved [%s], expected [%s] (provider had earned %s)", op.Name, got, exp, pre.earned[od.prov]))
		}
		if !post.earned[od.prov].IsZero() {
			fs = append(fs, mc.F("C07/withdraw-settlement-differs/earned-not-cleared", "%s: provider tally still %s", op.Name, post.earned[od.prov]))
		}
		do := new(big.Int).Sub(coinsBig(pre.ownerEar[od.by]), coinsBig(post.ownerEar[od.by]))
		if do.Cmp(amt) != 0 {
			fs = append(fs, mc.F("C07/withdraw-settlement-differs/owner-tally", "%s: owner tally fell by %s, withdrawn %s", op.Name, do, amt))
		}
		return fs
	case "update", "disable", "enable", "refund":
		pre := d.observe(e, s)
		before := e.Snapshot(s.Ctx, u)
		ow := ownerOf(od.prov)
		var msg sdk.Msg
		dep := sdk.NewCoins()
		if od.n > 0 {
			dep = sdk.NewCoins(mc.C(denom, od.n))
		}
		switch od.kind {
		case "update":
			msg = &svctypes.MsgUpdateServiceBinding{ServiceName: svc, Provider: mc.Addr(od.prov).String(), Deposit: dep, Owner: mc.Addr(ow).String()}
		case "disable":
			msg = &svctypes.MsgDisableServiceBinding{ServiceName: svc, Provider: mc.Addr(od.prov).String(), Owner: mc.Addr(ow).String()}
		case "enable":
			msg = &svctypes.MsgEnableServiceBinding{ServiceName: svc, Provider: mc.Addr(od.prov).String(), Deposit: dep, Owner: mc.Addr(ow).String()}
		default:
			msg = &svctypes.MsgRefundServiceDeposit{ServiceName: svc, Provider: mc.Addr(od.prov).String(), Owner: mc.Addr(ow).String()}
		}
		out := s.Deliver(e, op.Name, msg)
		if !out.OK {
			return fs
		}
		post := d.observe(e, s)
		got := mc.Diff(before, e.Snapshot(s.Ctx, u))
		exp := mc.Expect()
		wantDep := new(big.Int).Set(coinsBig(pre.deposits[od.prov]))
		switch od.kind {
		case "update", "enable":
			exp.Add(ow, denom, big.NewInt(-od.n)).Add("deposit-escrow", denom, big.NewInt(od.n))
			wantDep.Add(wantDep, big.NewInt(od.n))
		case "refund":
			exp.Add(ow, denom, wantDep).Add("deposit-escrow", denom, new(big.Int).Neg(wantDep))
			wantDep = new(big.Int)
		}
		if !got.Equal(exp) {
			fs = append(fs, mc.F("C07/deposit-move-differs/"+od.kind+"/bank", "%s moved [%s], expected [%s]", op.Name, got, exp))
		}
		if coinsBig(post.deposits[od.prov]).Cmp(wantDep) != 0 {
			fs = append(fs, mc.F("C07/deposit-move-differs/"+od.kind+"/recorded", "%s: recorded deposit %s, expected %s", op.Name, post.deposits[od.prov], wantDep))
		}
		return fs
	case "gov-timeout":
		// a parameter change does not touch existing contexts: their requests keep the context's own timeout
		p := e.Service.GetParams(s.Ctx)
		p.MaxRequestTimeout = od.n
		s.Deliver(e, op.Name, &svctypes.MsgUpdateParams{Authority: mc.Authority().String(), Params: p})
		return fs
	case "pause", "start", "kill", "updatectx":
		c := m.ctx(od.ctx)
		t := tmpls[c.Tmpl]
		var msg sdk.Msg
		switch od.kind {
		case "pause":
			msg = &svctypes.MsgPauseRequestContext{RequestContextId: od.ctx, Consumer: mc.Addr(od.by).String()}
		case "start":
			msg = &svctypes.MsgStartRequestContext{RequestContextId: od.ctx, Consumer: mc.Addr(od.by).String()}
		case "kill":
			msg = &svctypes.MsgKillRequestContext{RequestContextId: od.ctx, Consumer: mc.Addr(od.by).String()}
		default:
			if od.n > 0 {
				// only the timeout is raised (above the repeat frequency); the frequency is left untouched
				msg = &svctypes.MsgUpdateRequestContext{RequestContextId: od.ctx, Consumer: mc.Addr(od.by).String(), Timeout: od.n}
			} else {
				msg = &svctypes.MsgUpdateRequestContext{RequestContextId: od.ctx, Consumer: mc.Addr(od.by).String(), RepeatedFrequency: t.freq + 1}
			}
		}
		out := s.Deliver(e, op.Name, msg)
		if !out.OK {
			return fs
		}
		if od.by != t.consumer {
			fs = append(fs, mc.F("C08/context-control-by-non-consumer-accepted/"+od.kind, "%s accepted", op.Name))
			return fs
		}
		// pausing and starting do not by themselves move the schedule: only a scheduled step that falls into a
		// paused span (the batch's expiry, which would have scheduled the next batch, or the next batch itself)
		// is lost; the block handler marks the context Disturbed when that happens
		if od.kind == "updatectx" {
			c.Modified = true
		}
		return fs
	}
	panic("unknown op " + op.Name)
}

type protoMsg = proto.Message

// countCallbacks checks the module callback fired exactly once for every batch that completed in this step.
func (d *Driver) countCallbacks(m *model, evs sdk.Events, pre, post obs) []mc.Finding {
	var fs []mc.Finding
	fired := map[string][]sdk.Event{}
	for _, ev := range evs {
		if ev.Type == "verifcb_response" {
			id := ""
			for _, a := range ev.Attributes {
				if a.Key == "ctx" {
					id = strings.ToUpper(a.Value)
				}
			}
			fired[id] = append(fired[id], sdk.Event(ev))
		}
	}
	for i := range m.ctxs {
		c := &m.ctxs[i]
		t := tmpls[c.Tmpl]
		if !t.module {
			continue
		}
		prc, preOK := pre.ctxs[c.ID]
		poc, postOK := post.ctxs[c.ID]
		// a batch completed in this step iff the pre batch was running and (the post batch is completed, the
		// counter moved on, or the context is gone)
		completed := preOK && prc.BatchState == svctypes.BATCHRUNNING &&
			(!postOK || poc.BatchState == svctypes.BATCHCOMPLETED || poc.BatchCounter != prc.BatchCounter)
		n := len(fired[c.ID])
		switch {
		case completed && n != 1:
			fs = append(fs, mc.F("C08/callback-count-differs", "context %s: batch %d completed, callback fired %d times", c.Tmpl, prc.BatchCounter, n))
		case !completed && n != 0:
			fs = append(fs, mc.F("C08/callback-without-batch-completion", "context %s: callback fired %d times but no batch completed", c.Tmpl, n))
		}
		if completed && n == 1 {
			ok := ""
			for _, a := range fired[c.ID][0].Attributes {
				if a.Key == "ok" {
					ok = a.Value
				}
			}
			want := "0"
			if c.Outputs >= int(t.threshold) {
				want = "1"
			}
			if ok != want {
				fs = append(fs, mc.F("C08/callback-outputs-vs-threshold", "context %s batch %d: %d outputs submitted, threshold %d, callback success flag %s", c.Tmpl, prc.BatchCounter, c.Outputs, t.threshold, ok))
			}
			c.Outputs = 0
		}
	}
	return fs
}

// oneBlock runs end-block at the current height and begin-block of the next, with the settlement
// (C07) and outcome / schedule (C08) oracles.
func (d *Driver) oneBlock(e *mc.Env, s *mc.State, dt time.Duration) []mc.Finding {
	m := s.Model.(*model)
	var fs []mc.Finding
	u := d.universe()
	h := s.Ctx.BlockHeight()
	pre := d.observe(e, s)
	before := e.Snapshot(s.Ctx, u)
	slashFrac := e.Service.SlashFraction(s.Ctx)
	bo := s.NextBlock(e, dt)
	fs = append(fs, mc.BlockPanicFindings(d.V.Mode, bo)...)
	post := d.observe(e, s)
	got := mc.Diff(before, e.Snapshot(s.Ctx, u))

	preIDs := map[string]reqObs{}
	for _, r := range pre.reqs {
		preIDs[r.ID] = r
	}
	postIDs := map[string]reqObs{}
	for _, r := range post.reqs {
		postIDs[r.ID] = r
	}
	exp := mc.Expect()
	// requests of a running batch whose expiration height is this height expire now
	dep := map[string]*big.Int{}
	for p, c := range pre.deposits {
		dep[p] = new(big.Int).Set(coinsBig(c))
	}
	var charged = map[string]*big.Int{}
	nExpired := 0
	for _, r := range pre.reqs {
		if !r.Active || r.ExpirationHeight != h {
			continue
		}
		nExpired++
		fee := coinsBig(r.Fee)
		exp.Add(r.Consumer, denom, fee).Add("request-escrow", denom, new(big.Int).Neg(fee))
		sl := sdkmath.LegacyNewDecFromInt(sdkmath.NewIntFromBigInt(dep[r.Provider])).Mul(slashFrac).TruncateInt().BigInt()
		dep[r.Provider].Sub(dep[r.Provider], sl)
		exp.Add("deposit-escrow", denom, new(big.Int).Neg(sl)).Add("fee-pool", denom, sl)
		if mr := m.req(r.ID); mr != nil {
			if mr.Status != 0 {
				fs = append(fs, mc.F("C08/second-outcome", "request %s was already %d when it expired", r.ID, mr.Status))
			}
			mr.Status = 2
		}
		if pr, still := postIDs[r.ID]; still && pr.Active {
			fs = append(fs, mc.F("C08/expired-request-still-active", "request of %s (expiration height %d) is still active after end-block %d", r.Provider, r.ExpirationHeight, h))
		}
	}
	// new requests issued in this end-block
	for _, r := range post.reqs {
		if _, old := preIDs[r.ID]; old {
			continue
		}
		fee := coinsBig(r.Fee)
		exp.Add(r.Consumer, denom, new(big.Int).Neg(fee)).Add("request-escrow", denom, fee)
		if charged[r.Consumer] == nil {
			charged[r.Consumer] = new(big.Int)
		}
		charged[r.Consumer].Add(charged[r.Consumer], fee)
		m.reqs = append(m.reqs, mreq{ID: r.ID, Ctx: r.Ctx})
		if r.ReqHeight != h {
			fs = append(fs, mc.F("C08/request-height-differs", "request issued in end-block %d records request height %d", h, r.ReqHeight))
		}
	}
	if nExpired > 0 && (got.Get("deposit-escrow", denom).Cmp(exp.Get("deposit-escrow", denom)) != 0 || got.Get("request-escrow", denom).Cmp(exp.Get("request-escrow", denom)) != 0) {
		// the expiry outcome of a request is "provider slashed, consumer refunded": the deposit escrow moves in an
		// end-block only by slashing, the request escrow only by refunds of expired and fees of new requests
		fs = append(fs, mc.F("C08/expired-request-outcome-missing", "end-block %d: %d requests reached their expiration height; deposit escrow moved %s (slashes require %s), request escrow moved %s (refunds and new fees require %s)",
			h, nExpired, got.Get("deposit-escrow", denom), exp.Get("deposit-escrow", denom), got.Get("request-escrow", denom), exp.Get("request-escrow", denom)))
	}
	if !got.Equal(exp) {
		sig := "C07/block-settlement-differs"
		// discriminate the consumer being charged something else than the fees recorded on the new requests
		for cons, fee := range charged {
			paid := new(big.Int).Neg(got.Get(cons, denom))
			wantPaid := new(big.Int).Neg(exp.Get(cons, denom))
			if paid.Cmp(wantPaid) > 0 && got.Get("deposit-escrow", denom).Cmp(exp.Get("deposit-escrow", denom)) == 0 {
				sig = "C07/consumer-charged-more-than-recorded-fees"
				_ = fee
			} else if paid.Cmp(wantPaid) < 0 {
				sig = "C07/consumer-charged-less-than-recorded-fees"
			}
		}
		fs = append(fs, mc.F(sig, "end-block %d (%d requests expired, consumers charged for new requests %v) moved [%s], the recorded request fees / slash fraction require [%s]", h, nExpired, charged, got, exp))
	}
	for p, want := range dep {
		if have := coinsBig(post.deposits[p]); have.Cmp(want) != 0 {
			if nExpired > 0 {
				// "expired at its expiration height (provider slashed ...)": the slash shows in the provider's recorded deposit
				fs = append(fs, mc.F("C08/expired-request-outcome-missing/recorded-deposit", "binding %s: recorded deposit %s after end-block %d in which %d requests expired, the slashes require %s", p, have, h, nExpired, want))
			}
			fs = append(fs, mc.F("C07/slash-recorded-deposit-differs", "binding %s: recorded deposit %s after end-block %d, expected %s", p, have, h, want))
		}
	}

	// callbacks of the batches completed in this block are judged before the schedule bookkeeping below resets the
	// per-batch output count for a batch that starts in the same block (frequency = timeout)
	cbFs := d.countCallbacks(m, bo.Events, pre, post)

	// ---- C08: schedule
	for i := range m.ctxs {
		c := &m.ctxs[i]
		if c.Gone {
			if _, back := post.ctxs[c.ID]; back {
				fs = append(fs, mc.F("C08/removed-context-reappeared", "context %s", c.Tmpl))
			}
			continue
		}
		t := tmpls[c.Tmpl]
		prc, preOK := pre.ctxs[c.ID]
		poc, postOK := post.ctxs[c.ID]
		if !preOK {
			c.Gone = true
			continue
		}
		newBatches := uint64(0)
		if postOK {
			newBatches = poc.BatchCounter - prc.BatchCounter
		}
		if newBatches > 1 {
			fs = append(fs, mc.F("C08/several-batches-in-one-block", "context %s: batch counter %d -> %d in end-block %d", c.Tmpl, prc.BatchCounter, poc.BatchCounter, h))
		}
		due := false
		switch {
		case c.Batches == 0:
			due = h == c.Created
		case t.repeated:
			due = h == c.LastBatch+int64(t.freq) && (t.total < 0 || int64(prc.BatchCounter) < t.total)
		}
		if postOK && poc.State == svctypes.PAUSED && newBatches > 0 {
			// the only pause that can happen inside an end-block is the automatic one (consumer cannot pay);
			// a context paused there must not have issued the batch it could not pay for
			fs = append(fs, mc.F("C08/batch-issued-by-context-paused-in-same-block", "context %s ended end-block %d paused but issued batch %d in it", c.Tmpl, h, poc.BatchCounter))
		}
		if prc.State == svctypes.PAUSED && newBatches > 0 {
			fs = append(fs, mc.F("C08/batch-while-paused", "context %s issued batch %d in end-block %d while paused", c.Tmpl, poc.BatchCounter, h))
		}
		if !c.Disturbed && !c.Modified && prc.State == svctypes.RUNNING {
			if newBatches > 0 && !due {
				fs = append(fs, mc.F("C08/batch-off-schedule/unscheduled", "context %s (freq %d, total %d, last batch at %d, %d batches) issued a batch in end-block %d", c.Tmpl, t.freq, t.total, c.LastBatch, c.Batches, h))
			}
			if newBatches == 0 && due && postOK && poc.State == svctypes.RUNNING {
				fs = append(fs, mc.F("C08/batch-off-schedule/missed", "context %s (freq %d, total %d, last batch at %d, %d batches) issued no batch in end-block %d and is still running", c.Tmpl, t.freq, t.total, c.LastBatch, c.Batches, h))
			}
		}
		if t.repeated && t.total >= 0 && !c.Modified && postOK && newBatches > 0 && int64(poc.BatchCounter) > t.total {
			// "issues batch n+1 ... while running and below its total": whatever pauses and starts came before
			fs = append(fs, mc.F("C08/batch-beyond-total", "context %s (total %d) issued batch %d in end-block %d", c.Tmpl, t.total, poc.BatchCounter, h))
		}
		if !t.repeated && c.Batches >= 1 && newBatches > 0 {
			fs = append(fs, mc.F("C08/one-shot-second-batch", "one-shot context %s issued batch %d", c.Tmpl, poc.BatchCounter))
		}
		if newBatches > 0 {
			c.Batches += newBatches
			c.LastBatch = h
			c.Disturbed = false
			c.Outputs = 0
		} else if due && postOK {
			// the due batch was not issued (paused by the consumer or for lack of funds): the next start re-anchors
			c.Disturbed = true
		}
		if t.repeated && c.Batches >= 1 && prc.State == svctypes.PAUSED && h == c.LastBatch+t.timeout && newBatches == 0 {
			// the batch expired while the context was paused: no follow-up batch was scheduled
			c.Disturbed = true
		}
		if !postOK {
			c.Gone = true
		}
		// a one-shot context is removed once its batch has expired
		if !t.repeated && c.Batches >= 1 && h >= c.LastBatch+t.timeout && postOK {
			fs = append(fs, mc.F("C08/one-shot-not-removed", "one-shot context %s still exists after end-block %d (batch at %d, timeout %d)", c.Tmpl, h, c.LastBatch, t.timeout))
		}
	}
	fs = append(fs, cbFs...)
	return fs
}

func (d *Driver) Check(e *mc.Env, s *mc.State) []mc.Finding {
	fs := d.check(e, s)
	if d.V.Mode == "C13" {
		fs = append(fs, Hygiene(e, s)...)
	}
	return d.sel(fs)
}

func (d *Driver) check(e *mc.Env, s *mc.State) []mc.Finding {
	m := s.Model.(*model)
	o := d.observe(e, s)
	var fs []mc.Finding
	// deposit escrow = sum of recorded binding deposits
	sum := new(big.Int)
	for _, c := range o.deposits {
		sum.Add(sum, coinsBig(c))
	}
	if have := e.Bal(s.Ctx, mc.ModuleAddr(svctypes.DepositAccName), denom).BigInt(); have.Cmp(sum) != 0 {
		fs = append(fs, mc.F("C07/deposit-escrow-differs", "deposit escrow holds %s, bindings record %s in total", have, sum))
	}
	// request escrow = fees of active requests + earned fees (provider side = owner side)
	act, earnedP, earnedO := new(big.Int), new(big.Int), new(big.Int)
	nActive := 0
	for _, r := range o.reqs {
		if r.Active {
			act.Add(act, coinsBig(r.Fee))
			nActive++
		}
	}
	for _, c := range o.earned {
		earnedP.Add(earnedP, coinsBig(c))
	}
	for _, c := range o.ownerEar {
		earnedO.Add(earnedO, coinsBig(c))
	}
	have := e.Bal(s.Ctx, mc.ModuleAddr(svctypes.RequestAccName), denom).BigInt()
	if want := new(big.Int).Add(act, earnedP); have.Cmp(want) != 0 {
		fs = append(fs, mc.F("C07/request-escrow-differs", "request escrow holds %s, active request fees %s + unwithdrawn earned fees %s = %s", have, act, earnedP, want))
	}
	if earnedP.Cmp(earnedO) != 0 {
		fs = append(fs, mc.F("C07/earned-tallies-disagree", "providers' earned fees sum to %s, owners' to %s", earnedP, earnedO))
	}
	// C08: model status vs the active markers
	for _, r := range o.reqs {
		if mr := m.req(r.ID); mr != nil && (mr.Status == 0) != r.Active {
			fs = append(fs, mc.F("C08/request-activity-differs", "request of %s: active=%v, reference status %d", r.Provider, r.Active, mr.Status))
		}
	}
	s.Nontrivial = nActive >= 1 || earnedP.Sign() > 0
	return fs
}

const rule = "state with an active request or unwithdrawn earned fees; distinct by canonical hash of service+bank stores, header and context/request model"

// Parts for mode C07 / C08.
func Parts(mode string) func() []mc.Part {
	return func() []mc.Part {
		// conformance: the seam runs under the signed transactions' own bytes (context / request ids derive from them)
		conf := &mc.ConfOpts{Stores: []string{"service"}, MaxPaths: 120, SignInSeam: true, Depth: 3}
		if mode == "C07" {
			return []mc.Part{
				mc.ExplorePartC("fees", New(Variant{Name: "fees", Mode: mode, Tmpl: []string{"one", "rep", "poor"}, Withdraw: true}), 8, 10, true, rule, conf),
				mc.ExplorePartC("deposits", New(Variant{Name: "deposits", Mode: mode, Tmpl: []string{"one"}, BindingOps: true}), 7, 9, true, rule, conf),
				// a consumer who can pay for part of a batch only: nothing may be charged for requests that are not issued
				// a module-owned context whose threshold is met before every provider has answered
				// the consumer's control messages while a batch is in flight: every request still ends refunded or paid
			mc.ExplorePart("fees-control", New(Variant{Name: "fees-control", Mode: mode, Tmpl: []string{"rep"}, ControlOps: true}), 7, 9, true, rule),
			mc.ExplorePart("fees-module-threshold", New(Variant{Name: "fees-module-threshold", Mode: mode, Tmpl: []string{"mod1"}}), 7, 9, true, rule),
				mc.ExplorePart("fees-partial-funds", New(Variant{Name: "fees-partial-funds", Mode: mode, Tmpl: []string{"poorpair", "poor"}}), 6, 8, true, rule),
			}
		}
		if mode == "C13" {
			return []mc.Part{
				mc.ExplorePart("service-control", New(Variant{Name: "service-control", Mode: mode, Tmpl: []string{"rep", "one"}, ControlOps: true}), 7, 9, true, rule),
				mc.ExplorePart("service-schedule", New(Variant{Name: "service-schedule", Mode: mode, Tmpl: []string{"rep", "poor", "mod"}}), 8, 11, true, rule),
				mc.ExplorePart("service-schedule-at-height-252", New(Variant{Name: "service-schedule-at-height-252", Mode: mode, Tmpl: []string{"rep", "one"}, InitialHeight: 252}), 8, 10, true, rule),
				// control operations while a context waits between two batches (frequency above the timeout)
				mc.ExplorePart("service-control-between-batches", New(Variant{Name: "service-control-between-batches", Mode: mode, Tmpl: []string{"gap"}, ControlOps: true}), 8, 10, true, rule),
				mc.ExplorePart("service-total-boundary", New(Variant{Name: "service-total-boundary", Mode: mode, Tmpl: []string{"rep1"}, ControlOps: true}), 7, 10, true, rule),
			}
		}
		return []mc.Part{
			mc.ExplorePartC("outcomes", New(Variant{Name: "outcomes", Mode: mode, Tmpl: []string{"one", "rep"}, ControlOps: true}), 7, 9, true, rule, conf),
			mc.ExplorePartC("schedule", New(Variant{Name: "schedule", Mode: mode, Tmpl: []string{"rep", "poor"}}), 11, 13, true, rule, conf),
			mc.ExplorePart("callbacks", New(Variant{Name: "callbacks", Mode: mode, Tmpl: []string{"mod"}}), 11, 13, true, rule),
			mc.ExplorePart("control-between-batches", New(Variant{Name: "control-between-batches", Mode: mode, Tmpl: []string{"gap"}, ControlOps: true}), 8, 10, true, rule),
			mc.ExplorePart("callbacks-threshold-below-providers", New(Variant{Name: "callbacks-threshold-below-providers", Mode: mode, Tmpl: []string{"mod1"}}), 8, 10, true, rule),
			// two contexts addressing one provider whose deposit is exactly the minimum: both requests expire in one block
			mc.ExplorePart("double-expiry", New(Variant{Name: "double-expiry", Mode: mode, Tmpl: []string{"one", "poor"}}), 6, 8, true, rule),
			// heights are the keys of the batch queues: batches and expirations of this chain fall on 254..260
			mc.ExplorePart("schedule-at-height-252", New(Variant{Name: "schedule-at-height-252", Mode: mode, Tmpl: []string{"rep", "one"}, InitialHeight: 252}), 8, 10, true, rule),
			// governance lowers the maximum request timeout below the timeout of a context that already exists
			mc.ExplorePart("outcomes-params-change", New(Variant{Name: "outcomes-params-change", Mode: mode, Tmpl: []string{"rep"}, GovOps: true}), 7, 9, true, rule),
			// a repeated context of one batch in total, with the consumer's control operations: pauses and starts around
			// the expiry of the last batch ("while running and below its total")
			mc.ExplorePart("total-boundary", New(Variant{Name: "total-boundary", Mode: mode, Tmpl: []string{"rep1"}, ControlOps: true}), 7, 10, true, rule),
		}
	}
}
