package c20

import (
	"bytes"
	"encoding/hex"
	"fmt"
	"reflect"

	gogoproto "github.com/cosmos/gogoproto/proto"
	"google.golang.org/protobuf/encoding/protowire"
	protov2 "google.golang.org/protobuf/proto"
	"google.golang.org/protobuf/reflect/protoreflect"
	"google.golang.org/protobuf/reflect/protoregistry"
	"google.golang.org/protobuf/types/dynamicpb"
)

type rtFailure struct {
	symptom string // stable, goes into the signature
	detail  string
}

func hx(b []byte) string {
	if len(b) > 96 {
		return hex.EncodeToString(b[:96]) + fmt.Sprintf("…(%d bytes)", len(b))
	}
	return hex.EncodeToString(b)
}

func clip(s string) string {
	if len(s) > 300 {
		return s[:300] + "…"
	}
	return s
}

func guard(what string, f func() error) (err error) {
	defer func() {
		if r := recover(); r != nil {
			err = fmt.Errorf("%s panicked: %v", what, r)
		}
	}()
	return f()
}

var detMarshal = protov2.MarshalOptions{Deterministic: true}

func newGogo(t reflect.Type) gogoproto.Message {
	return reflect.New(t.Elem()).Interface().(gogoproto.Message)
}

func gogoDecode(t reflect.Type, b []byte) (msg gogoproto.Message, err error) {
	err = guard("gogoproto Unmarshal", func() error {
		msg = newGogo(t)
		return gogoproto.Unmarshal(b, msg)
	})
	return
}

func gogoEncode(msg gogoproto.Message) (b []byte, err error) {
	err = guard("gogoproto Marshal", func() error {
		var e error
		b, e = gogoproto.Marshal(msg)
		return e
	})
	return
}

func pulsarDecode(mt protoreflect.MessageType, b []byte) (m protoreflect.Message, err error) {
	err = guard("pulsar Unmarshal", func() error {
		m = mt.New()
		return protov2.Unmarshal(b, m.Interface())
	})
	return
}

func pulsarEncode(m protoreflect.Message) (b []byte, err error) {
	err = guard("pulsar Marshal", func() error {
		var e error
		b, e = detMarshal.Marshal(m.Interface())
		return e
	})
	return
}

// sameBytes: identical, or — only for values holding a map with >= 2 entries, whose entry order the
// gogoproto encoder does not fix — identical up to the order of map entries (same length, and the
// pulsar decoder reads both into equal messages).
func sameBytes(mt protoreflect.MessageType, a, b []byte, multiMap bool) bool {
	if bytes.Equal(a, b) {
		return true
	}
	if !multiMap || len(a) != len(b) {
		return false
	}
	ma, err1 := pulsarDecode(mt, a)
	mb, err2 := pulsarDecode(mt, b)
	return err1 == nil && err2 == nil && protov2.Equal(ma.Interface(), mb.Interface())
}

// pulsarToGogo: value built and encoded by the api/ (pulsar) type, decoded and re-encoded by the
// gogoproto type, decoded again by pulsar.
func pulsarToGogo(mt protoreflect.MessageType, gt reflect.Type, nv namedVal) *rtFailure {
	m0 := mt.New()
	if err := apply(nv.v, m0); err != nil {
		return &rtFailure{"value-not-applicable-to-pulsar-type", err.Error()}
	}
	b1, err := pulsarEncode(m0)
	if err != nil {
		return &rtFailure{"pulsar-encode-error", err.Error()}
	}
	gm, err := gogoDecode(gt, b1)
	if err != nil {
		return &rtFailure{"gogo-decode-error", fmt.Sprintf("pulsar bytes %s: %v", hx(b1), err)}
	}
	if d := gogoValueDiffers(reflect.ValueOf(gm), m0, "", 0); d != "" {
		return &rtFailure{"gogo-value-differs", fmt.Sprintf("pulsar bytes %s decoded by gogoproto: %s", hx(b1), d)}
	}
	b2, err := gogoEncode(gm)
	if err != nil {
		return &rtFailure{"gogo-encode-error", fmt.Sprintf("after decoding pulsar bytes %s: %v", hx(b1), err)}
	}
	if !sameBytes(mt, b1, b2, nv.multiMap) {
		return &rtFailure{"bytes-differ", fmt.Sprintf("pulsar encodes %s, gogo re-encodes %s", hx(b1), hx(b2))}
	}
	m1, err := pulsarDecode(mt, b2)
	if err != nil {
		return &rtFailure{"pulsar-decode-error", fmt.Sprintf("gogo bytes %s: %v", hx(b2), err)}
	}
	if !protov2.Equal(m0.Interface(), m1.Interface()) {
		return &rtFailure{"message-differs", fmt.Sprintf("pulsar message changed after a trip through gogo: built {%s}, which pulsar encodes %s; gogo returns %s, which pulsar reads as {%s}", clip(canonText(m0, nil)), hx(b1), hx(b2), clip(canonText(m1, nil)))}
	}
	return nil
}

// gogoToPulsar: value built from the gogoproto family's descriptor, turned into a gogoproto Go value,
// encoded by gogoproto, decoded and re-encoded by pulsar, decoded again by gogoproto.
func gogoToPulsar(mt protoreflect.MessageType, gt reflect.Type, gmd protoreflect.MessageDescriptor, nv namedVal) *rtFailure {
	d := dynamicpb.NewMessage(gmd)
	if err := apply(nv.v, d); err != nil {
		return &rtFailure{"value-not-applicable-to-gogo-descriptor", err.Error()}
	}
	db, err := detMarshal.Marshal(d)
	if err != nil {
		return &rtFailure{"dynamic-encode-error", err.Error()}
	}
	gm, err := gogoDecode(gt, db)
	if err != nil {
		return &rtFailure{"gogo-rejects-value-of-own-descriptor", fmt.Sprintf("bytes %s: %v", hx(db), err)}
	}
	if want := mt.New(); apply(nv.v, want) == nil {
		if d := gogoValueDiffers(reflect.ValueOf(gm), want, "", 0); d != "" {
			return &rtFailure{"gogo-value-differs", fmt.Sprintf("bytes %s decoded by gogoproto: %s", hx(db), d)}
		}
	}
	g1, err := gogoEncode(gm)
	if err != nil {
		return &rtFailure{"gogo-encode-error", err.Error()}
	}
	pm, err := pulsarDecode(mt, g1)
	if err != nil {
		return &rtFailure{"pulsar-decode-error", fmt.Sprintf("gogo bytes %s: %v", hx(g1), err)}
	}
	p1, err := pulsarEncode(pm)
	if err != nil {
		return &rtFailure{"pulsar-encode-error", fmt.Sprintf("after decoding gogo bytes %s: %v", hx(g1), err)}
	}
	if !sameBytes(mt, g1, p1, nv.multiMap) {
		return &rtFailure{"bytes-differ", fmt.Sprintf("gogo encodes %s, pulsar re-encodes %s", hx(g1), hx(p1))}
	}
	// the message pulsar read must be the value that was put in (gogo neither dropped nor moved anything)
	want := mt.New()
	if err := apply(nv.v, want); err != nil {
		return &rtFailure{"value-not-applicable-to-pulsar-type", err.Error()}
	}
	if !protov2.Equal(want.Interface(), pm.Interface()) {
		wb, _ := pulsarEncode(want)
		return &rtFailure{"message-differs", fmt.Sprintf("pulsar reads gogo bytes %s as {%s}; the value put into the gogo type was {%s} (pulsar encodes that %s)", hx(g1), clip(canonText(pm, nil)), clip(canonText(want, nil)), hx(wb))}
	}
	gm2, err := gogoDecode(gt, p1)
	if err != nil {
		return &rtFailure{"gogo-decode-error", fmt.Sprintf("pulsar bytes %s: %v", hx(p1), err)}
	}
	g2, err := gogoEncode(gm2)
	if err != nil {
		return &rtFailure{"gogo-encode-error", err.Error()}
	}
	if !sameBytes(mt, g1, g2, nv.multiMap) {
		return &rtFailure{"bytes-differ", fmt.Sprintf("gogo encodes %s, after a trip through pulsar %s", hx(g1), hx(g2))}
	}
	return nil
}

func pulsarType(name protoreflect.FullName) (protoreflect.MessageType, error) {
	return protoregistry.GlobalTypes.FindMessageByName(name)
}

func gogoType(name protoreflect.FullName) (reflect.Type, error) {
	t := gogoproto.MessageType(string(name))
	if t == nil {
		return nil, fmt.Errorf("no Go type registered with gogoproto under %s", name)
	}
	if t.Kind() != reflect.Ptr || t.Elem().Kind() != reflect.Struct {
		return nil, fmt.Errorf("gogoproto type of %s is %s, not a pointer to struct", name, t)
	}
	if _, ok := reflect.New(t.Elem()).Interface().(gogoproto.Message); !ok {
		return nil, fmt.Errorf("gogoproto type %s is not a proto.Message", t)
	}
	return t, nil
}

// gogoZeroToPulsar: the Go zero value of the gogoproto type (what `&T{}` encodes to), decoded and
// re-encoded by pulsar and read back by gogoproto.
func gogoZeroToPulsar(mt protoreflect.MessageType, gt reflect.Type) *rtFailure {
	g1, err := gogoEncode(newGogo(gt))
	if err != nil {
		return &rtFailure{"gogo-encode-error", "zero value: " + err.Error()}
	}
	pm, err := pulsarDecode(mt, g1)
	if err != nil {
		return &rtFailure{"pulsar-decode-error", fmt.Sprintf("gogo encodes its zero value as %s: %v", hx(g1), err)}
	}
	p1, err := pulsarEncode(pm)
	if err != nil {
		return &rtFailure{"pulsar-encode-error", fmt.Sprintf("after decoding gogo bytes %s: %v", hx(g1), err)}
	}
	if !bytes.Equal(g1, p1) {
		return &rtFailure{"bytes-differ", fmt.Sprintf("gogo encodes its zero value as %s, pulsar re-encodes %s", hx(g1), hx(p1))}
	}
	gm2, err := gogoDecode(gt, p1)
	if err != nil {
		return &rtFailure{"gogo-decode-error", fmt.Sprintf("pulsar bytes %s: %v", hx(p1), err)}
	}
	g2, err := gogoEncode(gm2)
	if err != nil {
		return &rtFailure{"gogo-encode-error", err.Error()}
	}
	if !bytes.Equal(g1, g2) {
		return &rtFailure{"bytes-differ", fmt.Sprintf("gogo encodes its zero value as %s, after a trip through pulsar %s", hx(g1), hx(g2))}
	}
	return nil
}

// culprits narrows a failure of the all-default value down to fields. This is diagnosis only (it
// feeds the signature, not the verdict): each always-present field is sent alone from pulsar to
// gogoproto, and each top-level field gogoproto writes for its zero value is sent alone to pulsar.
func culprits(g *generator, mt protoreflect.MessageType, gt reflect.Type) map[string]string {
	out := map[string]string{}
	md := mt.Descriptor()
	for i := 0; i < md.Fields().Len(); i++ {
		fd := md.Fields().Get(i)
		if !g.mandatory(fd) {
			continue
		}
		m := mt.New()
		if err := apply(&aval{fields: []afield{{num: fd.Number(), single: g.minimalElem(fd, 0)}}}, m); err != nil {
			continue
		}
		b, err := pulsarEncode(m)
		if err != nil {
			continue
		}
		if _, err := gogoDecode(gt, b); err != nil {
			out[string(fd.Name())] = fmt.Sprintf("gogo cannot decode pulsar's encoding %s of the field alone: %v", hx(b), err)
		}
	}
	zb, err := gogoEncode(newGogo(gt))
	if err != nil {
		return out
	}
	for len(zb) > 0 {
		num, _, n := protowire.ConsumeField(zb)
		if n < 0 {
			break
		}
		one := zb[:n]
		zb = zb[n:]
		fd := md.Fields().ByNumber(num)
		if fd == nil {
			continue
		}
		if _, err := pulsarDecode(mt, one); err != nil {
			if _, dup := out[string(fd.Name())]; !dup {
				out[string(fd.Name())] = fmt.Sprintf("pulsar cannot decode gogo's zero-value encoding %s of the field alone: %v", hx(one), err)
			}
		}
	}
	return out
}
