package c20

import (
	"bytes"
	"compress/gzip"
	"encoding/hex"
	"fmt"
	"io"
	"sort"
	"strings"
	"sync"

	gogoproto "github.com/cosmos/gogoproto/proto"
	"google.golang.org/protobuf/encoding/protowire"
	protov2 "google.golang.org/protobuf/proto"
	"google.golang.org/protobuf/reflect/protodesc"
	"google.golang.org/protobuf/reflect/protoreflect"
	"google.golang.org/protobuf/reflect/protoregistry"
	"google.golang.org/protobuf/types/descriptorpb"
	"google.golang.org/protobuf/types/dynamicpb"
)

// Family names.
const (
	famGogo   = "gogo"   // modules/*/types/*.pb.go, registered with github.com/cosmos/gogoproto/proto
	famPulsar = "pulsar" // api/irismod/**/*.pulsar.go, registered with protoregistry.GlobalFiles/GlobalTypes
)

// ---------------------------------------------------------------------------------------------
// one resolver for option extensions, shared by both families
//
// The two registries hold different Go representations of the same option extension: gogoproto's
// own extensions (gogoproto.nullable …) are not registered with protobuf-go, so they sit in the
// options messages as unknown fields, while cosmos_proto / amino / cosmos.msg.v1 ones are resolved
// generated extensions. Every options message is therefore re-marshalled and re-parsed with one
// resolver made of dynamic extension types built from the extension *declarations* found in either
// file registry, and then printed in a canonical text form.

var (
	extOnce  sync.Once
	extTypes *protoregistry.Types
)

func extensionResolver() *protoregistry.Types {
	extOnce.Do(func() {
		extTypes = new(protoregistry.Types)
		seen := map[protoreflect.FullName]bool{}
		add := func(xd protoreflect.ExtensionDescriptor) {
			if seen[xd.FullName()] {
				return
			}
			seen[xd.FullName()] = true
			_ = extTypes.RegisterExtension(dynamicpb.NewExtensionType(xd))
		}
		var walkMsgs func(ms protoreflect.MessageDescriptors)
		walkMsgs = func(ms protoreflect.MessageDescriptors) {
			for i := 0; i < ms.Len(); i++ {
				m := ms.Get(i)
				for j := 0; j < m.Extensions().Len(); j++ {
					add(m.Extensions().Get(j))
				}
				walkMsgs(m.Messages())
			}
		}
		visit := func(fd protoreflect.FileDescriptor) bool {
			for i := 0; i < fd.Extensions().Len(); i++ {
				add(fd.Extensions().Get(i))
			}
			walkMsgs(fd.Messages())
			return true
		}
		// deterministic order: sort paths
		var files []protoreflect.FileDescriptor
		protoregistry.GlobalFiles.RangeFiles(func(fd protoreflect.FileDescriptor) bool { files = append(files, fd); return true })
		sort.SliceStable(files, func(i, j int) bool { return files[i].Path() < files[j].Path() })
		for _, fd := range files {
			visit(fd)
		}
		files = nil
		gogoproto.GogoResolver.RangeFiles(func(fd protoreflect.FileDescriptor) bool { files = append(files, fd); return true })
		sort.SliceStable(files, func(i, j int) bool { return files[i].Path() < files[j].Path() })
		for _, fd := range files {
			visit(fd)
		}
	})
	return extTypes
}

// reparse returns a copy of an options message in which every extension that is declared in any
// linked .proto file is a resolved (dynamic) extension field.
func reparse(opts protoreflect.ProtoMessage) protoreflect.Message {
	if opts == nil {
		return nil
	}
	src := opts.ProtoReflect()
	if !src.IsValid() {
		return nil
	}
	b, err := protov2.MarshalOptions{Deterministic: true}.Marshal(opts)
	if err != nil {
		panic(fmt.Sprintf("marshal %s: %v", src.Descriptor().FullName(), err))
	}
	dst := src.New()
	if err := (protov2.UnmarshalOptions{Resolver: extensionResolver()}).Unmarshal(b, dst.Interface()); err != nil {
		panic(fmt.Sprintf("reparse %s: %v", src.Descriptor().FullName(), err))
	}
	return dst
}

// option looks a named extension up in an options message (after reparse).
func option(opts protoreflect.ProtoMessage, name string) (protoreflect.Value, bool) {
	m := reparse(opts)
	if m == nil {
		return protoreflect.Value{}, false
	}
	xt, err := extensionResolver().FindExtensionByName(protoreflect.FullName(name))
	if err != nil {
		return protoreflect.Value{}, false
	}
	if !m.Has(xt.TypeDescriptor()) {
		return protoreflect.Value{}, false
	}
	return m.Get(xt.TypeDescriptor()), true
}

func optionString(opts protoreflect.ProtoMessage, name string) string {
	v, ok := option(opts, name)
	if !ok {
		return ""
	}
	return v.String()
}

func optionBool(opts protoreflect.ProtoMessage, name string, def bool) bool {
	v, ok := option(opts, name)
	if !ok {
		return def
	}
	return v.Bool()
}

// canonText prints a message in a canonical one-line text form: fields ordered by number,
// extensions by full name in brackets, unknown fields (extensions declared nowhere) as hex.
// skip filters top-level fields by (text) name.
func canonText(m protoreflect.Message, skip func(name string) bool) string {
	if m == nil || !m.IsValid() {
		return ""
	}
	type kv struct {
		num  protoreflect.FieldNumber
		name string
		val  string
	}
	var out []kv
	m.Range(func(fd protoreflect.FieldDescriptor, v protoreflect.Value) bool {
		name := string(fd.Name())
		if fd.IsExtension() {
			name = "[" + string(fd.FullName()) + "]"
		}
		if skip != nil && skip(name) {
			return true
		}
		out = append(out, kv{fd.Number(), name, canonValue(fd, v)})
		return true
	})
	unk := m.GetUnknown()
	for len(unk) > 0 {
		num, _, n := protowire.ConsumeField(unk)
		if n < 0 {
			out = append(out, kv{1 << 29, "?malformed", hex.EncodeToString(unk)})
			break
		}
		out = append(out, kv{num, fmt.Sprintf("?%d", num), hex.EncodeToString(unk[:n])})
		unk = unk[n:]
	}
	sort.SliceStable(out, func(i, j int) bool {
		if out[i].num != out[j].num {
			return out[i].num < out[j].num
		}
		return out[i].val < out[j].val
	})
	var sb strings.Builder
	for i, e := range out {
		if i > 0 {
			sb.WriteByte(' ')
		}
		sb.WriteString(e.name)
		sb.WriteByte(':')
		sb.WriteString(e.val)
	}
	return sb.String()
}

func canonValue(fd protoreflect.FieldDescriptor, v protoreflect.Value) string {
	switch {
	case fd.IsList():
		l := v.List()
		parts := make([]string, l.Len())
		for i := 0; i < l.Len(); i++ {
			parts[i] = canonScalar(fd, l.Get(i))
		}
		return "[" + strings.Join(parts, ",") + "]"
	case fd.IsMap():
		var parts []string
		v.Map().Range(func(k protoreflect.MapKey, mv protoreflect.Value) bool {
			parts = append(parts, canonScalar(fd.MapKey(), k.Value())+"=>"+canonScalar(fd.MapValue(), mv))
			return true
		})
		sort.Strings(parts)
		return "{" + strings.Join(parts, ",") + "}"
	}
	return canonScalar(fd, v)
}

func canonScalar(fd protoreflect.FieldDescriptor, v protoreflect.Value) string {
	switch fd.Kind() {
	case protoreflect.MessageKind, protoreflect.GroupKind:
		return "{" + canonText(v.Message(), nil) + "}"
	case protoreflect.StringKind:
		return fmt.Sprintf("%q", v.String())
	case protoreflect.BytesKind:
		return "0x" + hex.EncodeToString(v.Bytes())
	case protoreflect.EnumKind:
		if ev := fd.Enum().Values().ByNumber(v.Enum()); ev != nil {
			return string(ev.Name())
		}
		return fmt.Sprintf("%d", v.Enum())
	}
	return fmt.Sprintf("%v", v.Interface())
}

// canonOptions = canonical text of a re-parsed options message.
func canonOptions(opts protoreflect.ProtoMessage, skip func(string) bool) string {
	return canonText(reparse(opts), skip)
}

// fileOptionIsCodegenOnly: file-level options that only steer code generators. The property sets
// them aside ("file-level code-generator options aside"): buf's managed mode rewrites go_package
// and adds java/csharp/objc/php/ruby/swift options for the api/ family, and the gogoproto.*_all
// file options only shape the gogo Go code.
func fileOptionIsCodegenOnly(name string) bool {
	switch name {
	case "go_package", "java_package", "java_outer_classname", "java_multiple_files", "java_generate_equals_and_hash",
		"java_string_check_utf8", "optimize_for", "cc_generic_services", "java_generic_services", "py_generic_services",
		"php_generic_services", "cc_enable_arenas", "objc_class_prefix", "csharp_namespace", "swift_prefix",
		"php_class_prefix", "php_namespace", "php_metadata_namespace", "ruby_package":
		return true
	}
	return strings.HasPrefix(name, "[gogoproto.")
}

// ---------------------------------------------------------------------------------------------
// loading the two descriptors of one .proto path

type famFile struct {
	fd  protoreflect.FileDescriptor
	fdp *descriptorpb.FileDescriptorProto
}

func gunzip(b []byte) ([]byte, error) {
	r, err := gzip.NewReader(bytes.NewReader(b))
	if err != nil {
		return nil, err
	}
	return io.ReadAll(r)
}

// gogoLinker links the descriptors embedded in the gogoproto generated files into a registry of
// its own. gogoproto's global registry links each file when its Go init() runs, and a same-package
// file initialised earlier (genesis.pb.go before service.pb.go) keeps *placeholder* message types
// for what it imports from a later one; a value generator needs the real ones. Imports that no
// gogoproto file registers (cosmos_proto, google/api …) are taken from protoregistry.GlobalFiles.
type gogoLinker struct {
	files *protoregistry.Files
	raw   map[string]*descriptorpb.FileDescriptorProto
	errs  map[string]error
}

var (
	linkerOnce sync.Once
	linker     *gogoLinker
)

func theGogoLinker() *gogoLinker {
	linkerOnce.Do(func() {
		linker = &gogoLinker{files: new(protoregistry.Files), raw: map[string]*descriptorpb.FileDescriptorProto{}, errs: map[string]error{}}
	})
	return linker
}

func (l *gogoLinker) FindFileByPath(p string) (protoreflect.FileDescriptor, error) {
	if fd, err := l.files.FindFileByPath(p); err == nil {
		return fd, nil
	}
	if gogoproto.FileDescriptor(p) != nil {
		return l.link(p)
	}
	return protoregistry.GlobalFiles.FindFileByPath(p)
}

func (l *gogoLinker) FindDescriptorByName(n protoreflect.FullName) (protoreflect.Descriptor, error) {
	if d, err := l.files.FindDescriptorByName(n); err == nil {
		return d, nil
	}
	return protoregistry.GlobalFiles.FindDescriptorByName(n)
}

func (l *gogoLinker) rawFile(path string) (*descriptorpb.FileDescriptorProto, error) {
	if fdp, ok := l.raw[path]; ok {
		return fdp, nil
	}
	gz := gogoproto.FileDescriptor(path)
	if gz == nil {
		return nil, fmt.Errorf("not registered with gogoproto")
	}
	raw, err := gunzip(gz)
	if err != nil {
		return nil, fmt.Errorf("gunzip: %v", err)
	}
	fdp := &descriptorpb.FileDescriptorProto{}
	if err := protov2.Unmarshal(raw, fdp); err != nil {
		return nil, fmt.Errorf("unmarshal descriptor: %v", err)
	}
	l.raw[path] = fdp
	return fdp, nil
}

func (l *gogoLinker) link(path string) (protoreflect.FileDescriptor, error) {
	if fd, err := l.files.FindFileByPath(path); err == nil {
		return fd, nil
	}
	if err, bad := l.errs[path]; bad {
		return nil, err
	}
	fdp, err := l.rawFile(path)
	if err != nil {
		l.errs[path] = err
		return nil, err
	}
	l.errs[path] = fmt.Errorf("import cycle through %s", path)
	for _, dep := range fdp.GetDependency() {
		if gogoproto.FileDescriptor(dep) != nil {
			if _, err := l.link(dep); err != nil {
				err = fmt.Errorf("import %s: %v", dep, err)
				l.errs[path] = err
				return nil, err
			}
		}
	}
	fd, err := protodesc.NewFile(fdp, l)
	if err == nil {
		err = l.files.RegisterFile(fd)
	}
	if err != nil {
		l.errs[path] = err
		return nil, err
	}
	delete(l.errs, path)
	return fd, nil
}

// loadGogo: the descriptor embedded (gzipped) in the gogoproto generated file, exactly as embedded,
// linked against the other gogoproto-embedded descriptors; the file must also be known to
// gogoproto's own file registry.
func loadGogo(path string) (*famFile, error) {
	l := theGogoLinker()
	fdp, err := l.rawFile(path)
	if err != nil {
		return nil, err
	}
	if _, err := gogoproto.GogoResolver.FindFileByPath(path); err != nil {
		return nil, fmt.Errorf("gogo file registry: %v", err)
	}
	fd, err := l.link(path)
	if err != nil {
		return nil, fmt.Errorf("linking the embedded descriptor: %v", err)
	}
	return &famFile{fd: fd, fdp: fdp}, nil
}

// loadPulsar: the descriptor registered by the api/ (protobuf-go based) generated file.
func loadPulsar(path string) (*famFile, error) {
	fd, err := protoregistry.GlobalFiles.FindFileByPath(path)
	if err != nil {
		return nil, err
	}
	return &famFile{fd: fd, fdp: protodesc.ToFileDescriptorProto(fd)}, nil
}

// ---------------------------------------------------------------------------------------------
// flattening a FileDescriptorProto into (element, aspect) -> canonical text

type flatKey struct {
	Kind   string // file | message | field | oneof | enum | enumvalue | service | method | extension
	Name   string // full name (file: path)
	Aspect string
}

func (k flatKey) String() string { return k.Kind + " " + k.Name + " : " + k.Aspect }

type flat map[flatKey]string

func flatten(fdp *descriptorpb.FileDescriptorProto) flat {
	f := flat{}
	path := fdp.GetName()
	set := func(kind, name, aspect, val string) { f[flatKey{kind, name, aspect}] = val }
	set("file", path, "package", fdp.GetPackage())
	syn := fdp.GetSyntax()
	if syn == "" {
		syn = "proto2"
	}
	set("file", path, "syntax", syn)
	set("file", path, "dependency", strings.Join(fdp.GetDependency(), ","))
	set("file", path, "public_dependency", fmt.Sprint(fdp.GetPublicDependency()))
	set("file", path, "weak_dependency", fmt.Sprint(fdp.GetWeakDependency()))
	if fdp.Options != nil {
		set("file", path, "options", canonOptions(fdp.Options, fileOptionIsCodegenOnly))
	} else {
		set("file", path, "options", "")
	}
	pkg := fdp.GetPackage()
	var order []string

	var doEnum func(scope string, e *descriptorpb.EnumDescriptorProto)
	doEnum = func(scope string, e *descriptorpb.EnumDescriptorProto) {
		fn := qualify(scope, e.GetName())
		set("enum", fn, "options", optText(e.Options))
		var names []string
		for _, v := range e.GetValue() {
			names = append(names, v.GetName())
			vn := fn + "." + v.GetName()
			set("enumvalue", vn, "number", fmt.Sprint(v.GetNumber()))
			set("enumvalue", vn, "options", optText(v.Options))
		}
		set("enum", fn, "value_order", strings.Join(names, ","))
		var rr []string
		for _, r := range e.GetReservedRange() {
			rr = append(rr, fmt.Sprintf("%d-%d", r.GetStart(), r.GetEnd()))
		}
		set("enum", fn, "reserved", strings.Join(rr, ",")+"|"+strings.Join(e.GetReservedName(), ","))
	}
	doField := func(kind, owner string, fd *descriptorpb.FieldDescriptorProto, oneofs []*descriptorpb.OneofDescriptorProto) {
		fn := owner + "." + fd.GetName()
		set(kind, fn, "number", fmt.Sprint(fd.GetNumber()))
		set(kind, fn, "type", strings.TrimPrefix(fd.GetType().String(), "TYPE_")+" "+fd.GetTypeName())
		set(kind, fn, "label", strings.TrimPrefix(fd.GetLabel().String(), "LABEL_"))
		set(kind, fn, "json_name", fd.GetJsonName())
		oo := "-"
		if fd.OneofIndex != nil {
			if int(fd.GetOneofIndex()) < len(oneofs) {
				oo = oneofs[fd.GetOneofIndex()].GetName()
			} else {
				oo = fmt.Sprintf("#%d", fd.GetOneofIndex())
			}
		}
		set(kind, fn, "oneof", oo)
		set(kind, fn, "proto3_optional", fmt.Sprint(fd.GetProto3Optional()))
		def := "-"
		if fd.DefaultValue != nil {
			def = fmt.Sprintf("%q", fd.GetDefaultValue())
		}
		set(kind, fn, "default", def)
		set(kind, fn, "extendee", fd.GetExtendee())
		set(kind, fn, "options", optText(fd.Options))
	}
	var doMsg func(scope string, m *descriptorpb.DescriptorProto)
	doMsg = func(scope string, m *descriptorpb.DescriptorProto) {
		fn := qualify(scope, m.GetName())
		set("message", fn, "options", optText(m.Options))
		var names []string
		for _, fd := range m.GetField() {
			names = append(names, fd.GetName())
			doField("field", fn, fd, m.GetOneofDecl())
		}
		set("message", fn, "field_order", strings.Join(names, ","))
		names = nil
		for _, o := range m.GetOneofDecl() {
			names = append(names, o.GetName())
			set("oneof", fn+"."+o.GetName(), "options", optText(o.Options))
		}
		set("message", fn, "oneofs", strings.Join(names, ","))
		for _, x := range m.GetExtension() {
			doField("extension", fn, x, nil)
		}
		var rr []string
		for _, r := range m.GetReservedRange() {
			rr = append(rr, fmt.Sprintf("%d-%d", r.GetStart(), r.GetEnd()))
		}
		set("message", fn, "reserved", strings.Join(rr, ",")+"|"+strings.Join(m.GetReservedName(), ","))
		rr = nil
		for _, r := range m.GetExtensionRange() {
			rr = append(rr, fmt.Sprintf("%d-%d{%s}", r.GetStart(), r.GetEnd(), optText(r.Options)))
		}
		set("message", fn, "extension_ranges", strings.Join(rr, ","))
		names = nil
		for _, e := range m.GetEnumType() {
			names = append(names, e.GetName())
			doEnum(fn, e)
		}
		for _, n := range m.GetNestedType() {
			names = append(names, n.GetName())
			doMsg(fn, n)
		}
		set("message", fn, "nested_order", strings.Join(names, ","))
	}
	for _, m := range fdp.GetMessageType() {
		order = append(order, "message "+m.GetName())
		doMsg(pkg, m)
	}
	for _, e := range fdp.GetEnumType() {
		order = append(order, "enum "+e.GetName())
		doEnum(pkg, e)
	}
	for _, x := range fdp.GetExtension() {
		order = append(order, "extension "+x.GetName())
		doField("extension", pkg, x, nil)
	}
	for _, s := range fdp.GetService() {
		order = append(order, "service "+s.GetName())
		fn := qualify(pkg, s.GetName())
		set("service", fn, "options", optText(s.Options))
		var names []string
		for _, m := range s.GetMethod() {
			names = append(names, m.GetName())
			mn := fn + "." + m.GetName()
			set("method", mn, "input", m.GetInputType())
			set("method", mn, "output", m.GetOutputType())
			set("method", mn, "client_streaming", fmt.Sprint(m.GetClientStreaming()))
			set("method", mn, "server_streaming", fmt.Sprint(m.GetServerStreaming()))
			set("method", mn, "options", optText(m.Options))
		}
		set("service", fn, "method_order", strings.Join(names, ","))
	}
	// messages, enums and services are kept in separate lists in a descriptor, so only the
	// order within each list is meaningful
	sort.SliceStable(order, func(i, j int) bool {
		return strings.SplitN(order[i], " ", 2)[0] < strings.SplitN(order[j], " ", 2)[0]
	})
	set("file", path, "declaration_order", strings.Join(order, ","))
	return f
}

// optText: canonical text of a (possibly nil) options message of any kind.
func optText(opts protoreflect.ProtoMessage) string {
	if opts == nil || !opts.ProtoReflect().IsValid() {
		return ""
	}
	return canonOptions(opts, nil)
}

type flatDiff struct {
	Key          flatKey
	Gogo, Pulsar string
	InG, InP     bool
}

func diffFlat(g, p flat) (n int, diffs []flatDiff) {
	keys := map[flatKey]bool{}
	for k := range g {
		keys[k] = true
	}
	for k := range p {
		keys[k] = true
	}
	var ks []flatKey
	for k := range keys {
		ks = append(ks, k)
	}
	sort.Slice(ks, func(i, j int) bool { return ks[i].String() < ks[j].String() })
	for _, k := range ks {
		gv, gok := g[k]
		pv, pok := p[k]
		n++
		if gok != pok || gv != pv {
			diffs = append(diffs, flatDiff{k, gv, pv, gok, pok})
		}
	}
	return
}
