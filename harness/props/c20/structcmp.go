package c20

import (
	"fmt"
	"reflect"
	"strconv"
	"strings"

	"google.golang.org/protobuf/reflect/protoreflect"
)

// gogoValueDiffers compares what the gogoproto decoder put into the Go struct — field by field, located through
// the struct tags the generator wrote (`protobuf:"<wire>,<number>,…"`) — with the api/ family's message of the
// same value. Comparing encodings alone cannot see a decoder and an encoder that are wrong consistently (a
// field read into the neighbouring Go field and written back from there): the bytes survive every trip while
// every consumer of the Go value (handlers, keepers) sees another message. Only plain scalar fields (bool,
// integers, floats, strings, bytes, enums), nested messages and lists of those are compared; fields whose Go type is
// a custom type, a time or a map are covered by the byte comparison only. Returns "" when nothing differs.
func gogoValueDiffers(gv reflect.Value, pm protoreflect.Message, path string, depth int) string {
	if depth > 6 {
		return ""
	}
	for gv.Kind() == reflect.Ptr || gv.Kind() == reflect.Interface {
		if gv.IsNil() {
			return ""
		}
		gv = gv.Elem()
	}
	if gv.Kind() != reflect.Struct {
		return ""
	}
	gt := gv.Type()
	fields := pm.Descriptor().Fields()
	for i := 0; i < gt.NumField(); i++ {
		sf := gt.Field(i)
		fv := gv.Field(i)
		if _, ok := sf.Tag.Lookup("protobuf_oneof"); ok {
			// the wrapper struct of the chosen member carries the tag of that member
			if fv.Kind() == reflect.Interface && !fv.IsNil() {
				if d := gogoValueDiffers(fv.Elem(), pm, path, depth); d != "" {
					return d
				}
			}
			continue
		}
		tag, ok := sf.Tag.Lookup("protobuf")
		if !ok || !sf.IsExported() {
			continue
		}
		parts := strings.Split(tag, ",")
		if len(parts) < 2 {
			continue
		}
		num, err := strconv.Atoi(parts[1])
		if err != nil {
			continue
		}
		fd := fields.ByNumber(protoreflect.FieldNumber(num))
		if fd == nil || fd.IsMap() {
			continue
		}
		name := path + string(fd.Name())
		if fd.IsList() {
			if fv.Kind() != reflect.Slice || (fd.Kind() == protoreflect.BytesKind && fv.Type().Elem().Kind() == reflect.Uint8) {
				continue
			}
			pl := pm.Get(fd).List()
			if fv.Len() != pl.Len() {
				continue // presence / length is the byte comparison's matter
			}
			for j := 0; j < fv.Len(); j++ {
				if d := gogoElemDiffers(fv.Index(j), fd, pl.Get(j), fmt.Sprintf("%s[%d]", name, j), depth); d != "" {
					return d
				}
			}
			continue
		}
		if fd.Message() != nil && !pm.Has(fd) {
			continue
		}
		if d := gogoElemDiffers(fv, fd, pm.Get(fd), name, depth); d != "" {
			return d
		}
	}
	return ""
}

func gogoElemDiffers(fv reflect.Value, fd protoreflect.FieldDescriptor, pv protoreflect.Value, name string, depth int) string {
	for fv.Kind() == reflect.Ptr {
		if fv.IsNil() {
			return ""
		}
		fv = fv.Elem()
	}
	differs := func(g, p interface{}) string {
		return fmt.Sprintf("field %s: the gogoproto Go value holds %v, the api/ message %v", name, g, p)
	}
	switch fd.Kind() {
	case protoreflect.BoolKind:
		if fv.Kind() == reflect.Bool && fv.Bool() != pv.Bool() {
			return differs(fv.Bool(), pv.Bool())
		}
	case protoreflect.Int32Kind, protoreflect.Sint32Kind, protoreflect.Sfixed32Kind, protoreflect.Int64Kind, protoreflect.Sint64Kind, protoreflect.Sfixed64Kind:
		if fv.CanInt() && fv.Int() != pv.Int() {
			return differs(fv.Int(), pv.Int())
		}
	case protoreflect.Uint32Kind, protoreflect.Fixed32Kind, protoreflect.Uint64Kind, protoreflect.Fixed64Kind:
		if fv.CanUint() && fv.Uint() != pv.Uint() {
			return differs(fv.Uint(), pv.Uint())
		}
	case protoreflect.EnumKind:
		if fv.CanInt() && fv.Int() != int64(pv.Enum()) {
			return differs(fv.Int(), pv.Enum())
		}
	case protoreflect.FloatKind, protoreflect.DoubleKind:
		if fv.CanFloat() && fv.Float() != pv.Float() && !(fv.Float() != fv.Float() && pv.Float() != pv.Float()) {
			return differs(fv.Float(), pv.Float())
		}
	case protoreflect.StringKind:
		if fv.Kind() == reflect.String && fv.String() != pv.String() {
			return differs(strconv.Quote(fv.String()), strconv.Quote(pv.String()))
		}
	case protoreflect.BytesKind:
		if fv.Kind() == reflect.Slice && fv.Type().Elem().Kind() == reflect.Uint8 && string(fv.Bytes()) != string(pv.Bytes()) {
			return differs(hx(fv.Bytes()), hx(pv.Bytes()))
		}
	case protoreflect.MessageKind, protoreflect.GroupKind:
		if fv.Kind() == reflect.Struct {
			return gogoValueDiffers(fv, pv.Message(), name+".", depth+1)
		}
	}
	return ""
}
