package c20

import (
	"bytes"
	"fmt"
	"reflect"
	"regexp"
	"sort"
	"strings"
	"time"

	"cosmossdk.io/x/tx/signing"
	"github.com/cosmos/cosmos-sdk/codec"
	addresscodec "github.com/cosmos/cosmos-sdk/codec/address"
	codectypes "github.com/cosmos/cosmos-sdk/codec/types"
	"github.com/cosmos/cosmos-sdk/std"
	sdk "github.com/cosmos/cosmos-sdk/types"
	"github.com/cosmos/cosmos-sdk/types/msgservice"
	gogoproto "github.com/cosmos/gogoproto/proto"
	"google.golang.org/protobuf/reflect/protoreflect"
	"google.golang.org/protobuf/reflect/protoregistry"

	"mods.irisnet.org/modules/coinswap"
	"mods.irisnet.org/modules/farm"
	"mods.irisnet.org/modules/htlc"
	"mods.irisnet.org/modules/mt"
	"mods.irisnet.org/modules/nft"
	"mods.irisnet.org/modules/oracle"
	"mods.irisnet.org/modules/random"
	"mods.irisnet.org/modules/record"
	"mods.irisnet.org/modules/service"
	tokenmod "mods.irisnet.org/modules/token"

	"verif/harness/mc"
)

// famResolver presents the irismod files of one family as a signing.ProtoFileResolver.
type famResolver struct {
	lookup interface {
		FindFileByPath(string) (protoreflect.FileDescriptor, error)
		FindDescriptorByName(protoreflect.FullName) (protoreflect.Descriptor, error)
	}
	files []protoreflect.FileDescriptor
}

func (r famResolver) FindFileByPath(p string) (protoreflect.FileDescriptor, error) {
	return r.lookup.FindFileByPath(p)
}
func (r famResolver) FindDescriptorByName(n protoreflect.FullName) (protoreflect.Descriptor, error) {
	return r.lookup.FindDescriptorByName(n)
}
func (r famResolver) RangeFiles(f func(protoreflect.FileDescriptor) bool) {
	for _, fd := range r.files {
		if !f(fd) {
			return
		}
	}
}

type appHandles struct {
	ir  codectypes.InterfaceRegistry
	cdc codec.Codec
}

// buildApp builds the application the way every other check does and returns its interface
// registry; a panic while wiring (unregistered Msg, signer validation …) is returned as an error.
func buildApp() (h *appHandles, err error) {
	defer func() {
		if r := recover(); r != nil {
			err = fmt.Errorf("%v", r)
		}
	}()
	e := mc.NewEnv(mc.EnvOptions{SkipInitChain: true})
	return &appHandles{ir: e.App.InterfaceRegistry(), cdc: e.App.AppCodec()}, nil
}

// standaloneRegistry: when the application cannot even be wired, the per-message questions are still
// answered against an interface registry filled by the ten modules' RegisterInterfaces (the same
// calls the app makes), so that the report names every affected message, not just the first.
func standaloneRegistry() (h *appHandles, err error) {
	defer func() {
		if r := recover(); r != nil {
			err = fmt.Errorf("%v", r)
		}
	}()
	ir, err := codectypes.NewInterfaceRegistryWithOptions(codectypes.InterfaceRegistryOptions{
		ProtoFiles: gogoproto.HybridResolver,
		SigningOptions: signing.Options{
			AddressCodec:          addresscodec.NewBech32Codec("cosmos"),
			ValidatorAddressCodec: addresscodec.NewBech32Codec("cosmosvaloper"),
		},
	})
	if err != nil {
		return nil, err
	}
	std.RegisterInterfaces(ir)
	for _, b := range []interface {
		RegisterInterfaces(codectypes.InterfaceRegistry)
	}{coinswap.AppModuleBasic{}, farm.AppModuleBasic{}, htlc.AppModuleBasic{}, mt.AppModuleBasic{}, nft.AppModuleBasic{},
		oracle.AppModuleBasic{}, random.AppModuleBasic{}, record.AppModuleBasic{}, service.AppModuleBasic{}, tokenmod.AppModuleBasic{}} {
		b.RegisterInterfaces(ir)
	}
	return &appHandles{ir: ir, cdc: codec.NewProtoCodec(ir)}, nil
}

var notRegisteredRe = regexp.MustCompile(`type_url /(\S+) has not been registered`)

func classifyWiringError(msg string) string {
	switch {
	case notRegisteredRe.MatchString(msg):
		return "msg-not-registered"
	case strings.Contains(msg, "ProvideInterfaceRegistry"), strings.Contains(msg, "signer"):
		return "signer-validation"
	}
	return "other"
}

type signerLeaf struct {
	path  []protoreflect.FieldNumber // from the Msg down to the string field
	names []string
	fd    protoreflect.FieldDescriptor
}

// signerLeaves follows cosmos.msg.v1.signer from a message down to string fields. problems are
// (rule, field) pairs.
func signerLeaves(md protoreflect.MessageDescriptor, depth int) (leaves []signerLeaf, problems [][2]string) {
	v, ok := option(md.Options(), "cosmos.msg.v1.signer")
	if !ok || v.List().Len() == 0 {
		return nil, [][2]string{{"no-signer-option", ""}}
	}
	if depth > 6 {
		return nil, [][2]string{{"signer-path-too-deep", ""}}
	}
	for i := 0; i < v.List().Len(); i++ {
		name := v.List().Get(i).String()
		fd := md.Fields().ByName(protoreflect.Name(name))
		if fd == nil {
			problems = append(problems, [2]string{"signer-field-missing", name})
			continue
		}
		if fd.IsMap() || fd.HasOptionalKeyword() {
			problems = append(problems, [2]string{"signer-field-map-or-optional", name})
			continue
		}
		switch fd.Kind() {
		case protoreflect.StringKind:
			leaves = append(leaves, signerLeaf{path: []protoreflect.FieldNumber{fd.Number()}, names: []string{name}, fd: fd})
		case protoreflect.MessageKind:
			if fd.IsList() {
				problems = append(problems, [2]string{"signer-field-not-string", name})
				continue
			}
			sub, ps := signerLeaves(fd.Message(), depth+1)
			for _, p := range ps {
				problems = append(problems, [2]string{"nested-" + p[0], name + "." + p[1]})
			}
			for _, l := range sub {
				leaves = append(leaves, signerLeaf{path: append([]protoreflect.FieldNumber{fd.Number()}, l.path...),
					names: append([]string{name}, l.names...), fd: l.fd})
			}
		default:
			problems = append(problems, [2]string{"signer-field-not-string", name})
		}
	}
	return
}

// withSigner sets the signer leaf to addr inside v (a value of message type md), keeping whatever
// else v holds and filling messages on the way with their minimal value.
func withSigner(g *generator, md protoreflect.MessageDescriptor, v *aval, l signerLeaf, i int, addr string) *aval {
	num := l.path[i]
	if i == len(l.path)-1 {
		if l.fd.IsList() {
			return v.with(afield{num: num, isList: true, list: []aelem{*sv(addr)}})
		}
		return v.with(afield{num: num, single: sv(addr)})
	}
	sub := md.Fields().ByNumber(num).Message()
	var cur *aval
	for _, f := range v.fields {
		if f.num == num && f.single != nil && f.single.msg != nil {
			cur = f.single.msg
		}
	}
	if cur == nil {
		cur = g.minimal(sub, 0)
	}
	return v.with(afield{num: num, single: &aelem{msg: withSigner(g, sub, cur, l, i+1, addr)}})
}

func msgSignersPart() mc.Part {
	return mc.Part{Name: "msg-signers", Run: func(tier string, known []mc.KnownFinding, dl time.Time) mc.PartReport {
		start := time.Now()
		rep := mc.PartReport{Rule: "for every rpc of every service named Msg, in the descriptors of both families: the service carries cosmos.msg.v1.service, the request type carries cosmos.msg.v1.signer, every named field exists and is a string or a message whose own signer option leads to a string; the request type resolves in the application's interface registry to the gogoproto Go type and is listed as an implementation of cosmos.base.v1beta1.Msg; with only the signer field set to a bech32 account address the application's signing context (api/ message) and codec (gogoproto message) both return exactly that address as signer; msgservice.ValidateProtoAnnotations over each family's irismod files and the signing context's Validate() pass. Whether the signer field carries (cosmos_proto.scalar)=\"cosmos.AddressString\" is recorded in bounds.signer_fields_without_address_annotation, not judged (the statement asks for a field that holds an address, which the get-signers evaluation establishes)"}
		w, err := loadWorld()
		if err != nil {
			rep.Internal = err.Error()
			return rep
		}
		c := newCollector()
		var evals int64
		app, appErr := buildApp()
		usedFallback := false
		if appErr != nil {
			c.add("C20/msg/app-wiring-fails/"+classifyWiringError(appErr.Error()), "building the application (interface registry, Msg router, signing context) fails: "+appErr.Error())
			if app, err = standaloneRegistry(); err != nil {
				app = nil
			} else {
				usedFallback = true
			}
		}
		var msgImpls map[string]bool
		var addrBytes []byte
		var addr string
		if app != nil {
			msgImpls = map[string]bool{}
			for _, u := range app.ir.ListImplementations(sdk.MsgInterfaceProtoName) {
				msgImpls[u] = true
			}
			addrBytes = mc.Addr("A")
			addr, err = app.ir.SigningContext().AddressCodec().BytesToString(addrBytes)
			if err != nil {
				rep.Internal = "address codec: " + err.Error()
				return rep
			}
		}
		unannotated := map[string]bool{}
		gen := newGenerator(famPulsar, "")
		var blocked []string
		annotated := 0
		nServices, nMsgs := 0, 0
		var samples []interface{}
		famFiles := map[string][]protoreflect.FileDescriptor{}
		for _, f := range w.src {
			for _, fam := range []string{famGogo, famPulsar} {
				ff := w.fam(fam)[f.Path]
				if ff == nil {
					continue
				}
				famFiles[fam] = append(famFiles[fam], ff.fd)
				sd := ff.fd.Services().ByName("Msg")
				if sd == nil {
					continue
				}
				evals++
				if fam == famPulsar {
					nServices++
				}
				if !optionBool(sd.Options(), "cosmos.msg.v1.service", false) {
					c.add(fmt.Sprintf("C20/msg/%s/service-option-missing/%s", fam, sd.FullName()),
						fmt.Sprintf("service %s in %s lacks option (cosmos.msg.v1.service) = true", sd.FullName(), f.Path), f.Path)
				}
				for i := 0; i < sd.Methods().Len(); i++ {
					md := sd.Methods().Get(i).Input()
					name := md.FullName()
					evals++
					leaves, problems := signerLeaves(md, 0)
					for _, p := range problems {
						sig := fmt.Sprintf("C20/msg/%s/%s/%s", fam, p[0], name)
						if p[1] != "" {
							sig += "/" + p[1]
						}
						c.add(sig, fmt.Sprintf("%s (rpc %s, %s family): %s %s", name, sd.Methods().Get(i).FullName(), fam, p[0], p[1]), f.Path, string(name))
					}
					for _, l := range leaves {
						sc := optionString(l.fd.Options(), "cosmos_proto.scalar")
						if strings.HasSuffix(sc, "AddressString") {
							if fam == famPulsar {
								annotated++
							}
						} else {
							unannotated[string(name)+"."+strings.Join(l.names, ".")] = true
						}
					}
					if fam != famPulsar {
						continue
					}
					nMsgs++
					if app == nil {
						continue
					}
					// registered with the interface registry as an sdk.Msg, resolving to the gogoproto type
					url := "/" + string(name)
					evals++
					resolved, err := app.ir.Resolve(url)
					gt, gerr := gogoType(name)
					switch {
					case err != nil:
						c.add(fmt.Sprintf("C20/msg/not-registered/%s", name), fmt.Sprintf("interface registry cannot resolve %s: %v", url, err), f.Path, string(name))
					case gerr == nil && reflect.TypeOf(resolved) != gt:
						c.add(fmt.Sprintf("C20/msg/registered-go-type-differs/%s", name), fmt.Sprintf("registry resolves %s to %T, gogoproto registers %s", url, resolved, gt), f.Path, string(name))
					}
					if err == nil && !msgImpls[url] {
						c.add(fmt.Sprintf("C20/msg/not-an-sdk-msg/%s", name), fmt.Sprintf("%s is not listed as an implementation of %s", url, sdk.MsgInterfaceProtoName), f.Path, string(name))
					}
					// behaviour: the declared signer field is read as an address
					if len(leaves) == 0 || len(problems) > 0 {
						continue
					}
					mt, err := pulsarType(name)
					if err != nil || gerr != nil {
						continue // inventory part reports it
					}
					// the smallest value both families can represent, with the signer field(s) set
					val := gen.minimal(md, 0)
					want := [][]byte{}
					for _, l := range leaves {
						val = withSigner(gen, md, val, l, 0, addr)
						want = append(want, addrBytes)
					}
					pm := mt.New()
					if err := apply(val, pm); err != nil {
						c.add(fmt.Sprintf("C20/msg/signer-field-not-settable/%s", name), err.Error(), f.Path, string(name))
						continue
					}
					evals++
					got, err := app.ir.SigningContext().GetSigners(pm.Interface())
					if err != nil {
						c.add(fmt.Sprintf("C20/msg/get-signers-fails/pulsar/%s", name), fmt.Sprintf("signing context on %s with %s=%s: %v", name, strings.Join(leaves[0].names, "."), addr, err), f.Path, string(name))
					} else if !sameSigners(got, want) {
						c.add(fmt.Sprintf("C20/msg/get-signers-wrong/pulsar/%s", name), fmt.Sprintf("signing context on %s returns %x, want %x", name, got, want), f.Path, string(name))
					}
					// the same through the gogoproto type; a message that does not even survive the
					// cross-family round trip is the round-trip part's finding, not a second one here
					if fail := pulsarToGogo(mt, gt, namedVal{name: "minimal+signer", v: val}); fail != nil {
						blocked = append(blocked, fmt.Sprintf("%s: %s", name, fail.symptom))
						continue
					}
					b, _ := pulsarEncode(pm)
					gm, err := gogoDecode(gt, b)
					if err != nil {
						continue
					}
					evals++
					got, _, err = app.cdc.GetMsgV1Signers(gm)
					if err != nil {
						c.add(fmt.Sprintf("C20/msg/get-signers-fails/gogo/%s", name), fmt.Sprintf("codec.GetMsgV1Signers on %T with %s=%s: %v", gm, strings.Join(leaves[0].names, "."), addr, err), f.Path, string(name))
					} else if !sameSigners(got, want) {
						c.add(fmt.Sprintf("C20/msg/get-signers-wrong/gogo/%s", name), fmt.Sprintf("codec.GetMsgV1Signers on %T returns %x, want %x", gm, got, want), f.Path, string(name))
					}
					// differential oracle for "the field that holds the signer's address": where the hand-written Go type
					// still has the legacy GetSigners(), both notions of who signs must agree on a message whose every
					// string field holds a different address
					if fm := fillAddresses(mt, leaves[0].names); fm != nil {
						if fb, err := pulsarEncode(fm); err == nil {
							if fgm, err := gogoDecode(gt, fb); err == nil {
								if lg, ok := fgm.(interface{ GetSigners() []sdk.AccAddress }); ok {
									var legacy [][]byte
									func() {
										defer func() { _ = recover() }()
										for _, a := range lg.GetSigners() {
											legacy = append(legacy, a)
										}
									}()
									v1, _, err := app.cdc.GetMsgV1Signers(fgm)
									evals++
									if legacy != nil && err == nil && !sameSigners(v1, legacy) {
										c.add(fmt.Sprintf("C20/msg/signer-differs-from-legacy-get-signers/%s", name),
											fmt.Sprintf("%s: the field named by cosmos.msg.v1.signer yields %x, the type's own GetSigners() %x (every string field was set to a different address)", name, v1, legacy), f.Path, string(name))
									}
								}
							}
						}
					}
					if len(samples) < 3 {
						samples = append(samples, fmt.Sprintf("%s: signer %s (scalar %q) -> registry %T, signers %x", name, strings.Join(leaves[0].names, "."),
							optionString(leaves[0].fd.Options(), "cosmos_proto.scalar"), resolved, got))
					}
				}
			}
		}
		// the SDK's own validators
		for _, fam := range []string{famGogo, famPulsar} {
			var r famResolver
			if fam == famGogo {
				r = famResolver{lookup: gogoproto.GogoResolver, files: famFiles[fam]}
			} else {
				r = famResolver{lookup: protoregistry.GlobalFiles, files: famFiles[fam]}
			}
			evals++
			if err := msgservice.ValidateProtoAnnotations(r); err != nil {
				c.add("C20/msg/validate-proto-annotations/"+fam, fmt.Sprintf("msgservice.ValidateProtoAnnotations over the %s family's irismod files: %v", fam, err))
			}
		}
		if app != nil {
			evals++
			if err := app.ir.SigningContext().Validate(); err != nil {
				c.add("C20/msg/signing-context-validate", "InterfaceRegistry().SigningContext().Validate(): "+mc.Normalize(err.Error()))
			}
		}
		var un []string
		for k := range unannotated {
			un = append(un, k)
		}
		sort.Strings(un)
		rep.Evaluations = evals
		rep.Nontrivial = int64(nMsgs)
		rep.Exhaustive = true
		rep.Bounds = map[string]interface{}{"msg_services": nServices, "transaction_message_types": nMsgs,
			"signer_fields_with_address_annotation": annotated, "signer_fields_without_address_annotation": un,
			"signer_extraction_not_evaluated_because_roundtrip_fails": blocked, "interface_registry": map[bool]string{false: "application (e2e.AppConfig via depinject)", true: "standalone: std + the ten modules' RegisterInterfaces (application wiring failed)"}[usedFallback]}
		rep.Samples = samples
		c.finish(&rep, known)
		rep.WallS = time.Since(start).Seconds()
		return rep
	}}
}

func sameSigners(a, b [][]byte) bool {
	if len(a) != len(b) {
		return false
	}
	for i := range a {
		if !bytes.Equal(a[i], b[i]) {
			return false
		}
	}
	return true
}

// fillAddresses builds a message of the type whose every string field holds a different valid bech32 account
// address: all top-level string fields, and those of the nested messages along the declared signer path (other
// nested messages - coins, custom number types - are left empty so that the message still decodes).
func fillAddresses(mt protoreflect.MessageType, signerPath []string) protoreflect.Message {
	n := 0
	var fill func(m protoreflect.Message, path []string)
	fill = func(m protoreflect.Message, path []string) {
		fds := m.Descriptor().Fields()
		for i := 0; i < fds.Len(); i++ {
			fd := fds.Get(i)
			if fd.IsList() || fd.IsMap() {
				continue
			}
			switch fd.Kind() {
			case protoreflect.StringKind:
				n++
				m.Set(fd, protoreflect.ValueOfString(sdk.AccAddress(h20(n)).String()))
			case protoreflect.MessageKind:
				if len(path) > 1 && string(fd.Name()) == path[0] {
					fill(m.Mutable(fd).Message(), path[1:])
				}
			}
		}
	}
	m := mt.New()
	func() {
		defer func() {
			if recover() != nil {
				m = nil
			}
		}()
		fill(m, signerPath)
	}()
	return m
}

func h20(n int) []byte {
	b := make([]byte, 20)
	for i := range b {
		b[i] = byte(n*31 + i)
	}
	return b
}
