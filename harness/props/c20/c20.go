// Package c20: the two generated protobuf families (gogoproto code under modules/*/types and
// protobuf-go "pulsar" code under api/) describe and encode every irismod message identically, and
// every transaction message is registered and declares an existing address field as signer.
//
// No application state is involved: the check enumerates all descriptors and a bounded,
// descriptor-driven value space.
package c20

import (
	"fmt"
	"reflect"
	"regexp"
	"sort"
	"strings"
	"time"

	gogoproto "github.com/cosmos/gogoproto/proto"
	"google.golang.org/protobuf/reflect/protoreflect"
	"google.golang.org/protobuf/reflect/protoregistry"

	"verif/harness/mc"
)

var unresolvedRe = regexp.MustCompile(`(^| )\\?[0-9]+:`)

// maxReported caps the violations listed per part (each writes a replay file); the total is in the
// detail of the last one.
const maxReported = 40

type collector struct {
	seen  map[string]int
	order []string
	first map[string]mc.Violation
}

func newCollector() *collector {
	return &collector{seen: map[string]int{}, first: map[string]mc.Violation{}}
}

func (c *collector) add(sig, detail string, path ...string) {
	if c.seen[sig] == 0 {
		c.order = append(c.order, sig)
		c.first[sig] = mc.Violation{Finding: mc.Finding{Sig: sig, Detail: detail}, Path: path}
	}
	c.seen[sig]++
}

// finish splits what was collected into violations and known findings (exact signature match with a
// status "known" entry of known_findings.json) and stores both in the report.
func (c *collector) finish(rep *mc.PartReport, known []mc.KnownFinding) {
	var out []mc.Violation
	unlisted := 0
	for _, sig := range c.order {
		v := c.first[sig]
		if n := c.seen[sig]; n > 1 {
			v.Detail += fmt.Sprintf(" [%d cases with this signature]", n)
		}
		if mc.MatchKnown(known, sig) != nil {
			if rep.KnownSeen == nil {
				rep.KnownSeen = map[string]mc.Violation{}
			}
			rep.KnownSeen[sig] = v
			continue
		}
		if len(out) >= maxReported {
			unlisted++
			continue
		}
		out = append(out, v)
	}
	if unlisted > 0 {
		out[len(out)-1].Detail += fmt.Sprintf(" [… and %d further distinct signatures not listed]", unlisted)
	}
	rep.Violations = out
}

// ---------------------------------------------------------------------------------------------

type world struct {
	src        []*srcFile
	gogo       map[string]*famFile // by path
	pulsar     map[string]*famFile
	pulsarOnly []string // files deliberately generated for api/ only
	loadErr    map[string]string
}

func loadWorld() (*world, error) {
	src, err := ScanProtoTree(ProtoRoot())
	if err != nil {
		return nil, err
	}
	if len(src) == 0 {
		return nil, fmt.Errorf("no .proto files under %s/irismod", ProtoRoot())
	}
	w := &world{src: src, gogo: map[string]*famFile{}, pulsar: map[string]*famFile{}, loadErr: map[string]string{}}
	for _, f := range src {
		if p, err := loadPulsar(f.Path); err == nil {
			w.pulsar[f.Path] = p
		} else {
			w.loadErr[famPulsar+" "+f.Path] = err.Error()
		}
		if g, err := loadGogo(f.Path); err == nil {
			w.gogo[f.Path] = g
		} else if !f.HasGoPackage {
			// scripts/protocgen.sh generates gogoproto code only for files that set go_package; the
			// app-wiring config objects (…/module/v1/module.proto) set none and exist in api/ only.
			w.pulsarOnly = append(w.pulsarOnly, f.Path)
		} else {
			w.loadErr[famGogo+" "+f.Path] = err.Error()
		}
	}
	return w, nil
}

func (w *world) fam(name string) map[string]*famFile {
	if name == famGogo {
		return w.gogo
	}
	return w.pulsar
}

func allMessages(fd protoreflect.FileDescriptor) []protoreflect.MessageDescriptor {
	var out []protoreflect.MessageDescriptor
	var walk func(ms protoreflect.MessageDescriptors)
	walk = func(ms protoreflect.MessageDescriptors) {
		for i := 0; i < ms.Len(); i++ {
			out = append(out, ms.Get(i))
			walk(ms.Get(i).Messages())
		}
	}
	walk(fd.Messages())
	return out
}

func allEnums(fd protoreflect.FileDescriptor) []protoreflect.EnumDescriptor {
	var out []protoreflect.EnumDescriptor
	for i := 0; i < fd.Enums().Len(); i++ {
		out = append(out, fd.Enums().Get(i))
	}
	for _, m := range allMessages(fd) {
		for i := 0; i < m.Enums().Len(); i++ {
			out = append(out, m.Enums().Get(i))
		}
	}
	return out
}

var scalarKinds = map[string]protoreflect.Kind{
	"double": protoreflect.DoubleKind, "float": protoreflect.FloatKind, "int32": protoreflect.Int32Kind,
	"int64": protoreflect.Int64Kind, "uint32": protoreflect.Uint32Kind, "uint64": protoreflect.Uint64Kind,
	"sint32": protoreflect.Sint32Kind, "sint64": protoreflect.Sint64Kind, "fixed32": protoreflect.Fixed32Kind,
	"fixed64": protoreflect.Fixed64Kind, "sfixed32": protoreflect.Sfixed32Kind, "sfixed64": protoreflect.Sfixed64Kind,
	"bool": protoreflect.BoolKind, "string": protoreflect.StringKind, "bytes": protoreflect.BytesKind,
}

func nameMatches(full protoreflect.FullName, written string) bool {
	written = strings.TrimPrefix(written, ".")
	return string(full) == written || strings.HasSuffix(string(full), "."+written)
}

// typeMatches compares a field type as written in the .proto with a linked field descriptor.
func typeMatches(written string, fd protoreflect.FieldDescriptor) bool {
	if strings.HasPrefix(written, "map<") {
		if !fd.IsMap() {
			return false
		}
		kv := strings.SplitN(strings.TrimSuffix(strings.TrimPrefix(written, "map<"), ">"), ",", 2)
		return len(kv) == 2 && elemTypeMatches(kv[0], fd.MapKey()) && elemTypeMatches(kv[1], fd.MapValue())
	}
	if fd.IsMap() {
		return false
	}
	return elemTypeMatches(written, fd)
}

func elemTypeMatches(written string, fd protoreflect.FieldDescriptor) bool {
	if k, ok := scalarKinds[written]; ok {
		return fd.Kind() == k
	}
	switch fd.Kind() {
	case protoreflect.MessageKind, protoreflect.GroupKind:
		return nameMatches(fd.Message().FullName(), written)
	case protoreflect.EnumKind:
		return nameMatches(fd.Enum().FullName(), written)
	}
	return false
}

// ---------------------------------------------------------------------------------------------
// part 1: inventory — everything declared in the .proto sources exists in both registries, and
// nothing else does.

func inventoryPart() mc.Part {
	return mc.Part{Name: "inventory", Run: func(tier string, known []mc.KnownFinding, dl time.Time) mc.PartReport {
		start := time.Now()
		rep := mc.PartReport{Rule: "every package/message/field(name,number,type,label)/enum value/service/rpc scanned from proto/irismod/**/*.proto must be present with the same shape in the gogoproto file registry and in protoregistry.GlobalFiles, with a Go type registered for every message and enum and a compiled gRPC service description for every service; nothing may be registered for these files that the sources do not declare. Files without go_package (…/module/v1/module.proto) are generated for api/ only by scripts/protocgen.sh and are required in the protobuf-go registry only"}
		w, err := loadWorld()
		if err != nil {
			rep.Internal = err.Error()
			return rep
		}
		c := newCollector()
		var evals int64
		var nMsgs, nEnums, nSvcs, nMethods, nFields, nEnumVals int
		gogoGrpc, pulsarGrpc := grpcDescs()
		for _, f := range w.src {
			nMsgs += len(f.Messages)
			nEnums += len(f.Enums)
			nSvcs += len(f.Services)
			for _, m := range f.Messages {
				nFields += len(m.Fields)
			}
			for _, e := range f.Enums {
				nEnumVals += len(e.Values)
			}
			for _, s := range f.Services {
				nMethods += len(s.Methods)
			}
			for _, fam := range []string{famGogo, famPulsar} {
				ff := w.fam(fam)[f.Path]
				evals++
				if ff == nil {
					if fam == famGogo && !f.HasGoPackage {
						continue
					}
					c.add(fmt.Sprintf("C20/inventory/%s/missing/file/%s", fam, f.Path), w.loadErr[fam+" "+f.Path], f.Path)
					continue
				}
				if string(ff.fd.Package()) != f.Package {
					c.add(fmt.Sprintf("C20/inventory/%s/differs-from-proto/file/%s/package", fam, f.Path),
						fmt.Sprintf("registered package %q, source says %q", ff.fd.Package(), f.Package), f.Path)
				}
				var regImports []string
				for i := 0; i < ff.fd.Imports().Len(); i++ {
					regImports = append(regImports, ff.fd.Imports().Get(i).Path())
				}
				evals++
				if strings.Join(regImports, ",") != strings.Join(f.Imports, ",") {
					c.add(fmt.Sprintf("C20/inventory/%s/differs-from-proto/file/%s/imports", fam, f.Path),
						fmt.Sprintf("registered imports %v, source imports %v", regImports, f.Imports), f.Path)
				}
				msgs := map[string]protoreflect.MessageDescriptor{}
				for _, m := range allMessages(ff.fd) {
					if !m.IsMapEntry() {
						msgs[string(m.FullName())] = m
					}
				}
				srcMsgs := map[string]bool{}
				for _, sm := range f.Messages {
					srcMsgs[sm.FullName] = true
					evals++
					md := msgs[sm.FullName]
					if md == nil {
						c.add(fmt.Sprintf("C20/inventory/%s/missing/message/%s", fam, sm.FullName), "declared in "+f.Path, f.Path, sm.FullName)
						continue
					}
					// a Go type must be registered
					if fam == famGogo {
						if _, err := gogoType(md.FullName()); err != nil {
							c.add(fmt.Sprintf("C20/inventory/gogo/no-go-type/%s", sm.FullName), err.Error(), f.Path, sm.FullName)
						}
					} else if _, err := pulsarType(md.FullName()); err != nil {
						c.add(fmt.Sprintf("C20/inventory/pulsar/no-go-type/%s", sm.FullName), err.Error(), f.Path, sm.FullName)
					}
					srcFields := map[string]bool{}
					for _, sf := range sm.Fields {
						srcFields[sf.Name] = true
						evals++
						fd := md.Fields().ByName(protoreflect.Name(sf.Name))
						fn := sm.FullName + "." + sf.Name
						if fd == nil {
							c.add(fmt.Sprintf("C20/inventory/%s/missing/field/%s", fam, fn), fmt.Sprintf("source: %s %s = %d", sf.Type, sf.Name, sf.Number), f.Path, fn)
							continue
						}
						if int32(fd.Number()) != sf.Number {
							c.add(fmt.Sprintf("C20/inventory/%s/differs-from-proto/field/%s/number", fam, fn),
								fmt.Sprintf("registered number %d, source says %d", fd.Number(), sf.Number), f.Path, fn)
						}
						if !typeMatches(sf.Type, fd) {
							c.add(fmt.Sprintf("C20/inventory/%s/differs-from-proto/field/%s/type", fam, fn),
								fmt.Sprintf("registered kind %s, source says %s", describeType(fd), sf.Type), f.Path, fn)
						}
						wantList := sf.Label == "repeated"
						if fd.IsList() != wantList {
							c.add(fmt.Sprintf("C20/inventory/%s/differs-from-proto/field/%s/label", fam, fn),
								fmt.Sprintf("registered repeated=%v, source label %q", fd.IsList(), sf.Label), f.Path, fn)
						}
						if (sf.Label == "optional") != fd.HasOptionalKeyword() && ff.fd.Syntax() == protoreflect.Proto3 {
							c.add(fmt.Sprintf("C20/inventory/%s/differs-from-proto/field/%s/optional", fam, fn),
								fmt.Sprintf("registered optional=%v, source label %q", fd.HasOptionalKeyword(), sf.Label), f.Path, fn)
						}
						oo := ""
						if o := fd.ContainingOneof(); o != nil && !o.IsSynthetic() {
							oo = string(o.Name())
						}
						if oo != sf.Oneof {
							c.add(fmt.Sprintf("C20/inventory/%s/differs-from-proto/field/%s/oneof", fam, fn),
								fmt.Sprintf("registered oneof %q, source oneof %q", oo, sf.Oneof), f.Path, fn)
						}
					}
					for i := 0; i < md.Fields().Len(); i++ {
						if n := string(md.Fields().Get(i).Name()); !srcFields[n] {
							c.add(fmt.Sprintf("C20/inventory/%s/not-in-proto/field/%s.%s", fam, sm.FullName, n), "registered but not declared in "+f.Path, f.Path)
						}
					}
				}
				for _, n := range sortedKeys(msgs) {
					if !srcMsgs[n] {
						c.add(fmt.Sprintf("C20/inventory/%s/not-in-proto/message/%s", fam, n), "registered but not declared in "+f.Path, f.Path)
					}
				}
				enums := map[string]protoreflect.EnumDescriptor{}
				for _, e := range allEnums(ff.fd) {
					enums[string(e.FullName())] = e
				}
				srcEnums := map[string]bool{}
				for _, se := range f.Enums {
					srcEnums[se.FullName] = true
					evals++
					ed := enums[se.FullName]
					if ed == nil {
						c.add(fmt.Sprintf("C20/inventory/%s/missing/enum/%s", fam, se.FullName), "declared in "+f.Path, f.Path)
						continue
					}
					reg := map[string]int32{}
					for i := 0; i < ed.Values().Len(); i++ {
						reg[string(ed.Values().Get(i).Name())] = int32(ed.Values().Get(i).Number())
					}
					if !reflect.DeepEqual(reg, se.Values) {
						c.add(fmt.Sprintf("C20/inventory/%s/differs-from-proto/enum/%s/values", fam, se.FullName),
							fmt.Sprintf("registered %v, source %v", reg, se.Values), f.Path)
					}
					// the Go-side value table
					evals++
					if fam == famGogo {
						gv := gogoproto.EnumValueMap(se.FullName)
						if gv == nil {
							c.add(fmt.Sprintf("C20/inventory/gogo/no-go-type/%s", se.FullName), "enum not registered with gogoproto", f.Path)
						} else if !reflect.DeepEqual(gv, se.Values) {
							c.add(fmt.Sprintf("C20/inventory/gogo/differs-from-proto/enum/%s/go-values", se.FullName),
								fmt.Sprintf("Go value map %v, source %v", gv, se.Values), f.Path)
						}
					} else if _, err := protoregistry.GlobalTypes.FindEnumByName(protoreflect.FullName(se.FullName)); err != nil {
						c.add(fmt.Sprintf("C20/inventory/pulsar/no-go-type/%s", se.FullName), err.Error(), f.Path)
					}
				}
				for _, n := range sortedKeys(enums) {
					if !srcEnums[n] {
						c.add(fmt.Sprintf("C20/inventory/%s/not-in-proto/enum/%s", fam, n), "registered but not declared in "+f.Path, f.Path)
					}
				}
				srcSvcs := map[string]bool{}
				for _, ss := range f.Services {
					srcSvcs[ss.FullName] = true
					evals++
					sd := ff.fd.Services().ByName(protoreflect.Name(ss.FullName[strings.LastIndex(ss.FullName, ".")+1:]))
					if sd == nil {
						c.add(fmt.Sprintf("C20/inventory/%s/missing/service/%s", fam, ss.FullName), "declared in "+f.Path, f.Path)
						continue
					}
					srcM := map[string]bool{}
					var names []string
					for _, sm := range ss.Methods {
						srcM[sm.Name] = true
						names = append(names, sm.Name)
						evals++
						mn := ss.FullName + "." + sm.Name
						md := sd.Methods().ByName(protoreflect.Name(sm.Name))
						if md == nil {
							c.add(fmt.Sprintf("C20/inventory/%s/missing/method/%s", fam, mn), "declared in "+f.Path, f.Path)
							continue
						}
						if !nameMatches(md.Input().FullName(), sm.In) || !nameMatches(md.Output().FullName(), sm.Out) ||
							md.IsStreamingClient() != sm.ClientStream || md.IsStreamingServer() != sm.SrvStream {
							c.add(fmt.Sprintf("C20/inventory/%s/differs-from-proto/method/%s/signature", fam, mn),
								fmt.Sprintf("registered (%s stream=%v) returns (%s stream=%v); source (%s stream=%v) returns (%s stream=%v)",
									md.Input().FullName(), md.IsStreamingClient(), md.Output().FullName(), md.IsStreamingServer(),
									sm.In, sm.ClientStream, sm.Out, sm.SrvStream), f.Path)
						}
					}
					for i := 0; i < sd.Methods().Len(); i++ {
						if n := string(sd.Methods().Get(i).Name()); !srcM[n] {
							c.add(fmt.Sprintf("C20/inventory/%s/not-in-proto/method/%s.%s", fam, ss.FullName, n), "registered but not declared in "+f.Path, f.Path)
						}
					}
					// the compiled gRPC service description of this family
					evals++
					gd, ok := gogoGrpc[ss.FullName]
					if fam == famPulsar {
						gd, ok = pulsarGrpc[ss.FullName]
					}
					if !ok {
						rep.Internal = fmt.Sprintf("service %s is not in the gRPC description table of props/c20/grpc.go (extend the table)", ss.FullName)
						continue
					}
					sort.Strings(names)
					var unary, streams []string
					for _, sm := range ss.Methods {
						if sm.ClientStream || sm.SrvStream {
							streams = append(streams, sm.Name)
						} else {
							unary = append(unary, sm.Name)
						}
					}
					sort.Strings(unary)
					sort.Strings(streams)
					if strings.Join(gd.Methods, ",") != strings.Join(unary, ",") || strings.Join(gd.Streams, ",") != strings.Join(streams, ",") {
						c.add(fmt.Sprintf("C20/inventory/%s/differs-from-proto/grpc-service/%s/methods", fam, ss.FullName),
							fmt.Sprintf("compiled gRPC description has methods %v streams %v; source declares %v / %v", gd.Methods, gd.Streams, unary, streams), f.Path)
					}
					if gd.Metadata != f.Path {
						c.add(fmt.Sprintf("C20/inventory/%s/differs-from-proto/grpc-service/%s/metadata", fam, ss.FullName),
							fmt.Sprintf("compiled gRPC description names file %q, source file is %q", gd.Metadata, f.Path), f.Path)
					}
				}
				for i := 0; i < ff.fd.Services().Len(); i++ {
					if n := string(ff.fd.Services().Get(i).FullName()); !srcSvcs[n] {
						c.add(fmt.Sprintf("C20/inventory/%s/not-in-proto/service/%s", fam, n), "registered but not declared in "+f.Path, f.Path)
					}
				}
			}
		}
		// files registered under irismod/ in either registry that have no source
		srcPaths := map[string]bool{}
		for _, f := range w.src {
			srcPaths[f.Path] = true
		}
		var extra []string
		protoregistry.GlobalFiles.RangeFiles(func(fd protoreflect.FileDescriptor) bool {
			if strings.HasPrefix(fd.Path(), "irismod/") && !srcPaths[fd.Path()] {
				extra = append(extra, famPulsar+" "+fd.Path())
			}
			return true
		})
		for p := range gogoproto.AllFileDescriptors() {
			if strings.HasPrefix(p, "irismod/") && !srcPaths[p] {
				extra = append(extra, famGogo+" "+p)
			}
		}
		sort.Strings(extra)
		for _, x := range extra {
			p := strings.SplitN(x, " ", 2)
			c.add(fmt.Sprintf("C20/inventory/%s/not-in-proto/file/%s", p[0], p[1]), "registered but no such file under proto/", p[1])
		}
		rep.Evaluations = evals
		rep.Nontrivial = int64(nMsgs)
		rep.Exhaustive = true
		rep.Bounds = map[string]interface{}{"proto_files": len(w.src), "messages": nMsgs, "fields": nFields, "enums": nEnums,
			"enum_values": nEnumVals, "services": nSvcs, "methods": nMethods, "files_in_gogo_registry": len(w.gogo),
			"files_in_protobuf_go_registry": len(w.pulsar), "api_only_files": w.pulsarOnly}
		rep.Samples = []interface{}{
			fmt.Sprintf("%d .proto files: %d messages, %d fields, %d enums (%d values), %d services, %d rpcs", len(w.src), nMsgs, nFields, nEnums, nEnumVals, nSvcs, nMethods),
			fmt.Sprintf("api-only by design (no go_package): %v", w.pulsarOnly),
		}
		c.finish(&rep, known)
		rep.WallS = time.Since(start).Seconds()
		return rep
	}}
}

func sortedKeys[V any](m map[string]V) []string {
	out := make([]string, 0, len(m))
	for k := range m {
		out = append(out, k)
	}
	sort.Strings(out)
	return out
}

func describeType(fd protoreflect.FieldDescriptor) string {
	switch {
	case fd.IsMap():
		return "map<" + describeType(fd.MapKey()) + "," + describeType(fd.MapValue()) + ">"
	case fd.Message() != nil:
		return string(fd.Message().FullName())
	case fd.Enum() != nil:
		return string(fd.Enum().FullName())
	}
	return fd.Kind().String()
}

// ---------------------------------------------------------------------------------------------
// part 2: the two descriptors of every file are the same

func descriptorsPart() mc.Part {
	return mc.Part{Name: "descriptors", Run: func(tier string, known []mc.KnownFinding, dl time.Time) mc.PartReport {
		start := time.Now()
		rep := mc.PartReport{Rule: "for every .proto file present in both families: the descriptor embedded (gzipped) in the gogoproto file and the descriptor registered by the api/ file are flattened into (element, aspect) -> canonical text and must agree on package, syntax, imports, declaration order, every message (options, field order, oneofs, reserved), field (number, type+type name, label, json name, oneof, proto3 optional, default, options), enum and value (number, options), service and method (input, output, streaming, options). Options are re-parsed with one extension resolver and printed canonically, so gogoproto.*, cosmos_proto.*, amino.*, cosmos.msg.v1.* extensions are compared by value whatever Go representation a registry holds. Set aside: the file-level code-generator options (go_package, java_*, csharp_namespace, objc_class_prefix, php_*, ruby_package, swift_prefix, optimize_for, cc_*, file-level gogoproto.*)"}
		w, err := loadWorld()
		if err != nil {
			rep.Internal = err.Error()
			return rep
		}
		c := newCollector()
		var evals int64
		compared := 0
		withOptions, unresolved := 0, 0
		elements := map[string]int{}
		var sample, fileSample []string
		for _, f := range w.src {
			g, p := w.gogo[f.Path], w.pulsar[f.Path]
			if g == nil || p == nil {
				continue // reported by the inventory part; api-only files have nothing to compare with
			}
			compared++
			fg, fp := flatten(g.fdp), flatten(p.fdp)
			n, diffs := diffFlat(fg, fp)
			evals += int64(n)
			for k, v := range fg {
				if k.Aspect == "options" {
					elements[k.Kind]++
					if v != "" {
						withOptions++
					}
					if strings.Contains(v, "?") && unresolvedRe.MatchString(v) {
						unresolved++
					}
				}
			}
			if len(fileSample) < 1 {
				k := flatKey{"file", f.Path, "options"}
				fileSample = append(fileSample, fmt.Sprintf("%s: both %q after setting code-generator options aside (gogo go_package=%q, api go_package=%q)", k, fg[k], g.fdp.GetOptions().GetGoPackage(), p.fdp.GetOptions().GetGoPackage()))
			}
			// an element present in one family only gives one finding, not one per aspect
			type el struct{ kind, name string }
			inG, inP := map[el]bool{}, map[el]bool{}
			for k := range fg {
				inG[el{k.Kind, k.Name}] = true
			}
			for k := range fp {
				inP[el{k.Kind, k.Name}] = true
			}
			done := map[el]bool{}
			for _, d := range diffs {
				e := el{d.Key.Kind, d.Key.Name}
				if inG[e] != inP[e] {
					if !done[e] {
						done[e] = true
						only := famGogo
						if inP[e] {
							only = famPulsar
						}
						c.add(fmt.Sprintf("C20/descriptor-differs/%s/%s/only-in-%s", e.kind, e.name, only),
							fmt.Sprintf("%s %s is described by the %s family only (file %s)", e.kind, e.name, only, f.Path), f.Path, e.name)
					}
					continue
				}
				c.add(fmt.Sprintf("C20/descriptor-differs/%s/%s/%s", d.Key.Kind, d.Key.Name, d.Key.Aspect),
					fmt.Sprintf("file %s, %s %s, %s: gogoproto family has %q, api (pulsar) family has %q", f.Path, d.Key.Kind, d.Key.Name, d.Key.Aspect, d.Gogo, d.Pulsar),
					f.Path, d.Key.Name, d.Key.Aspect)
			}
		}
		// sample: one field with extension options, to show what is compared
		if g := w.gogo["irismod/coinswap/tx.proto"]; g != nil {
			fg := flatten(g.fdp)
			k := flatKey{"field", "irismod.coinswap.MsgAddLiquidity.exact_standard_amt", "options"}
			sample = append(sample, fmt.Sprintf("%s = %s", k, fg[k]))
			k = flatKey{"message", "irismod.coinswap.MsgAddLiquidity", "options"}
			sample = append(sample, fmt.Sprintf("%s = %s", k, fg[k]))
		}
		sample = append(sample, fileSample...)
		rep.Evaluations = evals
		rep.Nontrivial = int64(elements["message"])
		rep.Exhaustive = true
		rep.Bounds = map[string]interface{}{"files_compared": compared, "api_only_files_not_comparable": w.pulsarOnly,
			"messages_incl_map_entries": elements["message"], "fields": elements["field"], "enums": elements["enum"], "enum_values": elements["enumvalue"],
			"services": elements["service"], "methods": elements["method"], "aspects_compared": evals,
			"elements_carrying_options": withOptions, "options_with_extensions_declared_in_no_linked_file_compared_as_raw_bytes": unresolved}
		for _, s := range sample {
			rep.Samples = append(rep.Samples, s)
		}
		c.finish(&rep, known)
		rep.WallS = time.Since(start).Seconds()
		return rep
	}}
}

// ---------------------------------------------------------------------------------------------
// part 3: cross-family encode/decode round trips

func roundtripPart() mc.Part {
	return mc.Part{Name: "roundtrip", Run: func(tier string, known []mc.KnownFinding, dl time.Time) mc.PartReport {
		start := time.Now()
		rep := mc.PartReport{Rule: "for every message type with code in both families and every generated value: (pulsar→gogo) the api/ type builds and encodes the value deterministically, the gogoproto Go type decodes and re-encodes it, the bytes must be identical and the api/ type must decode them to a message proto.Equal to the original; (gogo→pulsar) the value is loaded into the gogoproto Go type, encoded by it, decoded and re-encoded by the api/ type: identical bytes, a message equal to the value put in, and the gogoproto type decodes the api/ bytes back to the same bytes. Any decode error is a violation. Value set per message: all-default; each field alone over its domain (ints 1,-1,max,min; uints 1,max; bool; strings \"a\" and a 200-byte multi-byte one, plus a bech32 address for cosmos.AddressString fields; bytes 1/3/300 long; every enum value; repeated 1 default element/1 of each domain value/2; maps 1 default entry/1 per value/2 entries; messages minimal/populated/max to depth 2; Any empty and holding each irismod Msg; proto3-optional present-zero); all-populated; all-max. Generator restrictions (values one family cannot represent at all, so they are not 'bytes produced by either'): a field with gogoproto.nullable=false is always present (gogoproto holds it by value and always writes it), a non-nullable customtype math.Int/LegacyDec string always holds a canonical decimal integer (never empty: the Go zero value encodes as \"0\"; non-numeric text is rejected by the custom type), stdtime/stdduration fields stay inside time.Time/time.Duration range, and for maps with 2 entries bytes are compared up to entry order (gogoproto does not fix it). distinct_nontrivial = message types round-tripped with at least one populated field"}
		w, err := loadWorld()
		if err != nil {
			rep.Internal = err.Error()
			return rep
		}
		c := newCollector()
		addr := mc.Addr("A").String()
		gens := map[string]*generator{famPulsar: newGenerator(famPulsar, addr), famGogo: newGenerator(famGogo, addr)}
		// payloads for Any fields: every request type of every Msg service
		for _, fam := range []string{famPulsar, famGogo} {
			var mds []protoreflect.MessageDescriptor
			for _, f := range w.src {
				ff := w.fam(fam)[f.Path]
				if ff == nil {
					continue
				}
				if sd := ff.fd.Services().ByName("Msg"); sd != nil {
					for i := 0; i < sd.Methods().Len(); i++ {
						mds = append(mds, sd.Methods().Get(i).Input())
					}
				}
			}
			if err := gens[fam].buildAnyBlobs(mds); err != nil {
				rep.Internal = "building Any payloads from " + fam + " descriptors: " + err.Error()
				return rep
			}
		}
		depth := 2
		if tier == "thorough" {
			depth = 3
		}
		var evals, nontrivial int64
		var nMsgs, nSkipped, nValues int
		kinds := map[string]int{}
		exhaustive := true
		var samples []interface{}
		type rtCase struct {
			nv   namedVal
			dir  string
			fail *rtFailure
		}
		type rtMsg struct {
			name  protoreflect.FullName
			mt    protoreflect.MessageType
			gt    reflect.Type
			cases []rtCase
		}
		var order []*rtMsg
		byName := map[protoreflect.FullName]*rtMsg{}
		for _, f := range w.src {
			g, p := w.gogo[f.Path], w.pulsar[f.Path]
			if g == nil || p == nil {
				continue
			}
			gm := map[protoreflect.FullName]protoreflect.MessageDescriptor{}
			for _, m := range allMessages(g.fd) {
				gm[m.FullName()] = m
			}
			for _, pmd := range allMessages(p.fd) {
				if pmd.IsMapEntry() {
					continue
				}
				name := pmd.FullName()
				gmd := gm[name]
				mt, err1 := pulsarType(name)
				gt, err2 := gogoType(name)
				if gmd == nil || err1 != nil || err2 != nil {
					nSkipped++ // reported by the inventory part
					continue
				}
				if time.Now().After(dl) {
					exhaustive = false
					break
				}
				nMsgs++
				rm := &rtMsg{name: name, mt: mt, gt: gt}
				order = append(order, rm)
				byName[name] = rm
				populated := false
				pv := gens[famPulsar].values(pmd, depth)
				for _, nv := range pv {
					evals++
					nValues++
					kinds[nv.kind]++
					if nv.v.populatedFields() > 0 {
						populated = true
					}
					if fail := pulsarToGogo(mt, gt, nv); fail != nil {
						rm.cases = append(rm.cases, rtCase{nv, "pulsar-to-gogo", fail})
					}
				}
				evals++
				nValues++
				if fail := gogoZeroToPulsar(mt, gt); fail != nil {
					rm.cases = append(rm.cases, rtCase{namedVal{name: "go-zero-value", field: "-", kind: "all-default"}, "gogo-to-pulsar", fail})
				}
				for _, nv := range gens[famGogo].values(gmd, depth) {
					evals++
					nValues++
					if fail := gogoToPulsar(mt, gt, gmd, nv); fail != nil {
						rm.cases = append(rm.cases, rtCase{nv, "gogo-to-pulsar", fail})
					}
				}
				if populated {
					nontrivial++
				}
				if len(samples) < 3 && len(pv) > 3 && len(rm.cases) == 0 {
					nv := pv[len(pv)-2]
					m0 := mt.New()
					_ = apply(nv.v, m0)
					b, _ := pulsarEncode(m0)
					samples = append(samples, fmt.Sprintf("%s (%s): %d values each way; e.g. all-populated = %s round-trips identically", name, f.Path, len(pv), hx(b)))
				}
			}
		}
		// One defect, one signature: a message whose failures come from a nested message type that
		// fails by itself is folded into that type's finding; if the all-default value of a type
		// fails, everything else of that type is folded into the field(s) found to be the cause.
		var reach func(md protoreflect.MessageDescriptor, seen map[protoreflect.FullName]bool)
		reach = func(md protoreflect.MessageDescriptor, seen map[protoreflect.FullName]bool) {
			for i := 0; i < md.Fields().Len(); i++ {
				fd := md.Fields().Get(i)
				sub := fd.Message()
				if fd.IsMap() {
					sub = fd.MapValue().Message()
				}
				if sub != nil && !seen[sub.FullName()] {
					seen[sub.FullName()] = true
					reach(sub, seen)
				}
			}
		}
		containers := map[protoreflect.FullName][]string{}
		folded := map[protoreflect.FullName]bool{}
		for _, rm := range order {
			if len(rm.cases) == 0 {
				continue
			}
			seen := map[protoreflect.FullName]bool{}
			reach(rm.mt.Descriptor(), seen)
			var inner []protoreflect.FullName
			for n := range seen {
				if other := byName[n]; other != nil && n != rm.name && len(other.cases) > 0 {
					inner = append(inner, n)
				}
			}
			sort.Slice(inner, func(i, j int) bool { return inner[i] < inner[j] })
			if len(inner) > 0 {
				folded[rm.name] = true
				for _, n := range inner {
					containers[n] = append(containers[n], string(rm.name))
				}
			}
		}
		for _, rm := range order {
			if len(rm.cases) == 0 || folded[rm.name] {
				continue
			}
			suffix := ""
			if cs := containers[rm.name]; len(cs) > 0 {
				suffix = fmt.Sprintf(" — message types containing it fail the same way and are folded into this finding: %s", strings.Join(cs, ", "))
			}
			first := rm.cases[0]
			defaultFails := false
			for _, cse := range rm.cases {
				if cse.nv.name == "all-default" || cse.nv.name == "go-zero-value" {
					defaultFails = true
				}
			}
			if defaultFails {
				cul := culprits(gens[famPulsar], rm.mt, rm.gt)
				var names []string
				for n := range cul {
					names = append(names, n)
				}
				sort.Strings(names)
				dirs := map[string]string{}
				for _, cse := range rm.cases {
					if _, ok := dirs[cse.dir]; !ok {
						dirs[cse.dir] = fmt.Sprintf("%s, value %q: %s: %s", cse.dir, cse.nv.name, cse.fail.symptom, cse.fail.detail)
					}
				}
				var dl []string
				for _, d := range []string{"pulsar-to-gogo", "gogo-to-pulsar"} {
					if s, ok := dirs[d]; ok {
						dl = append(dl, s)
					}
				}
				if len(names) == 0 {
					c.add(fmt.Sprintf("C20/roundtrip-differs/%s/-/all-default", rm.name),
						fmt.Sprintf("%s fails already for its smallest value (%d of its cases fail). %s%s", rm.name, len(rm.cases), strings.Join(dl, " | "), suffix),
						string(rm.name), first.nv.name, first.dir)
				}
				for _, n := range names {
					fd := rm.mt.Descriptor().Fields().ByName(protoreflect.Name(n))
					c.add(fmt.Sprintf("C20/roundtrip-differs/%s/%s/%s", rm.name, n, fieldKind(gens[famPulsar], fd)),
						fmt.Sprintf("%s.%s (declared %s, options {%s}): %s. Every value of the message is affected (%d failing cases). %s%s",
							rm.name, n, describeType(fd), optText(fd.Options()), cul[n], len(rm.cases), strings.Join(dl, " | "), suffix),
						string(rm.name), first.nv.name, first.dir)
				}
				continue
			}
			// whole-message values (all-populated, all-max) only repeat what a single-field value
			// already shows; they get a signature of their own only when no single field fails
			perField := false
			for _, cse := range rm.cases {
				if cse.nv.field != "-" {
					perField = true
				}
			}
			for _, cse := range rm.cases {
				if perField && cse.nv.field == "-" {
					continue
				}
				c.add(fmt.Sprintf("C20/roundtrip-differs/%s/%s/%s", rm.name, cse.nv.field, cse.nv.kind),
					fmt.Sprintf("%s, %s, value %q: %s: %s%s", rm.name, cse.dir, cse.nv.name, cse.fail.symptom, cse.fail.detail, suffix),
					string(rm.name), cse.nv.name, cse.dir)
			}
		}
		var problems []string
		for _, g := range gens {
			for p := range g.problems {
				problems = append(problems, p)
			}
		}
		sort.Strings(problems)
		if len(problems) > 0 {
			rep.Internal = "value generator has no domain for: " + strings.Join(problems, "; ")
		}
		rep.Evaluations = evals
		rep.Nontrivial = nontrivial
		rep.Exhaustive = exhaustive
		rep.Bounds = map[string]interface{}{"message_types_round_tripped": nMsgs, "message_types_skipped_missing_in_a_family": nSkipped,
			"values_total_both_directions": nValues, "nesting_depth": depth, "values_by_field_kind_pulsar_direction": kinds,
			"any_payload_types": len(gens[famPulsar].anyBlobs), "api_only_files_without_gogo_type": w.pulsarOnly}
		rep.Samples = samples
		c.finish(&rep, known)
		rep.WallS = time.Since(start).Seconds()
		return rep
	}}
}

// Parts of the C20 check.
func Parts() []mc.Part {
	return []mc.Part{inventoryPart(), descriptorsPart(), roundtripPart(), msgSignersPart(), routesPart()}
}
