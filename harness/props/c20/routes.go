package c20

import (
	"context"
	"fmt"
	"reflect"
	"sort"
	"time"

	"google.golang.org/grpc"
	"google.golang.org/protobuf/reflect/protoreflect"
	"google.golang.org/protobuf/reflect/protoregistry"

	apicoinswap "mods.irisnet.org/api/irismod/coinswap"
	apifarm "mods.irisnet.org/api/irismod/farm"
	apihtlc "mods.irisnet.org/api/irismod/htlc"
	apimt "mods.irisnet.org/api/irismod/mt"
	apinft "mods.irisnet.org/api/irismod/nft"
	apioracle "mods.irisnet.org/api/irismod/oracle"
	apirandom "mods.irisnet.org/api/irismod/random"
	apirecord "mods.irisnet.org/api/irismod/record"
	apiservice "mods.irisnet.org/api/irismod/service"
	apitokenv1 "mods.irisnet.org/api/irismod/token/v1"
	apitokenv1beta1 "mods.irisnet.org/api/irismod/token/v1beta1"

	coinswaptypes "mods.irisnet.org/modules/coinswap/types"
	farmtypes "mods.irisnet.org/modules/farm/types"
	htlctypes "mods.irisnet.org/modules/htlc/types"
	mttypes "mods.irisnet.org/modules/mt/types"
	nfttypes "mods.irisnet.org/modules/nft/types"
	oracletypes "mods.irisnet.org/modules/oracle/types"
	randomtypes "mods.irisnet.org/modules/random/types"
	recordtypes "mods.irisnet.org/modules/record/types"
	servicetypes "mods.irisnet.org/modules/service/types"
	tokenv1 "mods.irisnet.org/modules/token/types/v1"
	tokenv1beta1 "mods.irisnet.org/modules/token/types/v1beta1"

	"verif/harness/mc"
)

// The Go side of "service methods", as a client sees it: every generated client stub of both families is
// called once on a connection that records the route it asks for. The route of method M of service S must be
// "/S/M" with S the service of the .proto package the stub belongs to - otherwise the call is served by
// another service (or by none), whatever the descriptors say.

type routeRecorder struct{ routes []string }

var errRecorded = fmt.Errorf("route recorded")

func (r *routeRecorder) Invoke(_ context.Context, method string, _, _ interface{}, _ ...grpc.CallOption) error {
	r.routes = append(r.routes, method)
	return errRecorded
}

func (r *routeRecorder) NewStream(_ context.Context, _ *grpc.StreamDesc, method string, _ ...grpc.CallOption) (grpc.ClientStream, error) {
	r.routes = append(r.routes, method)
	return nil, errRecorded
}

type stubSet struct {
	family, service string
	newClient       interface{}
}

func stubSets() []stubSet {
	var out []stubSet
	add := func(fam, pkg string, msg, query interface{}) {
		out = append(out, stubSet{fam, pkg + ".Msg", msg}, stubSet{fam, pkg + ".Query", query})
	}
	add("api", "irismod.coinswap", apicoinswap.NewMsgClient, apicoinswap.NewQueryClient)
	add("api", "irismod.farm", apifarm.NewMsgClient, apifarm.NewQueryClient)
	add("api", "irismod.htlc", apihtlc.NewMsgClient, apihtlc.NewQueryClient)
	add("api", "irismod.mt", apimt.NewMsgClient, apimt.NewQueryClient)
	add("api", "irismod.nft", apinft.NewMsgClient, apinft.NewQueryClient)
	add("api", "irismod.oracle", apioracle.NewMsgClient, apioracle.NewQueryClient)
	add("api", "irismod.random", apirandom.NewMsgClient, apirandom.NewQueryClient)
	add("api", "irismod.record", apirecord.NewMsgClient, apirecord.NewQueryClient)
	add("api", "irismod.service", apiservice.NewMsgClient, apiservice.NewQueryClient)
	add("api", "irismod.token.v1", apitokenv1.NewMsgClient, apitokenv1.NewQueryClient)
	add("api", "irismod.token", apitokenv1beta1.NewMsgClient, apitokenv1beta1.NewQueryClient)
	add("modules", "irismod.coinswap", coinswaptypes.NewMsgClient, coinswaptypes.NewQueryClient)
	add("modules", "irismod.farm", farmtypes.NewMsgClient, farmtypes.NewQueryClient)
	add("modules", "irismod.htlc", htlctypes.NewMsgClient, htlctypes.NewQueryClient)
	add("modules", "irismod.mt", mttypes.NewMsgClient, mttypes.NewQueryClient)
	add("modules", "irismod.nft", nfttypes.NewMsgClient, nfttypes.NewQueryClient)
	add("modules", "irismod.oracle", oracletypes.NewMsgClient, oracletypes.NewQueryClient)
	add("modules", "irismod.random", randomtypes.NewMsgClient, randomtypes.NewQueryClient)
	add("modules", "irismod.record", recordtypes.NewMsgClient, recordtypes.NewQueryClient)
	add("modules", "irismod.service", servicetypes.NewMsgClient, servicetypes.NewQueryClient)
	add("modules", "irismod.token.v1", tokenv1.NewMsgClient, tokenv1.NewQueryClient)
	add("modules", "irismod.token", tokenv1beta1.NewMsgClient, tokenv1beta1.NewQueryClient)
	return out
}

func routesPart() mc.Part {
	return mc.Part{Name: "client-routes", Run: func(tier string, known []mc.KnownFinding, dl time.Time) mc.PartReport {
		start := time.Now()
		c := newCollector()
		var calls int64
		seenSvc := map[string]map[string]bool{} // family -> service
		for _, st := range stubSets() {
			// the methods the .proto source declares for this service (api-family registry = protoregistry)
			want := map[string]bool{}
			if d, err := protoregistry.GlobalFiles.FindDescriptorByName(protoreflect.FullName(st.service)); err == nil {
				if sd, ok := d.(protoreflect.ServiceDescriptor); ok {
					for i := 0; i < sd.Methods().Len(); i++ {
						want[string(sd.Methods().Get(i).Name())] = true
					}
				}
			}
			if len(want) == 0 {
				c.add("C20/routes/"+st.family+"/service-not-in-descriptors/"+st.service, "the stubs of "+st.service+" have no service descriptor")
				continue
			}
			if seenSvc[st.family] == nil {
				seenSvc[st.family] = map[string]bool{}
			}
			seenSvc[st.family][st.service] = true
			rec := &routeRecorder{}
			ctor := reflect.ValueOf(st.newClient)
			client := ctor.Call([]reflect.Value{reflect.ValueOf(rec)})[0]
			ct := client.Type()
			have := map[string]bool{}
			for i := 0; i < ct.NumMethod(); i++ {
				m := ct.Method(i)
				mt := m.Type
				// interface method: (ctx, *Req, ...CallOption)
				if mt.NumIn() < 2 || mt.In(1).Kind() != reflect.Ptr {
					continue
				}
				have[m.Name] = true
				before := len(rec.routes)
				func() {
					defer func() { _ = recover() }()
					client.Method(i).Call([]reflect.Value{reflect.ValueOf(context.Background()), reflect.New(mt.In(1).Elem())})
				}()
				calls++
				wantRoute := "/" + st.service + "/" + m.Name
				switch {
				case len(rec.routes) != before+1:
					c.add(fmt.Sprintf("C20/routes/%s/no-call/%s/%s", st.family, st.service, m.Name), "the client stub made no call on the connection")
				case rec.routes[before] != wantRoute:
					c.add(fmt.Sprintf("C20/routes/%s/wrong-route/%s/%s", st.family, st.service, m.Name),
						fmt.Sprintf("the %s-family client stub %s.%s calls route %q; the service method is %q", st.family, st.service, m.Name, rec.routes[before], wantRoute))
				}
				if !want[m.Name] {
					c.add(fmt.Sprintf("C20/routes/%s/method-not-in-proto/%s/%s", st.family, st.service, m.Name), "client stub without a method in the service descriptor")
				}
			}
			var missing []string
			for m := range want {
				if !have[m] {
					missing = append(missing, m)
				}
			}
			sort.Strings(missing)
			for _, m := range missing {
				c.add(fmt.Sprintf("C20/routes/%s/missing-stub/%s/%s", st.family, st.service, m), "the service descriptor declares the method, the generated client has no stub for it")
			}
		}
		// every service under irismod has stubs in both families
		protoregistry.GlobalFiles.RangeFiles(func(fd protoreflect.FileDescriptor) bool {
			if len(fd.Path()) < 8 || fd.Path()[:8] != "irismod/" {
				return true
			}
			for i := 0; i < fd.Services().Len(); i++ {
				n := string(fd.Services().Get(i).FullName())
				for _, fam := range []string{"api", "modules"} {
					if !seenSvc[fam][n] {
						c.add("C20/routes/"+fam+"/service-without-stubs/"+n, "service "+n+" has no client stubs in the "+fam+" family known to the check")
					}
				}
			}
			return true
		})
		rep := mc.PartReport{Exhaustive: true, Evaluations: calls, Nontrivial: calls, WallS: time.Since(start).Seconds(),
			Bounds: map[string]interface{}{"client_stub_methods_called": calls, "stub_sets": len(stubSets())},
			Rule:   "one call of one generated client stub method on a recording connection"}
		c.finish(&rep, known)
		return rep
	}}
}
