package c20

import (
	"sort"

	"google.golang.org/grpc"

	apicoinswap "mods.irisnet.org/api/irismod/coinswap"
	_ "mods.irisnet.org/api/irismod/coinswap/module/v1"
	apifarm "mods.irisnet.org/api/irismod/farm"
	_ "mods.irisnet.org/api/irismod/farm/module/v1"
	apihtlc "mods.irisnet.org/api/irismod/htlc"
	_ "mods.irisnet.org/api/irismod/htlc/module/v1"
	apimt "mods.irisnet.org/api/irismod/mt"
	_ "mods.irisnet.org/api/irismod/mt/module/v1"
	apinft "mods.irisnet.org/api/irismod/nft"
	_ "mods.irisnet.org/api/irismod/nft/module/v1"
	apioracle "mods.irisnet.org/api/irismod/oracle"
	_ "mods.irisnet.org/api/irismod/oracle/module/v1"
	apirandom "mods.irisnet.org/api/irismod/random"
	_ "mods.irisnet.org/api/irismod/random/module/v1"
	apirecord "mods.irisnet.org/api/irismod/record"
	_ "mods.irisnet.org/api/irismod/record/module/v1"
	apiservice "mods.irisnet.org/api/irismod/service"
	_ "mods.irisnet.org/api/irismod/service/module/v1"
	_ "mods.irisnet.org/api/irismod/token/module/v1"
	apitokenv1 "mods.irisnet.org/api/irismod/token/v1"
	apitokenv1beta1 "mods.irisnet.org/api/irismod/token/v1beta1"

	coinswaptypes "mods.irisnet.org/modules/coinswap/types"
	farmtypes "mods.irisnet.org/modules/farm/types"
	htlctypes "mods.irisnet.org/modules/htlc/types"
	mttypes "mods.irisnet.org/modules/mt/types"
	nfttypes "mods.irisnet.org/modules/nft/types"
	oracletypes "mods.irisnet.org/modules/oracle/types"
	randomtypes "mods.irisnet.org/modules/random/types"
	recordtypes "mods.irisnet.org/modules/record/types"
	servicetypes "mods.irisnet.org/modules/service/types"
	tokenv1 "mods.irisnet.org/modules/token/types/v1"
	tokenv1beta1 "mods.irisnet.org/modules/token/types/v1beta1"
)

// The gRPC service descriptions compiled into the two families (the Go side of "service methods").
// The api/ family exports them; the gogoproto family only hands its description to a registrar, so
// a recording registrar is used.

type recorder struct{ got []*grpc.ServiceDesc }

func (r *recorder) RegisterService(sd *grpc.ServiceDesc, _ interface{}) { r.got = append(r.got, sd) }

type grpcDesc struct {
	Service  string
	Methods  []string
	Streams  []string
	Metadata string
}

func summarize(sd *grpc.ServiceDesc) grpcDesc {
	d := grpcDesc{Service: sd.ServiceName}
	for _, m := range sd.Methods {
		d.Methods = append(d.Methods, m.MethodName)
	}
	for _, s := range sd.Streams {
		d.Streams = append(d.Streams, s.StreamName)
	}
	if s, ok := sd.Metadata.(string); ok {
		d.Metadata = s
	}
	sort.Strings(d.Methods)
	sort.Strings(d.Streams)
	return d
}

// grpcDescs returns, per family, service full name -> description.
func grpcDescs() (gogo, pulsar map[string]grpcDesc) {
	r := &recorder{}
	coinswaptypes.RegisterMsgServer(r, nil)
	coinswaptypes.RegisterQueryServer(r, nil)
	farmtypes.RegisterMsgServer(r, nil)
	farmtypes.RegisterQueryServer(r, nil)
	htlctypes.RegisterMsgServer(r, nil)
	htlctypes.RegisterQueryServer(r, nil)
	mttypes.RegisterMsgServer(r, nil)
	mttypes.RegisterQueryServer(r, nil)
	nfttypes.RegisterMsgServer(r, nil)
	nfttypes.RegisterQueryServer(r, nil)
	oracletypes.RegisterMsgServer(r, nil)
	oracletypes.RegisterQueryServer(r, nil)
	randomtypes.RegisterMsgServer(r, nil)
	randomtypes.RegisterQueryServer(r, nil)
	recordtypes.RegisterMsgServer(r, nil)
	recordtypes.RegisterQueryServer(r, nil)
	servicetypes.RegisterMsgServer(r, nil)
	servicetypes.RegisterQueryServer(r, nil)
	tokenv1.RegisterMsgServer(r, nil)
	tokenv1.RegisterQueryServer(r, nil)
	tokenv1beta1.RegisterMsgServer(r, nil)
	tokenv1beta1.RegisterQueryServer(r, nil)
	gogo = map[string]grpcDesc{}
	for _, sd := range r.got {
		gogo[sd.ServiceName] = summarize(sd)
	}
	pulsar = map[string]grpcDesc{}
	for _, sd := range []*grpc.ServiceDesc{
		&apicoinswap.Msg_ServiceDesc, &apicoinswap.Query_ServiceDesc,
		&apifarm.Msg_ServiceDesc, &apifarm.Query_ServiceDesc,
		&apihtlc.Msg_ServiceDesc, &apihtlc.Query_ServiceDesc,
		&apimt.Msg_ServiceDesc, &apimt.Query_ServiceDesc,
		&apinft.Msg_ServiceDesc, &apinft.Query_ServiceDesc,
		&apioracle.Msg_ServiceDesc, &apioracle.Query_ServiceDesc,
		&apirandom.Msg_ServiceDesc, &apirandom.Query_ServiceDesc,
		&apirecord.Msg_ServiceDesc, &apirecord.Query_ServiceDesc,
		&apiservice.Msg_ServiceDesc, &apiservice.Query_ServiceDesc,
		&apitokenv1.Msg_ServiceDesc, &apitokenv1.Query_ServiceDesc,
		&apitokenv1beta1.Msg_ServiceDesc, &apitokenv1beta1.Query_ServiceDesc,
	} {
		pulsar[sd.ServiceName] = summarize(sd)
	}
	return
}
