package c20

import (
	"fmt"
	"os"
	"path/filepath"
	"sort"
	"strconv"
	"strings"
)

// A small .proto scanner: comments and strings are tokenised away, braces are tracked, and the
// declarations the property talks about are collected (package, imports, messages incl. nested,
// fields name/number/type/label, enums and values, services and rpcs). It is deliberately not a
// full parser: option bodies are skipped wholesale.

type srcField struct {
	Name   string
	Number int32
	Type   string // as written: "string", "cosmos.base.v1beta1.Coin", "map<string,Requests>"
	Label  string // "", "repeated", "optional"
	Oneof  string
}

type srcMessage struct {
	FullName string
	Fields   []srcField
}

type srcEnum struct {
	FullName string
	Values   map[string]int32
	Order    []string
}

type srcMethod struct {
	Name                    string
	In, Out                 string
	ClientStream, SrvStream bool
}

type srcService struct {
	FullName string
	Methods  []srcMethod
}

type srcFile struct {
	Path         string // relative to the proto root, e.g. irismod/nft/tx.proto
	Package      string
	Imports      []string
	HasGoPackage bool
	Messages     []srcMessage
	Enums        []srcEnum
	Services     []srcService
}

type token struct {
	s   string
	str bool // string literal
}

func tokenize(src string) ([]token, error) {
	var toks []token
	i := 0
	n := len(src)
	for i < n {
		c := src[i]
		switch {
		case c == ' ' || c == '\t' || c == '\n' || c == '\r':
			i++
		case c == '/' && i+1 < n && src[i+1] == '/':
			for i < n && src[i] != '\n' {
				i++
			}
		case c == '/' && i+1 < n && src[i+1] == '*':
			j := strings.Index(src[i+2:], "*/")
			if j < 0 {
				return nil, fmt.Errorf("unterminated comment")
			}
			i += 2 + j + 2
		case c == '"' || c == '\'':
			j := i + 1
			var b strings.Builder
			for j < n && src[j] != c {
				if src[j] == '\\' && j+1 < n {
					b.WriteByte(src[j+1])
					j += 2
					continue
				}
				b.WriteByte(src[j])
				j++
			}
			if j >= n {
				return nil, fmt.Errorf("unterminated string")
			}
			toks = append(toks, token{s: b.String(), str: true})
			i = j + 1
		case isIdentChar(c):
			j := i
			for j < n && isIdentChar(src[j]) {
				j++
			}
			toks = append(toks, token{s: src[i:j]})
			i = j
		default:
			toks = append(toks, token{s: string(c)})
			i++
		}
	}
	return toks, nil
}

func isIdentChar(c byte) bool {
	return c == '_' || c == '.' || c == '-' || c == '+' || (c >= '0' && c <= '9') || (c >= 'a' && c <= 'z') || (c >= 'A' && c <= 'Z')
}

type scanner struct {
	toks []token
	pos  int
	file *srcFile
}

func (p *scanner) peek() token {
	if p.pos >= len(p.toks) {
		return token{s: "<eof>"}
	}
	return p.toks[p.pos]
}
func (p *scanner) next() token { t := p.peek(); p.pos++; return t }
func (p *scanner) eof() bool   { return p.pos >= len(p.toks) }

func (p *scanner) expect(s string) error {
	t := p.next()
	if t.str || t.s != s {
		return fmt.Errorf("%s: expected %q, got %q (token %d)", p.file.Path, s, t.s, p.pos)
	}
	return nil
}

// skipStatement consumes up to and including the ';' that ends the current statement, skipping
// balanced {...}, [...] and (...) groups.
func (p *scanner) skipStatement() error {
	depth := 0
	for !p.eof() {
		t := p.next()
		if t.str {
			continue
		}
		switch t.s {
		case "{", "[", "(":
			depth++
		case "}", "]", ")":
			depth--
			if depth < 0 {
				return fmt.Errorf("%s: unbalanced %q", p.file.Path, t.s)
			}
		case ";":
			if depth == 0 {
				return nil
			}
		}
	}
	return fmt.Errorf("%s: statement not terminated", p.file.Path)
}

// skipBlock consumes a balanced {...} block whose '{' is the next token.
func (p *scanner) skipBlock() error {
	if err := p.expect("{"); err != nil {
		return err
	}
	depth := 1
	for !p.eof() {
		t := p.next()
		if t.str {
			continue
		}
		if t.s == "{" {
			depth++
		} else if t.s == "}" {
			depth--
			if depth == 0 {
				return nil
			}
		}
	}
	return fmt.Errorf("%s: block not terminated", p.file.Path)
}

func qualify(scope, name string) string {
	if scope == "" {
		return name
	}
	return scope + "." + name
}

func (p *scanner) parseFile() error {
	for !p.eof() {
		t := p.next()
		if t.str {
			return fmt.Errorf("%s: unexpected string at top level", p.file.Path)
		}
		switch t.s {
		case ";":
		case "syntax", "edition":
			if err := p.skipStatement(); err != nil {
				return err
			}
		case "package":
			p.file.Package = p.next().s
			if err := p.expect(";"); err != nil {
				return err
			}
		case "import":
			x := p.next()
			if !x.str {
				x = p.next() // public / weak
			}
			p.file.Imports = append(p.file.Imports, x.s)
			if err := p.expect(";"); err != nil {
				return err
			}
		case "option":
			if p.peek().s == "go_package" {
				p.file.HasGoPackage = true
			}
			if err := p.skipStatement(); err != nil {
				return err
			}
		case "message":
			if err := p.parseMessage(p.file.Package); err != nil {
				return err
			}
		case "enum":
			if err := p.parseEnum(p.file.Package); err != nil {
				return err
			}
		case "service":
			if err := p.parseService(); err != nil {
				return err
			}
		case "extend":
			p.next()
			if err := p.skipBlock(); err != nil {
				return err
			}
		default:
			return fmt.Errorf("%s: unexpected top-level token %q", p.file.Path, t.s)
		}
	}
	return nil
}

func (p *scanner) parseMessage(scope string) error {
	name := p.next().s
	full := qualify(scope, name)
	if err := p.expect("{"); err != nil {
		return err
	}
	idx := len(p.file.Messages)
	p.file.Messages = append(p.file.Messages, srcMessage{FullName: full})
	fields, err := p.parseMessageBody(full, "")
	if err != nil {
		return err
	}
	p.file.Messages[idx].Fields = fields
	return nil
}

// parseMessageBody parses up to and including the closing '}'.
func (p *scanner) parseMessageBody(full, oneof string) ([]srcField, error) {
	var fields []srcField
	for {
		if p.eof() {
			return nil, fmt.Errorf("%s: message %s not terminated", p.file.Path, full)
		}
		t := p.next()
		if t.str {
			return nil, fmt.Errorf("%s: unexpected string in %s", p.file.Path, full)
		}
		switch t.s {
		case "}":
			return fields, nil
		case ";":
		case "option":
			if err := p.skipStatement(); err != nil {
				return nil, err
			}
		case "reserved", "extensions":
			if err := p.skipStatement(); err != nil {
				return nil, err
			}
		case "message":
			if err := p.parseMessage(full); err != nil {
				return nil, err
			}
		case "enum":
			if err := p.parseEnum(full); err != nil {
				return nil, err
			}
		case "extend":
			p.next()
			if err := p.skipBlock(); err != nil {
				return nil, err
			}
		case "oneof":
			oname := p.next().s
			if err := p.expect("{"); err != nil {
				return nil, err
			}
			fs, err := p.parseMessageBody(full, oname)
			if err != nil {
				return nil, err
			}
			fields = append(fields, fs...)
		default:
			f := srcField{Oneof: oneof}
			typ := t.s
			if typ == "repeated" || typ == "optional" || typ == "required" {
				f.Label = typ
				typ = p.next().s
			}
			if typ == "map" && p.peek().s == "<" {
				p.next()
				k := p.next().s
				if err := p.expect(","); err != nil {
					return nil, err
				}
				v := p.next().s
				if err := p.expect(">"); err != nil {
					return nil, err
				}
				typ = "map<" + k + "," + v + ">"
			}
			f.Type = typ
			f.Name = p.next().s
			if err := p.expect("="); err != nil {
				return nil, fmt.Errorf("in %s field %q: %w", full, f.Name, err)
			}
			num, err := strconv.ParseInt(p.next().s, 0, 32)
			if err != nil {
				return nil, fmt.Errorf("%s: %s.%s: bad field number: %v", p.file.Path, full, f.Name, err)
			}
			f.Number = int32(num)
			if err := p.skipStatement(); err != nil {
				return nil, err
			}
			fields = append(fields, f)
		}
	}
}

func (p *scanner) parseEnum(scope string) error {
	name := p.next().s
	e := srcEnum{FullName: qualify(scope, name), Values: map[string]int32{}}
	if err := p.expect("{"); err != nil {
		return err
	}
	for {
		if p.eof() {
			return fmt.Errorf("%s: enum %s not terminated", p.file.Path, e.FullName)
		}
		t := p.next()
		switch t.s {
		case "}":
			p.file.Enums = append(p.file.Enums, e)
			return nil
		case ";":
		case "option", "reserved":
			if err := p.skipStatement(); err != nil {
				return err
			}
		default:
			if err := p.expect("="); err != nil {
				return err
			}
			num, err := strconv.ParseInt(p.next().s, 0, 32)
			if err != nil {
				return fmt.Errorf("%s: enum value %s.%s: %v", p.file.Path, e.FullName, t.s, err)
			}
			e.Values[t.s] = int32(num)
			e.Order = append(e.Order, t.s)
			if err := p.skipStatement(); err != nil {
				return err
			}
		}
	}
}

func (p *scanner) parseService() error {
	name := p.next().s
	s := srcService{FullName: qualify(p.file.Package, name)}
	if err := p.expect("{"); err != nil {
		return err
	}
	for {
		if p.eof() {
			return fmt.Errorf("%s: service %s not terminated", p.file.Path, s.FullName)
		}
		t := p.next()
		switch t.s {
		case "}":
			p.file.Services = append(p.file.Services, s)
			return nil
		case ";":
		case "option":
			if err := p.skipStatement(); err != nil {
				return err
			}
		case "rpc":
			m := srcMethod{Name: p.next().s}
			if err := p.expect("("); err != nil {
				return err
			}
			x := p.next().s
			if x == "stream" {
				m.ClientStream = true
				x = p.next().s
			}
			m.In = x
			if err := p.expect(")"); err != nil {
				return err
			}
			if err := p.expect("returns"); err != nil {
				return err
			}
			if err := p.expect("("); err != nil {
				return err
			}
			x = p.next().s
			if x == "stream" {
				m.SrvStream = true
				x = p.next().s
			}
			m.Out = x
			if err := p.expect(")"); err != nil {
				return err
			}
			if p.peek().s == "{" {
				if err := p.skipBlock(); err != nil {
					return err
				}
			} else if err := p.expect(";"); err != nil {
				return err
			}
			s.Methods = append(s.Methods, m)
		default:
			return fmt.Errorf("%s: unexpected token %q in service %s", p.file.Path, t.s, s.FullName)
		}
	}
}

// ProtoRoot is the directory that holds irismod/**.proto.
func ProtoRoot() string {
	if r := os.Getenv("REPO"); r != "" {
		return filepath.Join(r, "proto")
	}
	return "/repo/proto"
}

// ScanProtoTree scans every .proto under <root>/irismod.
func ScanProtoTree(root string) ([]*srcFile, error) {
	var paths []string
	err := filepath.Walk(filepath.Join(root, "irismod"), func(p string, info os.FileInfo, err error) error {
		if err != nil {
			return err
		}
		if !info.IsDir() && strings.HasSuffix(p, ".proto") {
			paths = append(paths, p)
		}
		return nil
	})
	if err != nil {
		return nil, err
	}
	sort.Strings(paths)
	var out []*srcFile
	for _, p := range paths {
		b, err := os.ReadFile(p)
		if err != nil {
			return nil, err
		}
		rel, _ := filepath.Rel(root, p)
		f, err := scanProto(filepath.ToSlash(rel), string(b))
		if err != nil {
			return nil, err
		}
		out = append(out, f)
	}
	return out, nil
}

func scanProto(rel, src string) (*srcFile, error) {
	toks, err := tokenize(src)
	if err != nil {
		return nil, fmt.Errorf("%s: %v", rel, err)
	}
	sc := &scanner{toks: toks, file: &srcFile{Path: rel}}
	if err := sc.parseFile(); err != nil {
		return nil, err
	}
	return sc.file, nil
}
