package c20

import (
	"fmt"
	"math"
	"sort"
	"strings"

	protov2 "google.golang.org/protobuf/proto"
	"google.golang.org/protobuf/reflect/protoreflect"
	"google.golang.org/protobuf/types/descriptorpb"
	"google.golang.org/protobuf/types/dynamicpb"
)

// Abstract, descriptor-independent message values: built from one family's descriptor, applied to a
// message of either family by field number.

type aval struct{ fields []afield }

type aelem struct {
	sc  protoreflect.Value
	msg *aval
}

type amapEntry struct {
	key protoreflect.Value
	val aelem
}

type afield struct {
	num    protoreflect.FieldNumber
	single *aelem
	list   []aelem
	mp     []amapEntry
	isList bool
	isMap  bool
}

func (v *aval) with(f afield) *aval {
	out := &aval{}
	replaced := false
	for _, x := range v.fields {
		if x.num == f.num {
			out.fields = append(out.fields, f)
			replaced = true
		} else {
			out.fields = append(out.fields, x)
		}
	}
	if !replaced {
		out.fields = append(out.fields, f)
	}
	sort.SliceStable(out.fields, func(i, j int) bool { return out.fields[i].num < out.fields[j].num })
	return out
}

// populatedFields counts fields that carry something.
func (v *aval) populatedFields() int { return len(v.fields) }

// multiEntryMap reports whether the value holds a map with two or more entries anywhere.
func (v *aval) multiEntryMap() bool {
	for _, f := range v.fields {
		if f.isMap && len(f.mp) >= 2 {
			return true
		}
		check := func(e aelem) bool { return e.msg != nil && e.msg.multiEntryMap() }
		if f.single != nil && check(*f.single) {
			return true
		}
		for _, e := range f.list {
			if check(e) {
				return true
			}
		}
		for _, e := range f.mp {
			if check(e.val) {
				return true
			}
		}
	}
	return false
}

// apply writes the abstract value into m (fields addressed by number).
func apply(v *aval, m protoreflect.Message) (err error) {
	defer func() {
		if r := recover(); r != nil {
			err = fmt.Errorf("panic applying value to %s: %v", m.Descriptor().FullName(), r)
		}
	}()
	for _, f := range v.fields {
		fd := m.Descriptor().Fields().ByNumber(f.num)
		if fd == nil {
			return fmt.Errorf("%s has no field number %d", m.Descriptor().FullName(), f.num)
		}
		switch {
		case f.isList:
			if !fd.IsList() {
				return fmt.Errorf("%s is not repeated", fd.FullName())
			}
			l := m.Mutable(fd).List()
			for _, e := range f.list {
				if e.msg != nil {
					nv := l.NewElement()
					if err := apply(e.msg, nv.Message()); err != nil {
						return err
					}
					l.Append(nv)
				} else {
					l.Append(cloneScalar(e.sc))
				}
			}
		case f.isMap:
			if !fd.IsMap() {
				return fmt.Errorf("%s is not a map", fd.FullName())
			}
			mm := m.Mutable(fd).Map()
			for _, e := range f.mp {
				if e.val.msg != nil {
					nv := mm.NewValue()
					if err := apply(e.val.msg, nv.Message()); err != nil {
						return err
					}
					mm.Set(e.key.MapKey(), nv)
				} else {
					mm.Set(e.key.MapKey(), cloneScalar(e.val.sc))
				}
			}
		default:
			if fd.IsList() || fd.IsMap() {
				return fmt.Errorf("%s is not singular", fd.FullName())
			}
			if f.single.msg != nil {
				if fd.Message() == nil {
					return fmt.Errorf("%s is not a message field", fd.FullName())
				}
				if err := apply(f.single.msg, m.Mutable(fd).Message()); err != nil {
					return err
				}
			} else {
				m.Set(fd, cloneScalar(f.single.sc))
			}
		}
	}
	return nil
}

func cloneScalar(v protoreflect.Value) protoreflect.Value {
	if b, ok := v.Interface().([]byte); ok {
		return protoreflect.ValueOfBytes(append([]byte{}, b...))
	}
	return v
}

// ---------------------------------------------------------------------------------------------

type fieldTraits struct {
	nullable    bool
	customtype  string
	stdtime     bool
	stdduration bool
	scalar      string
}

type namedVal struct {
	name     string // value class, e.g. "deadline=max"
	field    string // the field under test, "-" for whole-message cases
	kind     string // field kind for signatures, e.g. "int64", "customtype-Int", "message-nonnullable"
	v        *aval
	multiMap bool
}

// generator builds values from the descriptors of one family.
type generator struct {
	fam      string
	traits   map[protoreflect.FullName]fieldTraits
	address  string
	anyBlobs []anyBlob // payloads for google.protobuf.Any fields
	problems map[string]bool
}

type anyBlob struct {
	typeURL string
	value   []byte
}

func newGenerator(fam, address string) *generator {
	return &generator{fam: fam, traits: map[protoreflect.FullName]fieldTraits{}, address: address, problems: map[string]bool{}}
}

func (g *generator) traitsOf(fd protoreflect.FieldDescriptor) fieldTraits {
	if t, ok := g.traits[fd.FullName()]; ok {
		return t
	}
	t := fieldTraits{nullable: true}
	if opts, ok := fd.Options().(*descriptorpb.FieldOptions); ok && opts != nil {
		m := reparse(opts)
		get := func(name string) (protoreflect.Value, bool) {
			xt, err := extensionResolver().FindExtensionByName(protoreflect.FullName(name))
			if err != nil || m == nil || !m.Has(xt.TypeDescriptor()) {
				return protoreflect.Value{}, false
			}
			return m.Get(xt.TypeDescriptor()), true
		}
		if v, ok := get("gogoproto.nullable"); ok {
			t.nullable = v.Bool()
		}
		if v, ok := get("gogoproto.customtype"); ok {
			t.customtype = v.String()
		}
		if v, ok := get("gogoproto.stdtime"); ok {
			t.stdtime = v.Bool()
		}
		if v, ok := get("gogoproto.stdduration"); ok {
			t.stdduration = v.Bool()
		}
		if v, ok := get("cosmos_proto.scalar"); ok {
			t.scalar = v.String()
		}
	}
	g.traits[fd.FullName()] = t
	return t
}

const (
	// 2^256-1: the largest value cosmossdk.io/math.Int accepts; also inside LegacyDec's range.
	maxIntString = "115792089237316195423570985008687907853269984665640564039457584007913129639935"
)

func isNumericCustomtype(ct string) bool {
	switch ct {
	case "cosmossdk.io/math.Int", "cosmossdk.io/math.LegacyDec", "cosmossdk.io/math.Uint",
		"github.com/cosmos/cosmos-sdk/types.Int", "github.com/cosmos/cosmos-sdk/types.Dec":
		return true
	}
	return false
}

func sv(v interface{}) *aelem { return &aelem{sc: protoreflect.ValueOf(v)} }

// mandatory: a singular field that the gogoproto family always puts on the wire, so a message in
// which it is absent has no gogoproto representation (gogoproto.nullable=false on a message-typed
// field, and non-nullable custom types whose zero value marshals to "0").
func (g *generator) mandatory(fd protoreflect.FieldDescriptor) bool {
	if fd.IsList() || fd.IsMap() || fd.ContainingOneof() != nil {
		return false
	}
	t := g.traitsOf(fd)
	if t.nullable {
		return false
	}
	switch fd.Kind() {
	case protoreflect.MessageKind:
		return true
	case protoreflect.StringKind, protoreflect.BytesKind:
		return t.customtype != ""
	}
	return false
}

// minimal: the smallest value of a message type both families can represent.
func (g *generator) minimal(md protoreflect.MessageDescriptor, guard int) *aval {
	if guard > 24 {
		panic("minimal: non-nullable recursion in " + string(md.FullName()))
	}
	v := &aval{}
	fds := md.Fields()
	for i := 0; i < fds.Len(); i++ {
		fd := fds.Get(i)
		if !g.mandatory(fd) {
			continue
		}
		v.fields = append(v.fields, afield{num: fd.Number(), single: g.minimalElem(fd, guard)})
	}
	sort.SliceStable(v.fields, func(i, j int) bool { return v.fields[i].num < v.fields[j].num })
	return v
}

func (g *generator) minimalElem(fd protoreflect.FieldDescriptor, guard int) *aelem {
	t := g.traitsOf(fd)
	switch fd.Kind() {
	case protoreflect.MessageKind:
		return &aelem{msg: g.minimal(fd.Message(), guard+1)}
	case protoreflect.StringKind:
		if isNumericCustomtype(t.customtype) {
			return sv("0")
		}
		g.problems["unknown customtype "+t.customtype+" on string field "+string(fd.FullName())] = true
		return sv("")
	}
	g.problems["unknown customtype "+t.customtype+" on bytes field "+string(fd.FullName())] = true
	return sv([]byte{})
}

type classed struct {
	class string
	e     aelem
}

// scalarDomain: the non-default values tried for one scalar (non-message) element.
func (g *generator) scalarDomain(fd protoreflect.FieldDescriptor) []classed {
	t := g.traitsOf(fd)
	c := func(class string, v interface{}) classed { return classed{class, *sv(v)} }
	switch fd.Kind() {
	case protoreflect.BoolKind:
		return []classed{c("true", true)}
	case protoreflect.Int32Kind, protoreflect.Sint32Kind, protoreflect.Sfixed32Kind:
		return []classed{c("1", int32(1)), c("-1", int32(-1)), c("max", int32(math.MaxInt32)), c("min", int32(math.MinInt32))}
	case protoreflect.Int64Kind, protoreflect.Sint64Kind, protoreflect.Sfixed64Kind:
		return []classed{c("1", int64(1)), c("-1", int64(-1)), c("max", int64(math.MaxInt64)), c("min", int64(math.MinInt64))}
	case protoreflect.Uint32Kind, protoreflect.Fixed32Kind:
		return []classed{c("1", uint32(1)), c("max", uint32(math.MaxUint32))}
	case protoreflect.Uint64Kind, protoreflect.Fixed64Kind:
		return []classed{c("1", uint64(1)), c("max", uint64(math.MaxUint64))}
	case protoreflect.FloatKind:
		return []classed{c("1", float32(1)), c("-1", float32(-1)), c("max", float32(math.MaxFloat32)), c("min", float32(-math.MaxFloat32)), c("tiny", float32(math.SmallestNonzeroFloat32))}
	case protoreflect.DoubleKind:
		return []classed{c("1", float64(1)), c("-1", float64(-1)), c("max", math.MaxFloat64), c("min", -math.MaxFloat64), c("tiny", math.SmallestNonzeroFloat64)}
	case protoreflect.StringKind:
		if isNumericCustomtype(t.customtype) {
			out := []classed{c("num-1", "1"), c("num-max", maxIntString)}
			if !strings.HasSuffix(t.customtype, "Uint") {
				out = append(out, c("num-neg", "-1"))
			}
			return out
		}
		if t.customtype != "" {
			g.problems["unknown customtype "+t.customtype+" on string field "+string(fd.FullName())] = true
			return nil
		}
		out := []classed{c("a", "a"), c("long", longString)}
		if strings.HasSuffix(t.scalar, "AddressString") {
			out = append(out, c("bech32", g.address))
		}
		return out
	case protoreflect.BytesKind:
		if t.customtype != "" {
			g.problems["unknown customtype "+t.customtype+" on bytes field "+string(fd.FullName())] = true
			return nil
		}
		return []classed{c("00", []byte{0}), c("ff0001", []byte{0xff, 0, 1}), c("long", longBytes)}
	case protoreflect.EnumKind:
		var out []classed
		vs := fd.Enum().Values()
		for i := 0; i < vs.Len(); i++ {
			if vs.Get(i).Number() == 0 {
				continue
			}
			out = append(out, c("enum-"+string(vs.Get(i).Name()), vs.Get(i).Number()))
		}
		// proto3 enums are open: numbers no value declares travel as their int32 (a negative one sign-extended to a
		// ten-byte varint) and must survive both families unchanged
		maxN := protoreflect.EnumNumber(0)
		for i := 0; i < vs.Len(); i++ {
			if vs.Get(i).Number() > maxN {
				maxN = vs.Get(i).Number()
			}
		}
		out = append(out, c("enum-undeclared", maxN+1), c("enum-negative", protoreflect.EnumNumber(-1)), c("enum-min", protoreflect.EnumNumber(-2147483648)))
		return out
	}
	panic("scalarDomain: " + fd.Kind().String())
}

var longString = strings.Repeat("héllo-wörld ✓ ", 12) // > 127 bytes: two-byte length prefix, multi-byte runes
var longBytes = func() []byte {
	b := make([]byte, 300)
	for i := range b {
		b[i] = byte(i * 7)
	}
	return b
}()

// zeroScalar is the default value of the element kind (usable as a list element or map key/value).
func zeroScalar(fd protoreflect.FieldDescriptor) aelem {
	switch fd.Kind() {
	case protoreflect.BoolKind:
		return *sv(false)
	case protoreflect.Int32Kind, protoreflect.Sint32Kind, protoreflect.Sfixed32Kind:
		return *sv(int32(0))
	case protoreflect.Int64Kind, protoreflect.Sint64Kind, protoreflect.Sfixed64Kind:
		return *sv(int64(0))
	case protoreflect.Uint32Kind, protoreflect.Fixed32Kind:
		return *sv(uint32(0))
	case protoreflect.Uint64Kind, protoreflect.Fixed64Kind:
		return *sv(uint64(0))
	case protoreflect.FloatKind:
		return *sv(float32(0))
	case protoreflect.DoubleKind:
		return *sv(float64(0))
	case protoreflect.StringKind:
		return *sv("")
	case protoreflect.BytesKind:
		return *sv([]byte{})
	case protoreflect.EnumKind:
		return *sv(protoreflect.EnumNumber(0))
	}
	panic("zeroScalar: " + fd.Kind().String())
}

func wk(md protoreflect.MessageDescriptor) string { return string(md.FullName()) }

func tsVal(sec int64, nanos int32) *aval {
	v := &aval{}
	if sec != 0 {
		v.fields = append(v.fields, afield{num: 1, single: sv(sec)})
	}
	if nanos != 0 {
		v.fields = append(v.fields, afield{num: 2, single: sv(nanos)})
	}
	return v
}

// messageDomain: present values tried for one message-typed element (absence is handled by the caller).
func (g *generator) messageDomain(fd protoreflect.FieldDescriptor, depth int) []classed {
	md := fd.Message()
	t := g.traitsOf(fd)
	m := func(class string, v *aval) classed { return classed{class, aelem{msg: v}} }
	switch {
	case wk(md) == "google.protobuf.Timestamp" && t.stdtime:
		// gogoproto maps the field to time.Time and accepts [0001-01-01, 10000-01-01) with nanos in [0,1e9)
		return []classed{m("ts-epoch", tsVal(0, 0)), m("ts-1.000000001", tsVal(1, 1)),
			m("ts-max", tsVal(253402300799, 999999999)), m("ts-min", tsVal(-62135596800, 0))}
	case wk(md) == "google.protobuf.Duration" && t.stdduration:
		// gogoproto maps the field to time.Duration (int64 nanoseconds), seconds and nanos of one sign
		return []classed{m("dur-0", tsVal(0, 0)), m("dur-1.000000001", tsVal(1, 1)), m("dur-neg-nanos", tsVal(0, -1)),
			m("dur-max", tsVal(9223372036, 854775807)), m("dur-min", tsVal(-9223372036, -854775808))}
	case wk(md) == "google.protobuf.Any":
		out := []classed{m("any-empty", &aval{})}
		for _, b := range g.anyBlobs {
			v := &aval{fields: []afield{{num: 1, single: sv(b.typeURL)}}}
			if len(b.value) > 0 {
				v.fields = append(v.fields, afield{num: 2, single: sv(b.value)})
			}
			out = append(out, m("any-"+strings.TrimPrefix(b.typeURL, "/"), v))
		}
		return out
	}
	out := []classed{m("msg-minimal", g.minimal(md, 0))}
	if md.Fields().Len() > 0 {
		out = append(out, m("msg-populated", g.populated(md, depth-1, false)), m("msg-max", g.populated(md, depth-1, true)))
	}
	return out
}

// typical picks one representative non-default element for a field (max selects the extreme one).
func (g *generator) typical(fd protoreflect.FieldDescriptor, depth int, max bool) (aelem, bool) {
	if fd.Kind() == protoreflect.MessageKind || fd.Kind() == protoreflect.GroupKind {
		if depth <= 0 {
			return aelem{msg: g.minimal(fd.Message(), 0)}, true
		}
		dom := g.messageDomain(fd, depth)
		pick := "msg-populated"
		if max {
			pick = "msg-max"
		}
		var chosen *classed
		for i := range dom {
			if dom[i].class == pick {
				chosen = &dom[i]
			}
		}
		if chosen == nil {
			// well-known types: second entry is a small non-zero one, "…-max" the extreme one
			for i := range dom {
				if max && strings.HasSuffix(dom[i].class, "-max") {
					chosen = &dom[i]
				}
			}
			if chosen == nil {
				chosen = &dom[len(dom)-1]
				if !max && len(dom) > 1 {
					chosen = &dom[1]
				}
			}
		}
		return chosen.e, true
	}
	dom := g.scalarDomain(fd)
	if len(dom) == 0 {
		return aelem{}, false
	}
	if max {
		for _, d := range dom {
			if d.class == "max" || d.class == "num-max" || d.class == "long" {
				return d.e, true
			}
		}
		return dom[len(dom)-1].e, true
	}
	return dom[0].e, true
}

// populated: every field set (oneofs: the first member), nested messages populated down to depth.
func (g *generator) populated(md protoreflect.MessageDescriptor, depth int, max bool) *aval {
	v := g.minimal(md, 0)
	fds := md.Fields()
	seenOneof := map[protoreflect.FullName]bool{}
	for i := 0; i < fds.Len(); i++ {
		fd := fds.Get(i)
		if oo := fd.ContainingOneof(); oo != nil && !oo.IsSynthetic() {
			if seenOneof[oo.FullName()] {
				continue
			}
			seenOneof[oo.FullName()] = true
		}
		switch {
		case fd.IsMap():
			ke, _ := g.typical(fd.MapKey(), 0, max)
			ve, ok := g.typical(fd.MapValue(), depth, max)
			if !ok {
				continue
			}
			v = v.with(afield{num: fd.Number(), isMap: true, mp: []amapEntry{{key: ke.sc, val: ve}}})
		case fd.IsList():
			e1, ok := g.typical(fd, depth, max)
			if !ok {
				continue
			}
			e2, _ := g.typical(fd, depth, !max)
			v = v.with(afield{num: fd.Number(), isList: true, list: []aelem{e1, e2}})
		default:
			e, ok := g.typical(fd, depth, max)
			if !ok {
				continue
			}
			v = v.with(afield{num: fd.Number(), single: &e})
		}
	}
	return v
}

func fieldKind(g *generator, fd protoreflect.FieldDescriptor) string {
	t := g.traitsOf(fd)
	k := fd.Kind().String()
	if fd.Kind() == protoreflect.MessageKind {
		k = "message"
		switch {
		case t.stdtime:
			k = "stdtime"
		case t.stdduration:
			k = "stdduration"
		case wk(fd.Message()) == "google.protobuf.Any":
			k = "any"
		}
		if !t.nullable && !fd.IsList() && !fd.IsMap() {
			k += "-nonnullable"
		}
	}
	if t.customtype != "" {
		k = "customtype-" + t.customtype[strings.LastIndexAny(t.customtype, "./")+1:]
	}
	switch {
	case fd.IsMap():
		mk := fd.MapValue().Kind().String()
		return "map-" + fd.MapKey().Kind().String() + "-" + mk
	case fd.IsList():
		return "repeated-" + k
	}
	return k
}

// values enumerates the value set of one message type.
func (g *generator) values(md protoreflect.MessageDescriptor, depth int) []namedVal {
	base := g.minimal(md, 0)
	out := []namedVal{{name: "all-default", field: "-", kind: "all-default", v: base}}
	fds := md.Fields()
	for i := 0; i < fds.Len(); i++ {
		fd := fds.Get(i)
		kind := fieldKind(g, fd)
		name := string(fd.Name())
		add := func(class string, f afield) {
			f.num = fd.Number()
			nv := namedVal{name: name + "=" + class, field: name, kind: kind, v: base.with(f)}
			nv.multiMap = nv.v.multiEntryMap()
			out = append(out, nv)
		}
		elemDomain := func(x protoreflect.FieldDescriptor) []classed {
			if x.Kind() == protoreflect.MessageKind || x.Kind() == protoreflect.GroupKind {
				return g.messageDomain(x, depth)
			}
			return g.scalarDomain(x)
		}
		zeroElem := func(x protoreflect.FieldDescriptor) aelem {
			if x.Kind() == protoreflect.MessageKind || x.Kind() == protoreflect.GroupKind {
				return aelem{msg: g.minimal(x.Message(), 0)}
			}
			t := g.traitsOf(x)
			if isNumericCustomtype(t.customtype) {
				return *sv("0")
			}
			return zeroScalar(x)
		}
		switch {
		case fd.IsMap():
			kd := g.scalarDomain(fd.MapKey())
			vd := elemDomain(fd.MapValue())
			if len(kd) == 0 || len(vd) == 0 {
				continue
			}
			zk, zv := zeroScalar(fd.MapKey()), zeroElem(fd.MapValue())
			add("map-1-default-entry", afield{isMap: true, mp: []amapEntry{{zk.sc, zv}}})
			for _, d := range vd {
				add("map-1-"+d.class, afield{isMap: true, mp: []amapEntry{{kd[0].e.sc, d.e}}})
			}
			for _, k := range kd[1:] {
				add("map-1-key-"+k.class, afield{isMap: true, mp: []amapEntry{{k.e.sc, zv}}})
			}
			add("map-2", afield{isMap: true, mp: []amapEntry{{zk.sc, vd[len(vd)-1].e}, {kd[0].e.sc, vd[0].e}}})
		case fd.IsList():
			dom := elemDomain(fd)
			if len(dom) == 0 {
				continue
			}
			add("list-1-default-element", afield{isList: true, list: []aelem{zeroElem(fd)}})
			for _, d := range dom {
				add("list-1-"+d.class, afield{isList: true, list: []aelem{d.e}})
			}
			add("list-2", afield{isList: true, list: []aelem{dom[len(dom)-1].e, dom[0].e}})
			add("list-2-with-default", afield{isList: true, list: []aelem{zeroElem(fd), dom[0].e}})
		default:
			for _, d := range elemDomain(fd) {
				e := d.e
				add(d.class, afield{single: &e})
			}
			if fd.HasPresence() && fd.Kind() != protoreflect.MessageKind && fd.Kind() != protoreflect.GroupKind {
				// proto3 optional / oneof member explicitly set to the zero value
				z := zeroElem(fd)
				add("present-zero", afield{single: &z})
			}
		}
	}
	if fds.Len() > 0 {
		p := namedVal{name: "all-populated", field: "-", kind: "all-populated", v: g.populated(md, depth, false)}
		p.multiMap = p.v.multiEntryMap()
		m := namedVal{name: "all-max", field: "-", kind: "all-max", v: g.populated(md, depth, true)}
		m.multiMap = m.v.multiEntryMap()
		out = append(out, p, m)
	}
	return out
}

// buildAnyBlobs: one populated instance of every given message type, encoded from this family's
// descriptor, to be carried inside google.protobuf.Any fields.
func (g *generator) buildAnyBlobs(mds []protoreflect.MessageDescriptor) error {
	for _, md := range mds {
		m := dynamicpb.NewMessage(md)
		if err := apply(g.populated(md, 1, false), m); err != nil {
			return err
		}
		b, err := protov2.MarshalOptions{Deterministic: true}.Marshal(m)
		if err != nil {
			return err
		}
		g.anyBlobs = append(g.anyBlobs, anyBlob{typeURL: "/" + string(md.FullName()), value: b})
	}
	return nil
}
