package c14

import (
	"fmt"
	"time"

	sdk "github.com/cosmos/cosmos-sdk/types"
	"github.com/cosmos/cosmos-sdk/types/query"

	nfttypes "mods.irisnet.org/modules/nft/types"

	"verif/harness/mc"
)

// BulkPart: "the reported supply of a class always equals the number of its tokens and the sum of all owners'
// balances" also when one owner holds more tokens than a page of the module's paginated store walks (the SDK's
// default page is 100 entries). A scripted history - 130 tokens to A, 7 to B, 1 to X, then a transfer and a burn -
// is judged after every step; the listings are read page by page (the module serves at most 100 entries a page).
func BulkPart() mc.Part {
	return mc.Part{Name: "owner-with-130-tokens", Run: func(tier string, known []mc.KnownFinding, dl time.Time) mc.PartReport {
		start := time.Now()
		rep := mc.PartReport{Exhaustive: true, Rule: "scripted history over a class whose first owner holds more than a page of tokens; every step judged"}
		e := mc.NewEnv(mc.EnvOptions{Balances: map[string]sdk.Coins{"A": nil, "B": nil, "X": nil}})
		s := &mc.State{Ctx: mc.Branch(e.Root)}
		const class = "bulkclass"
		want := map[string]uint64{}
		var path []string
		var viol []mc.Violation
		judge := func(step string) {
			path = append(path, step)
			rep.Evaluations++
			var fs []mc.Finding
			var total uint64
			for _, a := range actors {
				total += want[a]
			}
			sr, err := e.NFT.Supply(s.Ctx, &nfttypes.QuerySupplyRequest{DenomId: class})
			if err != nil {
				fs = append(fs, mc.F("C14/query-failed/supply", "%v", err))
			} else if sr.Amount != total {
				fs = append(fs, mc.F("C14/supply-differs/reported-vs-minted", "reported supply %d, %d tokens exist", sr.Amount, total))
			}
			// the module serves listings in pages of at most 100: follow the next-key until the end
			seen := map[string]bool{}
			var key []byte
			for pages := 0; pages < 50; pages++ {
				cr, err := e.NFT.Collection(s.Ctx, &nfttypes.QueryCollectionRequest{DenomId: class, Pagination: &query.PageRequest{Key: key, Limit: 100}})
				if err != nil || cr.Collection == nil {
					fs = append(fs, mc.F("C14/query-failed/collection", "%v", err))
					break
				}
				for _, t := range cr.Collection.NFTs {
					if seen[t.Id] {
						fs = append(fs, mc.F("C14/token-listed-twice/collection", "token %s appears on two pages of the collection", t.Id))
					}
					seen[t.Id] = true
				}
				if cr.Pagination == nil || len(cr.Pagination.NextKey) == 0 {
					break
				}
				key = cr.Pagination.NextKey
			}
			if uint64(len(seen)) != total {
				fs = append(fs, mc.F("C14/supply-differs/reported-vs-collection", "the pages of the collection hold %d tokens, %d exist", len(seen), total))
			}
			var sum uint64
			for _, a := range actors {
				br, err := e.NFT.Supply(s.Ctx, &nfttypes.QuerySupplyRequest{DenomId: class, Owner: addr(a)})
				if err != nil {
					fs = append(fs, mc.F("C14/query-failed/owner-balance", "owner %s: %v", a, err))
					continue
				}
				sum += br.Amount
				if br.Amount != want[a] {
					fs = append(fs, mc.F("C14/owner-balance-differs-from-holdings", "balance of %s is reported as %d, it holds %d tokens", a, br.Amount, want[a]))
				}
				n := 0
				var okey []byte
				for pages := 0; pages < 50; pages++ {
					or, err := e.NFT.NFTsOfOwner(s.Ctx, &nfttypes.QueryNFTsOfOwnerRequest{DenomId: class, Owner: addr(a), Pagination: &query.PageRequest{Key: okey, Limit: 100}})
					if err != nil || or.Owner == nil {
						fs = append(fs, mc.F("C14/query-failed/nfts-of-owner", "owner %s: %v", a, err))
						break
					}
					for _, idc := range or.Owner.IDCollections {
						n += len(idc.TokenIds)
					}
					if or.Pagination == nil || len(or.Pagination.NextKey) == 0 {
						break
					}
					okey = or.Pagination.NextKey
				}
				if uint64(n) != want[a] {
					fs = append(fs, mc.F("C14/owner-index-differs/count", "the pages of tokens-of-owner(%s) list %d, it holds %d", a, n, want[a]))
				}
			}
			if sr != nil && sum != sr.Amount {
				fs = append(fs, mc.F("C14/supply-differs/reported-vs-owner-balances", "reported supply %d, owners' balances sum to %d", sr.Amount, sum))
			}
			for _, f := range fs {
				v := mc.Violation{Finding: f, Path: append([]string{}, path...), PreConfirmed: true}
				if mc.MatchKnown(known, v.Sig) != nil {
					if rep.KnownSeen == nil {
						rep.KnownSeen = map[string]mc.Violation{}
					}
					rep.KnownSeen[v.Sig] = v
					continue
				}
				dup := false
				for _, o := range viol {
					dup = dup || o.Sig == v.Sig
				}
				if !dup {
					viol = append(viol, v)
				}
			}
		}
		must := func(out mc.Outcome, what string) bool {
			if !out.OK {
				rep.Internal = "scripted step " + what + " failed: " + out.String()
			}
			return out.OK
		}
		if !must(s.Deliver(e, "bulk-issue", &nfttypes.MsgIssueDenom{Id: class, Name: "Bulk", Sender: addr("A"), Symbol: "blk"}), "issue") {
			return rep
		}
		mint := func(i int, to string) bool {
			id := fmt.Sprintf("tok%03d", i)
			if !must(s.Deliver(e, "bulk-mint-"+id, &nfttypes.MsgMintNFT{Id: id, DenomId: class, Name: id, Sender: addr("A"), Recipient: addr(to)}), "mint "+id) {
				return false
			}
			want[to]++
			return true
		}
		n := 0
		for _, step := range []struct {
			to string
			k  int
		}{{"A", 99}, {"A", 1}, {"A", 1}, {"A", 29}, {"B", 7}, {"X", 1}} {
			for j := 0; j < step.k; j++ {
				if !mint(n, step.to) {
					return rep
				}
				n++
			}
			judge(fmt.Sprintf("mint x%d -> %s", step.k, step.to))
		}
		if !must(s.Deliver(e, "bulk-transfer", &nfttypes.MsgTransferNFT{Id: "tok000", DenomId: class, Name: "[do-not-modify]", URI: "[do-not-modify]", UriHash: "[do-not-modify]", Data: "[do-not-modify]", Sender: addr("A"), Recipient: addr("B")}), "transfer") {
			return rep
		}
		want["A"]--
		want["B"]++
		judge("transfer tok000 A -> B")
		if !must(s.Deliver(e, "bulk-burn", &nfttypes.MsgBurnNFT{Id: "tok001", DenomId: class, Sender: addr("A")}), "burn") {
			return rep
		}
		want["A"]--
		judge("burn tok001")
		s.NextBlock(e, 5*time.Second)
		judge("block")
		rep.Violations = viol
		rep.Nontrivial = rep.Evaluations
		rep.WallS = time.Since(start).Seconds()
		rep.Bounds = map[string]interface{}{"tokens": n}
		return rep
	}, Replay: func(path []string) ([]mc.Finding, error) {
		r := BulkPart().Run(mc.Tier(), nil, time.Now().Add(time.Minute))
		var fs []mc.Finding
		for _, v := range r.Violations {
			fs = append(fs, v.Finding)
		}
		return fs, nil
	}}
}
