// Package c14: NFT module — every token has exactly one owner; only the current owner can transfer,
// edit or burn; minting into a mint-restricted class only by the class creator; tokens of an
// update-restricted class never change their metadata; a class changes hands only by its current
// creator; class ids and token ids are never re-used while they exist; the reported supply of a
// class equals the number of its tokens and the sum of the owners' balances.
//
// The driver closes the system with three actors (A, B, X), two class ids (c1, c2) and the token
// slots (c1,n1) (c1,n2) (c2,n1) — n1 collides across the classes. One exploration per assignment of
// restriction flags to (c1, c2); the four explorations cover every flag combination both as the
// fixture class c1 and as the class c2 issued on the path.
package c14

import (
	"bytes"
	"fmt"
	"sort"

	sdk "github.com/cosmos/cosmos-sdk/types"

	nfttypes "mods.irisnet.org/modules/nft/types"

	"verif/harness/mc"
)

// sentinel is the wire value that asks the module to leave a field untouched. It is spelled out
// here (not imported) so that the reference does not depend on the implementation's constant.
const sentinel = "[do-not-modify]"

var actors = []string{"A", "B", "X"}

// next / third: the two other actors in a fixed cyclic order.
func next(a string) string {
	switch a {
	case "A":
		return "B"
	case "B":
		return "X"
	}
	return "A"
}
func third(a string) string { return next(next(a)) }

var classLabel = [2]string{"c1", "c2"}
var classID = [2]string{"class1", "class2"}

// token slots: (class index, label, on-chain id)
type slotDef struct {
	c     int
	label string
	id    string
}

var slots = [3]slotDef{{0, "n1", "tok1"}, {0, "n2", "tok2"}, {1, "n1", "tok1"}}

type meta struct{ Name, URI, Hash, Data string }

var fieldNames = [4]string{"name", "uri", "uri_hash", "data"}

func (m meta) fields() [4]string { return [4]string{m.Name, m.URI, m.Hash, m.Data} }

var (
	metaMint = meta{"name0", "uri0", "hash0", `{"v":0}`}
	metaNew  = meta{"name1", "uri1", "hash1", `{"v":1}`}
)

// request builds the four wire fields of an edit / transfer for a change variant:
// none = all sentinel, all = all changed, meta = name+data changed, tok = uri+uri_hash changed.
func request(variant string) meta {
	r := meta{sentinel, sentinel, sentinel, sentinel}
	if variant == "all" || variant == "meta" {
		r.Name, r.Data = metaNew.Name, metaNew.Data
	}
	if variant == "all" || variant == "tok" {
		r.URI, r.Hash = metaNew.URI, metaNew.Hash
	}
	return r
}

type class struct {
	exists     bool
	creator    string
	mintR, upR bool
}

type token struct {
	exists bool
	owner  string
	m      meta
	// ghost: last owner of the burned token that occupied the slot ("" if never burned / live).
	ghost string
}

// model is the reference ownership map. Plain values: a struct copy is a deep copy.
type model struct {
	cls [2]class
	tok [3]token
}

func (m *model) Clone() mc.Model { c := *m; return &c }
func (m *model) Canon() []byte {
	var b bytes.Buffer
	for i, c := range m.cls {
		fmt.Fprintf(&b, "C%d:%v|%s|%v|%v;", i, c.exists, c.creator, c.mintR, c.upR)
	}
	for i, t := range m.tok {
		fmt.Fprintf(&b, "T%d:%v|%s|%q|%q|%q|%q|%s;", i, t.exists, t.owner, t.m.Name, t.m.URI, t.m.Hash, t.m.Data, t.ghost)
	}
	return b.Bytes()
}

func (m *model) live() int {
	n := 0
	for _, t := range m.tok {
		if t.exists {
			n++
		}
	}
	return n
}

// Variant assigns restriction flags to the two class ids.
type Variant struct {
	Name  string
	Flags [2][2]bool // class -> (mint-restricted, update-restricted)
}

type opData struct {
	kind    string // issue | xclass | mint | edit | transfer | burn
	c       int
	slot    int
	sender  string
	rcpt    string
	variant string
	// entitled: the property allows this operation to succeed (it need not).
	entitled bool
	role     string // role of the sender when not entitled (signature discriminator)
}

// Driver implements mc.Driver.
type Driver struct{ V Variant }

// New returns the constructor for a variant.
func New(v Variant) func() (*mc.Env, mc.Driver) {
	return func() (*mc.Env, mc.Driver) {
		e := mc.NewEnv(mc.EnvOptions{Balances: map[string]sdk.Coins{"A": nil, "B": nil, "X": nil}})
		return e, &Driver{V: v}
	}
}

func (d *Driver) ID() string       { return "C14/" + d.V.Name }
func (d *Driver) Stores() []string { return []string{"nft"} }

func addr(a string) string { return mc.Addr(a).String() }

func (d *Driver) issueMsg(c int, sender string) sdk.Msg {
	return &nfttypes.MsgIssueDenom{Id: classID[c], Name: "Class " + classLabel[c], Schema: "", Sender: addr(sender), Symbol: "sym" + classLabel[c],
		MintRestricted: d.V.Flags[c][0], UpdateRestricted: d.V.Flags[c][1], Description: "d", Uri: "classuri", UriHash: "classhash", Data: `{"k":1}`}
}

func mintMsg(slot int, sender, rcpt string) sdk.Msg {
	sd := slots[slot]
	return &nfttypes.MsgMintNFT{Id: sd.id, DenomId: classID[sd.c], Name: metaMint.Name, URI: metaMint.URI, UriHash: metaMint.Hash, Data: metaMint.Data,
		Sender: addr(sender), Recipient: addr(rcpt)}
}

// Init: class c1 issued by A with the variant's flags, token (c1,n1) minted by A to B — so that the
// class creator (A), the owner (B) and a stranger (X) are three different actors from the start.
func (d *Driver) Init(e *mc.Env) *mc.State {
	s := &mc.State{Ctx: mc.Branch(e.Root)}
	if out := s.Deliver(e, "fx-issue-c1", d.issueMsg(0, "A")); !out.OK {
		panic("fixture issue c1: " + out.String())
	}
	if out := s.Deliver(e, "fx-mint-c1-n1", mintMsg(0, "A", "B")); !out.OK {
		panic("fixture mint (c1,n1): " + out.String())
	}
	m := &model{}
	m.cls[0] = class{exists: true, creator: "A", mintR: d.V.Flags[0][0], upR: d.V.Flags[0][1]}
	m.tok[0] = token{exists: true, owner: "B", m: metaMint}
	s.Model = m
	return s
}

func opName(od opData) string {
	p := ""
	if !od.entitled {
		p = "!"
	}
	switch od.kind {
	case "issue":
		return fmt.Sprintf("%sissue(%s,%s)", p, classLabel[od.c], od.sender)
	case "xclass":
		return fmt.Sprintf("%stransfer-class(%s,%s>%s)", p, classLabel[od.c], od.sender, od.rcpt)
	}
	sd := slots[od.slot]
	switch od.kind {
	case "mint":
		return fmt.Sprintf("%smint(%s,%s,%s>%s)", p, classLabel[sd.c], sd.label, od.sender, od.rcpt)
	case "edit":
		return fmt.Sprintf("%sedit(%s,%s,%s,%s)", p, classLabel[sd.c], sd.label, od.sender, od.variant)
	case "transfer":
		return fmt.Sprintf("%stransfer(%s,%s,%s>%s,%s)", p, classLabel[sd.c], sd.label, od.sender, od.rcpt, od.variant)
	case "burn":
		return fmt.Sprintf("%sburn(%s,%s,%s)", p, classLabel[sd.c], sd.label, od.sender)
	}
	panic("bad op kind " + od.kind)
}

// Enabled: the alphabet in this state, computed from the reference model only. Operations the
// property forbids to succeed carry a "!" prefix (they show up as their own kinds in the outcome
// histogram and are expected in the never-ok list).
func (d *Driver) Enabled(e *mc.Env, s *mc.State) []mc.Op {
	m := s.Model.(*model)
	var ops []mc.Op
	add := func(od opData) { ops = append(ops, mc.Op{Name: opName(od), Data: od}) }

	// token operations
	for i, sd := range slots {
		cl := m.cls[sd.c]
		if !cl.exists {
			continue
		}
		t := m.tok[i]
		nonOwnerRole := func(a string) string {
			if a == cl.creator {
				return "class-creator"
			}
			return "stranger"
		}
		if !t.exists {
			for _, a := range actors {
				ok := !cl.mintR || a == cl.creator
				role := ""
				if !ok {
					role = "non-creator"
				}
				for _, r := range []string{a, next(a)} {
					add(opData{kind: "mint", slot: i, c: sd.c, sender: a, rcpt: r, entitled: ok, role: role})
				}
			}
			if t.ghost != "" {
				g := t.ghost
				add(opData{kind: "burn", slot: i, c: sd.c, sender: g, role: "no-such-token/previous-owner"})
				add(opData{kind: "transfer", slot: i, c: sd.c, sender: g, rcpt: next(g), variant: "none", role: "no-such-token/previous-owner"})
				add(opData{kind: "edit", slot: i, c: sd.c, sender: g, variant: "all", role: "no-such-token/previous-owner"})
			} else {
				add(opData{kind: "burn", slot: i, c: sd.c, sender: "A", role: "no-such-token"})
			}
			continue
		}
		o := t.owner
		// owner: transfers
		for _, r := range []string{o, next(o), third(o)} {
			add(opData{kind: "transfer", slot: i, c: sd.c, sender: o, rcpt: r, variant: "none", entitled: true})
		}
		add(opData{kind: "transfer", slot: i, c: sd.c, sender: o, rcpt: o, variant: "all", entitled: true})
		for _, v := range []string{"all", "meta", "tok"} {
			add(opData{kind: "transfer", slot: i, c: sd.c, sender: o, rcpt: next(o), variant: v, entitled: true})
		}
		// owner: edits
		for _, v := range []string{"none", "all", "meta", "tok"} {
			add(opData{kind: "edit", slot: i, c: sd.c, sender: o, variant: v, entitled: true})
		}
		add(opData{kind: "burn", slot: i, c: sd.c, sender: o, entitled: true})
		// everybody else
		for _, a := range actors {
			if a == o {
				continue
			}
			role := nonOwnerRole(a)
			add(opData{kind: "transfer", slot: i, c: sd.c, sender: a, rcpt: a, variant: "none", role: role})
			add(opData{kind: "transfer", slot: i, c: sd.c, sender: a, rcpt: a, variant: "all", role: role})
			add(opData{kind: "edit", slot: i, c: sd.c, sender: a, variant: "all", role: role})
			add(opData{kind: "burn", slot: i, c: sd.c, sender: a, role: role})
		}
		// minting over a live id: by the class creator and by one other actor
		add(opData{kind: "mint", slot: i, c: sd.c, sender: cl.creator, rcpt: cl.creator, role: "id-in-use"})
		add(opData{kind: "mint", slot: i, c: sd.c, sender: next(cl.creator), rcpt: next(cl.creator), role: "id-in-use"})
	}

	// class operations
	for c := range m.cls {
		cl := m.cls[c]
		if !cl.exists {
			continue
		}
		for _, a := range actors {
			if a == cl.creator {
				for _, r := range []string{a, next(a), third(a)} {
					add(opData{kind: "xclass", c: c, sender: a, rcpt: r, entitled: true})
				}
			} else {
				add(opData{kind: "xclass", c: c, sender: a, rcpt: a, role: "non-creator"})
			}
		}
	}
	add(opData{kind: "issue", c: 0, sender: "X", entitled: !m.cls[0].exists, role: "id-in-use"})
	add(opData{kind: "issue", c: 1, sender: "B", entitled: !m.cls[1].exists, role: "id-in-use"})
	add(opData{kind: "issue", c: 1, sender: "X", entitled: !m.cls[1].exists, role: "id-in-use"})
	return ops
}

func (d *Driver) queryNFT(e *mc.Env, s *mc.State, slot int) (*nfttypes.BaseNFT, error) {
	sd := slots[slot]
	r, err := e.NFT.NFT(s.Ctx, &nfttypes.QueryNFTRequest{DenomId: classID[sd.c], TokenId: sd.id})
	if err != nil {
		return nil, err
	}
	return r.NFT, nil
}

// adopt: after a change the property allows (owner, class not update-restricted), the fields the
// owner asked to change take whatever value the module stored (the property does not say which);
// fields sent as the sentinel keep the reference value, so any change to them is detected by Check.
func (d *Driver) adopt(e *mc.Env, s *mc.State, slot int, req meta) {
	m := s.Model.(*model)
	got, err := d.queryNFT(e, s, slot)
	if err != nil || got == nil {
		return // Check reports the missing token
	}
	t := &m.tok[slot]
	if req.Name != sentinel {
		t.m.Name = got.Name
	}
	if req.URI != sentinel {
		t.m.URI = got.URI
	}
	if req.Hash != sentinel {
		t.m.Hash = got.UriHash
	}
	if req.Data != sentinel {
		t.m.Data = got.Data
	}
}

func (d *Driver) Apply(e *mc.Env, s *mc.State, op mc.Op) []mc.Finding {
	od := op.Data.(opData)
	m := s.Model.(*model)
	var fs []mc.Finding
	var msg sdk.Msg
	var req meta
	switch od.kind {
	case "issue":
		msg = d.issueMsg(od.c, od.sender)
	case "xclass":
		msg = &nfttypes.MsgTransferDenom{Id: classID[od.c], Sender: addr(od.sender), Recipient: addr(od.rcpt)}
	case "mint":
		msg = mintMsg(od.slot, od.sender, od.rcpt)
	case "edit":
		req = request(od.variant)
		sd := slots[od.slot]
		msg = &nfttypes.MsgEditNFT{Id: sd.id, DenomId: classID[sd.c], Name: req.Name, URI: req.URI, UriHash: req.Hash, Data: req.Data, Sender: addr(od.sender)}
	case "transfer":
		req = request(od.variant)
		sd := slots[od.slot]
		msg = &nfttypes.MsgTransferNFT{Id: sd.id, DenomId: classID[sd.c], Name: req.Name, URI: req.URI, UriHash: req.Hash, Data: req.Data,
			Sender: addr(od.sender), Recipient: addr(od.rcpt)}
	case "burn":
		sd := slots[od.slot]
		msg = &nfttypes.MsgBurnNFT{Id: sd.id, DenomId: classID[sd.c], Sender: addr(od.sender)}
	default:
		panic("unknown op " + op.Name)
	}
	out := s.Deliver(e, op.Name, msg)
	if !out.OK {
		// a rejection (or a handler panic, which on chain is a failed tx) leaves the state untouched;
		// the property promises no operation's success
		return nil
	}
	if !od.entitled {
		switch od.kind {
		case "issue":
			fs = append(fs, mc.F("C14/class-id-reused/issue-over-existing", "%s accepted although class %s exists (creator %s)", op.Name, classLabel[od.c], m.cls[od.c].creator))
		case "xclass":
			fs = append(fs, mc.F("C14/class-handover-by-non-creator", "%s accepted; the current creator is %s", op.Name, m.cls[od.c].creator))
		case "mint":
			if od.role == "id-in-use" {
				fs = append(fs, mc.F("C14/token-id-reused/mint-over-existing", "%s accepted although the token exists (owner %s)", op.Name, m.tok[od.slot].owner))
			} else {
				fs = append(fs, mc.F("C14/restricted-mint-by-non-creator", "%s accepted in a mint-restricted class whose creator is %s", op.Name, m.cls[od.c].creator))
			}
		default:
			fs = append(fs, mc.F("C14/"+od.kind+"-by-non-owner/"+od.role, "%s accepted; the reference owner of the token is %q (exists=%v)", op.Name, m.tok[od.slot].owner, m.tok[od.slot].exists))
		}
		// the reference is not advanced by an illegitimate success: Check keeps reporting the divergence
		return fs
	}
	switch od.kind {
	case "issue":
		m.cls[od.c] = class{exists: true, creator: od.sender, mintR: d.V.Flags[od.c][0], upR: d.V.Flags[od.c][1]}
	case "xclass":
		m.cls[od.c].creator = od.rcpt
	case "mint":
		m.tok[od.slot] = token{exists: true, owner: od.rcpt, m: metaMint}
	case "edit":
		if !m.cls[od.c].upR {
			d.adopt(e, s, od.slot, req)
		}
	case "transfer":
		m.tok[od.slot].owner = od.rcpt
		if !m.cls[od.c].upR {
			d.adopt(e, s, od.slot, req)
		}
	case "burn":
		m.tok[od.slot] = token{ghost: m.tok[od.slot].owner}
	}
	return fs
}

func sortedCopy(xs []string) []string {
	o := append([]string{}, xs...)
	sort.Strings(o)
	return o
}

func eqStrings(a, b []string) bool {
	if len(a) != len(b) {
		return false
	}
	for i := range a {
		if a[i] != b[i] {
			return false
		}
	}
	return true
}

// Check compares every query of the module with the reference ownership map.
func (d *Driver) Check(e *mc.Env, s *mc.State) []mc.Finding {
	m := s.Model.(*model)
	var fs []mc.Finding
	s.Nontrivial = m.live() >= 2

	// the set of classes
	var wantClasses, gotClasses []string
	for c, cl := range m.cls {
		if cl.exists {
			wantClasses = append(wantClasses, classID[c])
		}
	}
	if dr, err := e.NFT.Denoms(s.Ctx, &nfttypes.QueryDenomsRequest{}); err != nil {
		fs = append(fs, mc.F("C14/query-failed/denoms", "%v", err))
	} else {
		for _, dn := range dr.Denoms {
			gotClasses = append(gotClasses, dn.Id)
		}
		if !eqStrings(sortedCopy(gotClasses), sortedCopy(wantClasses)) {
			fs = append(fs, mc.F("C14/class-set-differs", "classes query lists %v, reference %v", gotClasses, wantClasses))
		}
	}

	for c, cl := range m.cls {
		id := classID[c]
		dr, err := e.NFT.Denom(s.Ctx, &nfttypes.QueryDenomRequest{DenomId: id})
		if !cl.exists {
			if err == nil {
				fs = append(fs, mc.F("C14/class-set-differs", "class %s was never issued but the class query returns %v", classLabel[c], dr.Denom))
			}
			continue
		}
		if err != nil || dr.Denom == nil {
			fs = append(fs, mc.F("C14/class-vanished", "class %s: class query failed: %v", classLabel[c], err))
			continue
		}
		dn := dr.Denom
		if dn.Id != id {
			fs = append(fs, mc.F("C14/class-record-differs/id", "class %s reports id %q", classLabel[c], dn.Id))
		}
		if dn.Creator != addr(cl.creator) {
			fs = append(fs, mc.F("C14/class-record-differs/creator", "class %s reports creator %s, reference %s (%s)", classLabel[c], dn.Creator, cl.creator, addr(cl.creator)))
		}
		if dn.MintRestricted != cl.mintR {
			fs = append(fs, mc.F("C14/class-record-differs/mint_restricted", "class %s reports mint_restricted=%v, issued with %v", classLabel[c], dn.MintRestricted, cl.mintR))
		}
		if dn.UpdateRestricted != cl.upR {
			fs = append(fs, mc.F("C14/class-record-differs/update_restricted", "class %s reports update_restricted=%v, issued with %v", classLabel[c], dn.UpdateRestricted, cl.upR))
		}

		// tokens of the class according to the reference
		want := map[string]token{}
		var wantIDs []string
		for i, sd := range slots {
			if sd.c == c && m.tok[i].exists {
				want[sd.id] = m.tok[i]
				wantIDs = append(wantIDs, sd.id)
			}
		}
		sort.Strings(wantIDs)

		// collection query
		nColl := -1
		cr, err := e.NFT.Collection(s.Ctx, &nfttypes.QueryCollectionRequest{DenomId: id})
		if err != nil || cr.Collection == nil {
			fs = append(fs, mc.F("C14/query-failed/collection", "class %s: %v", classLabel[c], err))
		} else {
			nColl = len(cr.Collection.NFTs)
			var gotIDs []string
			seen := map[string]int{}
			for _, t := range cr.Collection.NFTs {
				gotIDs = append(gotIDs, t.Id)
				seen[t.Id]++
			}
			for _, tid := range sortedKeys(seen) {
				if seen[tid] > 1 {
					fs = append(fs, mc.F("C14/token-listed-twice/collection", "class %s lists token %s %d times", classLabel[c], tid, seen[tid]))
				}
			}
			if !eqStrings(sortedCopy(gotIDs), wantIDs) {
				fs = append(fs, mc.F("C14/token-set-differs/collection", "class %s: collection lists %v, reference %v", classLabel[c], gotIDs, wantIDs))
			}
			if cr.Collection.Denom.Id != id {
				fs = append(fs, mc.F("C14/class-record-differs/id", "collection of class %s reports class id %q", classLabel[c], cr.Collection.Denom.Id))
			}
			for _, t := range cr.Collection.NFTs {
				if w, ok := want[t.Id]; ok {
					fs = append(fs, d.compareToken(c, "collection", t, w)...)
				}
			}
		}

		// reported supply
		sr, err := e.NFT.Supply(s.Ctx, &nfttypes.QuerySupplyRequest{DenomId: id})
		if err != nil {
			fs = append(fs, mc.F("C14/query-failed/supply", "class %s: %v", classLabel[c], err))
			continue
		}
		supply := sr.Amount
		if nColl >= 0 && supply != uint64(nColl) {
			fs = append(fs, mc.F("C14/supply-differs/reported-vs-collection", "class %s: reported supply %d, collection holds %d tokens", classLabel[c], supply, nColl))
		}
		if supply != uint64(len(wantIDs)) {
			fs = append(fs, mc.F("C14/supply-differs/reported-vs-reference", "class %s: reported supply %d, reference holds %d tokens %v", classLabel[c], supply, len(wantIDs), wantIDs))
		}

		// owners' balances and owner index
		var sumBal uint64
		listedBy := map[string][]string{}
		for _, a := range actors {
			br, err := e.NFT.Supply(s.Ctx, &nfttypes.QuerySupplyRequest{DenomId: id, Owner: addr(a)})
			if err != nil {
				fs = append(fs, mc.F("C14/query-failed/owner-balance", "class %s owner %s: %v", classLabel[c], a, err))
				continue
			}
			sumBal += br.Amount
			var wantOwned []string
			for _, tid := range wantIDs {
				if want[tid].owner == a {
					wantOwned = append(wantOwned, tid)
				}
			}
			if br.Amount != uint64(len(wantOwned)) {
				fs = append(fs, mc.F("C14/owner-balance-differs", "class %s: balance of %s is %d, reference owns %v", classLabel[c], a, br.Amount, wantOwned))
			}
			or, err := e.NFT.NFTsOfOwner(s.Ctx, &nfttypes.QueryNFTsOfOwnerRequest{DenomId: id, Owner: addr(a)})
			if err != nil || or.Owner == nil {
				fs = append(fs, mc.F("C14/query-failed/nfts-of-owner", "class %s owner %s: %v", classLabel[c], a, err))
				continue
			}
			var gotOwned []string
			for _, idc := range or.Owner.IDCollections {
				if idc.DenomId != id {
					fs = append(fs, mc.F("C14/owner-index-differs/foreign-class", "tokens-of-owner(%s,%s) lists class %q", classLabel[c], a, idc.DenomId))
					continue
				}
				gotOwned = append(gotOwned, idc.TokenIds...)
			}
			for _, tid := range gotOwned {
				listedBy[tid] = append(listedBy[tid], a)
			}
			if !eqStrings(sortedCopy(gotOwned), wantOwned) {
				fs = append(fs, mc.F("C14/owner-index-differs", "class %s: tokens-of-owner(%s) lists %v, reference %v", classLabel[c], a, gotOwned, wantOwned))
			}
		}
		if sumBal != supply {
			fs = append(fs, mc.F("C14/supply-differs/reported-vs-owner-balances", "class %s: reported supply %d, owners' balances sum to %d", classLabel[c], supply, sumBal))
		}
		for _, tid := range wantIDs {
			if n := len(listedBy[tid]); n != 1 {
				fs = append(fs, mc.F(fmt.Sprintf("C14/owners-per-token/%d", n), "class %s token %s is listed under the owners %v", classLabel[c], tid, listedBy[tid]))
			}
		}
	}

	// single-token query for every slot
	for i, sd := range slots {
		t := m.tok[i]
		got, err := d.queryNFT(e, s, i)
		if !t.exists {
			if err == nil && got != nil {
				fs = append(fs, mc.F("C14/token-exists-unexpectedly", "token (%s,%s) does not exist in the reference but the token query returns %v", classLabel[sd.c], sd.label, got))
			}
			continue
		}
		if err != nil || got == nil {
			fs = append(fs, mc.F("C14/token-vanished", "token (%s,%s) owned by %s: token query failed: %v", classLabel[sd.c], sd.label, t.owner, err))
			continue
		}
		fs = append(fs, d.compareToken(sd.c, "token", *got, t)...)
	}
	return fs
}

func sortedKeys(m map[string]int) []string {
	var ks []string
	for k := range m {
		ks = append(ks, k)
	}
	sort.Strings(ks)
	return ks
}

// compareToken: one token as reported by a query against the reference.
func (d *Driver) compareToken(c int, query string, got nfttypes.BaseNFT, want token) []mc.Finding {
	var fs []mc.Finding
	if got.Owner != addr(want.owner) {
		fs = append(fs, mc.F("C14/owner-differs-from-reference/"+query, "class %s token %s: %s query reports owner %s, reference %s (%s)", classLabel[c], got.Id, query, got.Owner, want.owner, addr(want.owner)))
	}
	g := meta{got.Name, got.URI, got.UriHash, got.Data}.fields()
	w := want.m.fields()
	for i := range g {
		if g[i] == w[i] {
			continue
		}
		if d.V.Flags[c][1] {
			fs = append(fs, mc.F("C14/update-restricted-metadata-changed/"+fieldNames[i], "class %s (update-restricted) token %s: %s is %q, minted with %q (%s query)", classLabel[c], got.Id, fieldNames[i], g[i], w[i], query))
		} else {
			fs = append(fs, mc.F("C14/metadata-changed-without-owner-request/"+fieldNames[i], "class %s token %s: %s is %q but the last value established by the owner is %q (%s query)", classLabel[c], got.Id, fieldNames[i], g[i], w[i], query))
		}
	}
	return fs
}

const rule = "state with at least two live tokens; distinct by canonical hash of the nft store and the reference ownership map"

// Parts: one exploration per assignment of restriction flags to (c1, c2).
func Parts() []mc.Part {
	vs := []Variant{
		{Name: "c1-open.c2-mintR+updR", Flags: [2][2]bool{{false, false}, {true, true}}},
		{Name: "c1-mintR.c2-updR", Flags: [2][2]bool{{true, false}, {false, true}}},
		{Name: "c1-updR.c2-mintR", Flags: [2][2]bool{{false, true}, {true, false}}},
		{Name: "c1-mintR+updR.c2-open", Flags: [2][2]bool{{true, true}, {false, false}}},
	}
	var ps []mc.Part
	for _, v := range vs {
		ps = append(ps, mc.ExplorePart(v.Name, New(v), depthQuick, depthThorough, false, rule))
	}
	return ps
}

const (
	depthQuick    = 4
	depthThorough = 5
)
