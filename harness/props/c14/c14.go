// Package c14: NFT module — every token has exactly one owner; only the current owner can transfer,
// edit or burn; minting into a mint-restricted class only by the class creator; tokens of an
// update-restricted class never change their metadata; a class changes hands only by its current
// creator; class ids and token ids are never re-used while they exist; the reported supply of a
// class equals the number of its tokens and the sum of the owners' balances.
//
// The driver closes the system with three actors (A, B, X), two class ids (c1, c2) and the token
// slots (c1,n1) (c1,n2) (c2,n1) — n1 collides across the classes. One exploration per assignment of
// restriction flags to (c1, c2); the four explorations cover every flag combination both as the
// fixture class c1 and as the class c2 issued on the path.
//
// Oracle structure:
//   - Apply (step level): a message the property forbids to succeed ("!"-prefixed op names: non-owner
//     transfer/edit/burn, non-creator mint into a mint-restricted class, mint / issue over a live id,
//     class handover by a non-creator) that is accepted is a finding. Then the nominal effect of the
//     accepted message is applied to the reference, the module's class + collection view is read,
//     every difference is a finding (owner, token set, creator, metadata of an update-restricted
//     class, metadata fields the owner did not ask to change), and the reference is re-synchronised
//     to the view so that one defect is reported once per path and not again in every later state.
//     Rejections are never findings (the property promises no operation's success).
//   - Check (state level): the module's reports agree with each other — supply = #collection =
//     sum of owners' balances, every token under exactly one owner in the owner index and that owner
//     equals the collection's and the token query's, class list = issued classes, ids stable.
//
// The restriction flags of the reference are those the class was issued with; a drift of the flags
// in the class record is not a finding by itself, its consequences are (with the state of the
// record as a signature discriminator).
package c14

import (
	"bytes"
	"fmt"
	"sort"

	sdk "github.com/cosmos/cosmos-sdk/types"

	nfttypes "mods.irisnet.org/modules/nft/types"

	"verif/harness/mc"
)

// sentinel is the wire value that asks the module to leave a field untouched. It is spelled out
// here (not imported) so that the reference does not depend on the implementation's constant.
const sentinel = "[do-not-modify]"

var actors = []string{"A", "B", "X"}

// next / third: the two other actors in a fixed cyclic order.
func next(a string) string {
	switch a {
	case "A":
		return "B"
	case "B":
		return "X"
	}
	return "A"
}
func third(a string) string { return next(next(a)) }

var classLabel = [2]string{"c1", "c2"}

// on-chain ids where one is a proper prefix of the other (key layouts that forget a terminator mix them up)
var classID = [2]string{"class1", "class11"}

// token slots: (class index, label, on-chain id)
type slotDef struct {
	c     int
	label string
	id    string
}

var slots = [3]slotDef{{0, "n1", "tok1"}, {0, "n2", "tok11"}, {1, "n1", "tok1"}}

type meta struct{ Name, URI, Hash, Data string }

var fieldNames = [4]string{"name", "uri", "uri_hash", "data"}

func (m meta) fields() [4]string { return [4]string{m.Name, m.URI, m.Hash, m.Data} }

var (
	metaMint = meta{"name0", "uri0", "hash0", `{"v":0}`}
	metaNew  = meta{"name1", "uri1", "hash1", `{"v":1}`}
)

// request builds the four wire fields of an edit / transfer for a change variant:
// none = all sentinel, all = all changed, meta = name+data changed, tok = uri+uri_hash changed.
func request(variant string) meta {
	if variant == "blank" {
		// every field present and empty: an empty string is a value (the new value), not "leave as it is"
		return meta{"", "", "", ""}
	}
	r := meta{sentinel, sentinel, sentinel, sentinel}
	if variant == "all" || variant == "meta" {
		r.Name, r.Data = metaNew.Name, metaNew.Data
	}
	if variant == "all" || variant == "tok" {
		r.URI, r.Hash = metaNew.URI, metaNew.Hash
	}
	return r
}

type class struct {
	exists     bool
	creator    string
	mintR, upR bool
}

type token struct {
	exists bool
	owner  string
	m      meta
	// ghost: last owner of the burned token that occupied the slot ("" if never burned / live).
	ghost string
}

// model is the reference ownership map. Plain values: a struct copy is a deep copy.
type model struct {
	cls [2]class
	tok [3]token
}

func (m *model) Clone() mc.Model { c := *m; return &c }
func (m *model) Canon() []byte {
	var b bytes.Buffer
	for i, c := range m.cls {
		fmt.Fprintf(&b, "C%d:%v|%s|%v|%v;", i, c.exists, c.creator, c.mintR, c.upR)
	}
	for i, t := range m.tok {
		fmt.Fprintf(&b, "T%d:%v|%s|%q|%q|%q|%q|%s;", i, t.exists, t.owner, t.m.Name, t.m.URI, t.m.Hash, t.m.Data, t.ghost)
	}
	return b.Bytes()
}

func (m *model) live() int {
	n := 0
	for _, t := range m.tok {
		if t.exists {
			n++
		}
	}
	return n
}

// Variant assigns restriction flags to the two class ids.
type Variant struct {
	Name  string
	Flags [2][2]bool // class -> (mint-restricted, update-restricted)
}

type opData struct {
	kind    string // issue | xclass | mint | edit | transfer | burn
	c       int
	slot    int
	sender  string
	rcpt    string
	variant string
	// entitled: the property allows this operation to succeed (it need not).
	entitled bool
	role     string // role of the sender when not entitled (signature discriminator)
}

// Driver implements mc.Driver.
type Driver struct{ V Variant }

// New returns the constructor for a variant.
func New(v Variant) func() (*mc.Env, mc.Driver) {
	return func() (*mc.Env, mc.Driver) {
		e := mc.NewEnv(mc.EnvOptions{Balances: map[string]sdk.Coins{"A": nil, "B": nil, "X": nil}})
		return e, &Driver{V: v}
	}
}

func (d *Driver) ID() string       { return "C14/" + d.V.Name }
func (d *Driver) Stores() []string { return []string{"nft"} }

func addr(a string) string { return mc.Addr(a).String() }

func (d *Driver) issueMsg(c int, sender string) sdk.Msg {
	return &nfttypes.MsgIssueDenom{Id: classID[c], Name: "Class " + classLabel[c], Schema: "", Sender: addr(sender), Symbol: "sym" + classLabel[c],
		MintRestricted: d.V.Flags[c][0], UpdateRestricted: d.V.Flags[c][1], Description: "d", Uri: "classuri", UriHash: "classhash", Data: `{"k":1}`}
}

// mintMeta: the second token of the first class is minted bare (no name, no data: its metadata encodes to zero
// bytes) and sorts after the first one - whatever loops over a class's tokens must not carry values over.
func mintMeta(slot int) meta {
	if slot == 1 {
		return meta{"", metaMint.URI, metaMint.Hash, ""}
	}
	return metaMint
}

func mintMsg(slot int, sender, rcpt string) sdk.Msg {
	sd := slots[slot]
	mm := mintMeta(slot)
	return &nfttypes.MsgMintNFT{Id: sd.id, DenomId: classID[sd.c], Name: mm.Name, URI: mm.URI, UriHash: mm.Hash, Data: mm.Data,
		Sender: addr(sender), Recipient: addr(rcpt)}
}

// Init: class c1 issued by A with the variant's flags, token (c1,n1) minted by A to B — so that the
// class creator (A), the owner (B) and a stranger (X) are three different actors from the start.
func (d *Driver) Init(e *mc.Env) *mc.State {
	s := &mc.State{Ctx: mc.Branch(e.Root)}
	if out := s.Deliver(e, "fx-issue-c1", d.issueMsg(0, "A")); !out.OK {
		panic("fixture issue c1: " + out.String())
	}
	if out := s.Deliver(e, "fx-mint-c1-n1", mintMsg(0, "A", "B")); !out.OK {
		panic("fixture mint (c1,n1): " + out.String())
	}
	m := &model{}
	m.cls[0] = class{exists: true, creator: "A", mintR: d.V.Flags[0][0], upR: d.V.Flags[0][1]}
	m.tok[0] = token{exists: true, owner: "B", m: metaMint}
	s.Model = m
	return s
}

func opName(od opData) string {
	p := ""
	if !od.entitled {
		p = "!"
	}
	switch od.kind {
	case "issue":
		return fmt.Sprintf("%sissue(%s,%s)", p, classLabel[od.c], od.sender)
	case "xclass":
		return fmt.Sprintf("%stransfer-class(%s,%s>%s)", p, classLabel[od.c], od.sender, od.rcpt)
	}
	sd := slots[od.slot]
	switch od.kind {
	case "mint":
		return fmt.Sprintf("%smint(%s,%s,%s>%s)", p, classLabel[sd.c], sd.label, od.sender, od.rcpt)
	case "edit":
		return fmt.Sprintf("%sedit(%s,%s,%s,%s)", p, classLabel[sd.c], sd.label, od.sender, od.variant)
	case "transfer":
		return fmt.Sprintf("%stransfer(%s,%s,%s>%s,%s)", p, classLabel[sd.c], sd.label, od.sender, od.rcpt, od.variant)
	case "burn":
		return fmt.Sprintf("%sburn(%s,%s,%s)", p, classLabel[sd.c], sd.label, od.sender)
	}
	panic("bad op kind " + od.kind)
}

// Enabled: the alphabet in this state, computed from the reference model only. Operations the
// property forbids to succeed carry a "!" prefix (they show up as their own kinds in the outcome
// histogram and are expected in the never-ok list).
func (d *Driver) Enabled(e *mc.Env, s *mc.State) []mc.Op {
	m := s.Model.(*model)
	var ops []mc.Op
	add := func(od opData) { ops = append(ops, mc.Op{Name: opName(od), Data: od}) }

	// token operations
	for i, sd := range slots {
		cl := m.cls[sd.c]
		if !cl.exists {
			continue
		}
		t := m.tok[i]
		nonOwnerRole := func(a string) string {
			if a == cl.creator {
				return "class-creator"
			}
			return "stranger"
		}
		if !t.exists {
			for _, a := range actors {
				ok := !cl.mintR || a == cl.creator
				role := ""
				if !ok {
					role = "non-creator"
				}
				for _, r := range []string{a, next(a)} {
					add(opData{kind: "mint", slot: i, c: sd.c, sender: a, rcpt: r, entitled: ok, role: role})
				}
			}
			if t.ghost != "" {
				g := t.ghost
				add(opData{kind: "burn", slot: i, c: sd.c, sender: g, role: "no-such-token/previous-owner"})
				add(opData{kind: "transfer", slot: i, c: sd.c, sender: g, rcpt: next(g), variant: "none", role: "no-such-token/previous-owner"})
				add(opData{kind: "edit", slot: i, c: sd.c, sender: g, variant: "all", role: "no-such-token/previous-owner"})
			} else {
				add(opData{kind: "burn", slot: i, c: sd.c, sender: "A", role: "no-such-token"})
			}
			continue
		}
		o := t.owner
		// owner: transfers
		for _, r := range []string{o, next(o), third(o)} {
			add(opData{kind: "transfer", slot: i, c: sd.c, sender: o, rcpt: r, variant: "none", entitled: true})
		}
		add(opData{kind: "transfer", slot: i, c: sd.c, sender: o, rcpt: o, variant: "all", entitled: true})
		for _, v := range []string{"all", "meta", "tok", "blank"} {
			add(opData{kind: "transfer", slot: i, c: sd.c, sender: o, rcpt: next(o), variant: v, entitled: true})
		}
		// owner: edits
		for _, v := range []string{"none", "all", "meta", "tok"} {
			add(opData{kind: "edit", slot: i, c: sd.c, sender: o, variant: v, entitled: true})
		}
		add(opData{kind: "burn", slot: i, c: sd.c, sender: o, entitled: true})
		// everybody else
		for _, a := range actors {
			if a == o {
				continue
			}
			role := nonOwnerRole(a)
			add(opData{kind: "transfer", slot: i, c: sd.c, sender: a, rcpt: a, variant: "none", role: role})
			add(opData{kind: "transfer", slot: i, c: sd.c, sender: a, rcpt: a, variant: "all", role: role})
			add(opData{kind: "edit", slot: i, c: sd.c, sender: a, variant: "all", role: role})
			add(opData{kind: "edit", slot: i, c: sd.c, sender: a, variant: "none", role: role})
			add(opData{kind: "burn", slot: i, c: sd.c, sender: a, role: role})
		}
		// minting over a live id: by the class creator and by one other actor
		add(opData{kind: "mint", slot: i, c: sd.c, sender: cl.creator, rcpt: cl.creator, role: "id-in-use"})
		add(opData{kind: "mint", slot: i, c: sd.c, sender: next(cl.creator), rcpt: next(cl.creator), role: "id-in-use"})
	}

	// class operations
	for c := range m.cls {
		cl := m.cls[c]
		if !cl.exists {
			continue
		}
		for _, a := range actors {
			if a == cl.creator {
				for _, r := range []string{a, next(a), third(a)} {
					add(opData{kind: "xclass", c: c, sender: a, rcpt: r, entitled: true})
				}
			} else {
				add(opData{kind: "xclass", c: c, sender: a, rcpt: a, role: "non-creator"})
			}
		}
	}
	add(opData{kind: "issue", c: 0, sender: "X", entitled: !m.cls[0].exists, role: "id-in-use"})
	add(opData{kind: "issue", c: 1, sender: "B", entitled: !m.cls[1].exists, role: "id-in-use"})
	add(opData{kind: "issue", c: 1, sender: "X", entitled: !m.cls[1].exists, role: "id-in-use"})
	return ops
}

func (d *Driver) queryNFT(e *mc.Env, s *mc.State, slot int) (*nfttypes.BaseNFT, error) {
	sd := slots[slot]
	r, err := e.NFT.NFT(s.Ctx, &nfttypes.QueryNFTRequest{DenomId: classID[sd.c], TokenId: sd.id})
	if err != nil {
		return nil, err
	}
	return r.NFT, nil
}

func actorOf(bech string) string {
	for _, a := range actors {
		if addr(a) == bech {
			return a
		}
	}
	return "?" + bech
}

// view is what the module reports through its class and collection queries, in the shape of the
// reference model (owner names resolved back to actor labels).
type view struct {
	cls     [2]class
	clsID   [2]string
	tok     [3]token
	unknown []string // tokens reported under ids the harness never minted
	colls   [2][]nfttypes.BaseNFT
	errs    []mc.Finding
}

func (d *Driver) observe(e *mc.Env, s *mc.State) *view {
	v := &view{}
	for c := range classID {
		dr, err := e.NFT.Denom(s.Ctx, &nfttypes.QueryDenomRequest{DenomId: classID[c]})
		if err != nil || dr.Denom == nil {
			continue
		}
		v.cls[c] = class{exists: true, creator: actorOf(dr.Denom.Creator), mintR: dr.Denom.MintRestricted, upR: dr.Denom.UpdateRestricted}
		v.clsID[c] = dr.Denom.Id
		cr, err := e.NFT.Collection(s.Ctx, &nfttypes.QueryCollectionRequest{DenomId: classID[c]})
		if err != nil || cr.Collection == nil {
			v.errs = append(v.errs, mc.F("C14/query-failed/collection", "class %s: %v", classLabel[c], err))
			continue
		}
		if cr.Collection.Denom.Id != classID[c] {
			v.clsID[c] = cr.Collection.Denom.Id
		}
		v.colls[c] = cr.Collection.NFTs
		for _, t := range cr.Collection.NFTs {
			found := false
			for i, sd := range slots {
				if sd.c == c && sd.id == t.Id {
					found = true
					v.tok[i] = token{exists: true, owner: actorOf(t.Owner), m: meta{t.Name, t.URI, t.UriHash, t.Data}}
				}
			}
			if !found {
				v.unknown = append(v.unknown, classLabel[c]+"/"+t.Id)
			}
		}
	}
	return v
}

func mintFlagNow(e *mc.Env, s *mc.State, c int) bool {
	dr, err := e.NFT.Denom(s.Ctx, &nfttypes.QueryDenomRequest{DenomId: classID[c]})
	return err == nil && dr.Denom != nil && dr.Denom.MintRestricted
}

// allowance: which fields of which slot may silently take a new value in this step.
type allowance struct {
	slot   int
	fields [4]bool
}

var noAllowance = allowance{slot: -1}

// diff reports every difference between the module's view and the reference.
// cause is the kind of the message that was just accepted ("no-message" from Check), target its token slot.
func (d *Driver) diff(v *view, m *model, al allowance, cause string, target int) []mc.Finding {
	fs := append([]mc.Finding{}, v.errs...)
	for c := range m.cls {
		w, g := m.cls[c], v.cls[c]
		switch {
		case w.exists && !g.exists:
			fs = append(fs, mc.F("C14/class-set-differs/vanished", "class %s (creator %s) is no longer reported by the class query", classLabel[c], w.creator))
			continue
		case !w.exists && g.exists:
			fs = append(fs, mc.F("C14/class-set-differs/appeared", "class %s was not issued but the class query reports it (creator %s)", classLabel[c], g.creator))
			continue
		case !w.exists:
			continue
		}
		if v.clsID[c] != classID[c] {
			fs = append(fs, mc.F("C14/class-record-differs/id", "class %s reports id %q", classLabel[c], v.clsID[c]))
		}
		if g.creator != w.creator {
			fs = append(fs, mc.F("C14/class-record-differs/creator", "class %s reports creator %s, reference %s", classLabel[c], g.creator, w.creator))
		}
		// A drift of the restriction flags in the class record is not reported by itself: the property
		// speaks about what can happen to tokens of a class that was issued restricted. The reference
		// keeps the issued flags, the consequences (a stranger minting, metadata changing) are reported
		// with the state of the class record as a discriminator.
	}
	if len(v.unknown) > 0 {
		fs = append(fs, mc.F("C14/token-set-differs/unknown-id", "collections list tokens that were never minted: %v", v.unknown))
	}
	for i, sd := range slots {
		w, g := m.tok[i], v.tok[i]
		name := fmt.Sprintf("(%s,%s)", classLabel[sd.c], sd.label)
		switch {
		case w.exists && !g.exists:
			fs = append(fs, mc.F("C14/token-set-differs/vanished", "token %s owned by %s is no longer in the collection", name, w.owner))
			continue
		case !w.exists && g.exists:
			fs = append(fs, mc.F("C14/token-set-differs/appeared", "token %s does not exist in the reference but the collection lists it (owner %s)", name, g.owner))
			continue
		case !w.exists:
			continue
		}
		if g.owner != w.owner {
			fs = append(fs, mc.F("C14/owner-differs-from-reference", "token %s: collection reports owner %s, reference %s", name, g.owner, w.owner))
		}
		gf, wf := g.m.fields(), w.m.fields()
		var changed []string
		for k := range gf {
			if gf[k] != wf[k] && !(al.slot == i && al.fields[k]) {
				changed = append(changed, fieldNames[k])
			}
		}
		if len(changed) > 0 {
			// discriminators: the message kind that was just accepted and whether it addressed this token
			// (the changed fields are in the detail: one broken handler = one signature)
			via := cause
			if cause != "no-message" && target != i {
				via += "-on-other-token"
			}
			sig := "C14/metadata-changed-without-owner-request/" + via
			if m.cls[sd.c].upR {
				sig = "C14/update-restricted-metadata-changed/" + via + "/" + flagState(v.cls[sd.c].upR)
			}
			fs = append(fs, mc.F(sig, "token %s: %s changed: now %v, before %v (class issued update-restricted=%v, class record now says %v)", name, joinPlus(changed), gf, wf, m.cls[sd.c].upR, v.cls[sd.c].upR))
		}
	}
	return fs
}

// flagState names whether the class record still carries a restriction flag the class was issued with.
func flagState(still bool) string {
	if still {
		return "class-record-flag-intact"
	}
	return "class-record-flag-lost"
}

func joinPlus(xs []string) string {
	o := ""
	for i, x := range xs {
		if i > 0 {
			o += "+"
		}
		o += x
	}
	return o
}

// sync makes the reference follow the module's view (after the differences have been reported), so
// that one defect is reported once, at the step where it becomes visible, and not again in every
// later state. The ghost of a burned token is harness knowledge and is kept.
func (m *model) sync(v *view) {
	for c := range m.cls {
		issued := m.cls[c]
		m.cls[c] = v.cls[c]
		if issued.exists && v.cls[c].exists {
			// restriction flags are fixed at issue; the reference never forgets them
			m.cls[c].mintR, m.cls[c].upR = issued.mintR, issued.upR
		}
	}
	for i := range m.tok {
		g := m.tok[i].ghost
		m.tok[i] = v.tok[i]
		if !m.tok[i].exists {
			m.tok[i].ghost = g
		}
	}
}

func (d *Driver) Apply(e *mc.Env, s *mc.State, op mc.Op) []mc.Finding {
	od := op.Data.(opData)
	m := s.Model.(*model)
	var fs []mc.Finding
	var msg sdk.Msg
	var req meta
	switch od.kind {
	case "issue":
		msg = d.issueMsg(od.c, od.sender)
	case "xclass":
		msg = &nfttypes.MsgTransferDenom{Id: classID[od.c], Sender: addr(od.sender), Recipient: addr(od.rcpt)}
	case "mint":
		msg = mintMsg(od.slot, od.sender, od.rcpt)
	case "edit":
		req = request(od.variant)
		sd := slots[od.slot]
		msg = &nfttypes.MsgEditNFT{Id: sd.id, DenomId: classID[sd.c], Name: req.Name, URI: req.URI, UriHash: req.Hash, Data: req.Data, Sender: addr(od.sender)}
	case "transfer":
		req = request(od.variant)
		sd := slots[od.slot]
		msg = &nfttypes.MsgTransferNFT{Id: sd.id, DenomId: classID[sd.c], Name: req.Name, URI: req.URI, UriHash: req.Hash, Data: req.Data,
			Sender: addr(od.sender), Recipient: addr(od.rcpt)}
	case "burn":
		sd := slots[od.slot]
		msg = &nfttypes.MsgBurnNFT{Id: sd.id, DenomId: classID[sd.c], Sender: addr(od.sender)}
	default:
		panic("unknown op " + op.Name)
	}
	out := s.Deliver(e, op.Name, msg)
	if !out.OK {
		// a rejection (or a handler panic, which on chain is a failed tx) leaves the state untouched
		// (Deliver's atomicity); the property promises no operation's success
		return nil
	}
	if !od.entitled {
		switch od.kind {
		case "issue":
			fs = append(fs, mc.F("C14/class-id-reused/issue-over-existing", "%s accepted although class %s exists (creator %s)", op.Name, classLabel[od.c], m.cls[od.c].creator))
		case "xclass":
			fs = append(fs, mc.F("C14/class-handover-by-non-creator", "%s accepted; the current creator is %s", op.Name, m.cls[od.c].creator))
		case "mint":
			if od.role == "id-in-use" {
				fs = append(fs, mc.F("C14/token-id-reused/mint-over-existing", "%s accepted although the token exists (owner %s)", op.Name, m.tok[od.slot].owner))
			} else {
				now := mintFlagNow(e, s, od.c)
				fs = append(fs, mc.F("C14/restricted-mint-by-non-creator/"+flagState(now), "%s accepted in a class issued mint-restricted whose creator is %s (class record now says mint_restricted=%v)", op.Name, m.cls[od.c].creator, now))
			}
		default:
			fs = append(fs, mc.F("C14/"+od.kind+"-by-non-owner/"+od.role, "%s accepted; the reference owner of the token is %q (exists=%v)", op.Name, m.tok[od.slot].owner, m.tok[od.slot].exists))
		}
	}
	// nominal effect of the accepted message on the reference (also for an illegitimate success: its
	// root cause has just been reported, the consequences are not reported again)
	al := noAllowance
	switch od.kind {
	case "issue":
		m.cls[od.c] = class{exists: true, creator: od.sender, mintR: d.V.Flags[od.c][0], upR: d.V.Flags[od.c][1]}
	case "xclass":
		m.cls[od.c].creator = od.rcpt
	case "mint":
		// the property does not say which metadata a mint stores: whatever it is, it is the token's
		// metadata from now on
		m.tok[od.slot] = token{exists: true, owner: od.rcpt, m: mintMeta(od.slot)}
		al = allowance{slot: od.slot, fields: [4]bool{true, true, true, true}}
	case "edit", "transfer":
		if m.tok[od.slot].exists {
			if od.kind == "transfer" {
				m.tok[od.slot].owner = od.rcpt
			}
			// fields the sender asked to change may take a new value (the property does not say which),
			// unless the class is update-restricted; fields sent as the sentinel may not change
			if !m.cls[od.c].upR {
				al = allowance{slot: od.slot, fields: [4]bool{req.Name != sentinel, req.URI != sentinel, req.Hash != sentinel, req.Data != sentinel}}
			}
		}
	case "burn":
		if m.tok[od.slot].exists {
			m.tok[od.slot] = token{ghost: m.tok[od.slot].owner}
		}
	}
	v := d.observe(e, s)
	target := -1
	if od.kind != "issue" && od.kind != "xclass" {
		target = od.slot
	}
	fs = append(fs, d.diff(v, m, al, od.kind, target)...)
	m.sync(v)
	return fs
}

func sortedCopy(xs []string) []string {
	o := append([]string{}, xs...)
	sort.Strings(o)
	return o
}

func eqStrings(a, b []string) bool {
	if len(a) != len(b) {
		return false
	}
	for i := range a {
		if a[i] != b[i] {
			return false
		}
	}
	return true
}

// Check: (1) the module's class / collection view equals the reference (after Apply's sync this only
// fires in the initial state or if a rejected message had an effect); (2) the module's reports are
// consistent with each other: reported supply = number of tokens in the collection = sum of the
// owners' balances; every token is listed under exactly one owner, the one the collection and the
// token query report; the class list holds exactly the issued classes.
func (d *Driver) Check(e *mc.Env, s *mc.State) []mc.Finding {
	m := s.Model.(*model)
	s.Nontrivial = m.live() >= 2
	v := d.observe(e, s)
	fs := d.diff(v, m, noAllowance, "no-message", -1)

	// the class list
	var wantClasses, gotClasses []string
	for c, cl := range v.cls {
		if cl.exists {
			wantClasses = append(wantClasses, classID[c])
		}
	}
	if dr, err := e.NFT.Denoms(s.Ctx, &nfttypes.QueryDenomsRequest{}); err != nil {
		fs = append(fs, mc.F("C14/query-failed/denoms", "%v", err))
	} else {
		for _, dn := range dr.Denoms {
			gotClasses = append(gotClasses, dn.Id)
		}
		if !eqStrings(sortedCopy(gotClasses), sortedCopy(wantClasses)) {
			fs = append(fs, mc.F("C14/class-list-differs-from-class-queries", "classes query lists %v, single-class queries find %v", gotClasses, wantClasses))
		}
	}

	for c, cl := range v.cls {
		if !cl.exists {
			continue
		}
		id := classID[c]
		coll := v.colls[c]
		collOwner := map[string]string{}
		seen := map[string]int{}
		for _, t := range coll {
			seen[t.Id]++
			collOwner[t.Id] = t.Owner
		}
		for _, tid := range sortedKeys(seen) {
			if seen[tid] > 1 {
				fs = append(fs, mc.F("C14/token-listed-twice/collection", "class %s lists token %s %d times", classLabel[c], tid, seen[tid]))
			}
		}
		sr, err := e.NFT.Supply(s.Ctx, &nfttypes.QuerySupplyRequest{DenomId: id})
		if err != nil {
			fs = append(fs, mc.F("C14/query-failed/supply", "class %s: %v", classLabel[c], err))
			continue
		}
		supply := sr.Amount
		if supply != uint64(len(coll)) {
			fs = append(fs, mc.F("C14/supply-differs/reported-vs-collection", "class %s: reported supply %d, collection holds %d tokens", classLabel[c], supply, len(coll)))
		}
		var sumBal uint64
		listedBy := map[string][]string{}
		for _, a := range actors {
			br, err := e.NFT.Supply(s.Ctx, &nfttypes.QuerySupplyRequest{DenomId: id, Owner: addr(a)})
			if err != nil {
				fs = append(fs, mc.F("C14/query-failed/owner-balance", "class %s owner %s: %v", classLabel[c], a, err))
				continue
			}
			sumBal += br.Amount
			or, err := e.NFT.NFTsOfOwner(s.Ctx, &nfttypes.QueryNFTsOfOwnerRequest{DenomId: id, Owner: addr(a)})
			if err != nil || or.Owner == nil {
				fs = append(fs, mc.F("C14/query-failed/nfts-of-owner", "class %s owner %s: %v", classLabel[c], a, err))
				continue
			}
			n := 0
			for _, idc := range or.Owner.IDCollections {
				if idc.DenomId != id {
					fs = append(fs, mc.F("C14/owner-index-differs/foreign-class", "tokens-of-owner(%s,%s) lists class %q", classLabel[c], a, idc.DenomId))
					continue
				}
				for _, tid := range idc.TokenIds {
					n++
					listedBy[tid] = append(listedBy[tid], a)
					if _, ok := collOwner[tid]; !ok {
						fs = append(fs, mc.F("C14/owner-index-differs/token-not-in-collection", "class %s: tokens-of-owner(%s) lists %s, which the collection does not hold", classLabel[c], a, tid))
					}
				}
			}
			if br.Amount != uint64(n) {
				fs = append(fs, mc.F("C14/owner-balance-differs-from-owner-index", "class %s: balance of %s is %d, tokens-of-owner lists %d", classLabel[c], a, br.Amount, n))
			}
		}
		// every owner in this closed system is one of the actors, so the balances must add up
		if sumBal != supply {
			fs = append(fs, mc.F("C14/supply-differs/reported-vs-owner-balances", "class %s: reported supply %d, owners' balances sum to %d", classLabel[c], supply, sumBal))
		}
		for _, t := range coll {
			ls := listedBy[t.Id]
			if len(ls) != 1 {
				fs = append(fs, mc.F(fmt.Sprintf("C14/owners-per-token/%d", len(ls)), "class %s token %s (collection owner %s) is listed under the owners %v", classLabel[c], t.Id, actorOf(t.Owner), ls))
			} else if addr(ls[0]) != t.Owner {
				fs = append(fs, mc.F("C14/owner-index-differs/owner", "class %s token %s: collection owner %s, owner index %s", classLabel[c], t.Id, actorOf(t.Owner), ls[0]))
			}
		}
	}

	// single-token query for every slot against the collection view
	for i, sd := range slots {
		t := v.tok[i]
		name := fmt.Sprintf("(%s,%s)", classLabel[sd.c], sd.label)
		got, err := d.queryNFT(e, s, i)
		if !t.exists {
			if err == nil && got != nil {
				fs = append(fs, mc.F("C14/token-query-differs-from-collection/exists", "token %s is not in the collection but the token query returns %v", name, got))
			}
			continue
		}
		if err != nil || got == nil {
			fs = append(fs, mc.F("C14/token-query-differs-from-collection/missing", "token %s is in the collection but the token query fails: %v", name, err))
			continue
		}
		if got.Id != sd.id {
			fs = append(fs, mc.F("C14/token-query-differs-from-collection/id", "token %s: token query reports id %q", name, got.Id))
		}
		if actorOf(got.Owner) != t.owner {
			fs = append(fs, mc.F("C14/token-query-differs-from-collection/owner", "token %s: token query owner %s, collection owner %s", name, actorOf(got.Owner), t.owner))
		}
		if (meta{got.Name, got.URI, got.UriHash, got.Data}) != t.m {
			fs = append(fs, mc.F("C14/token-query-differs-from-collection/metadata", "token %s: token query %v, collection %v", name, got, t.m))
		}
	}
	return fs
}

func sortedKeys(m map[string]int) []string {
	var ks []string
	for k := range m {
		ks = append(ks, k)
	}
	sort.Strings(ks)
	return ks
}

const rule = "state with at least two live tokens; distinct by canonical hash of the nft store and the reference ownership map"

// Variants exposes the explorations for reuse by the cross-cutting checks (C11, C12).
func Variants() []Variant {
	return []Variant{
		{Name: "c1-open.c2-mintR+updR", Flags: [2][2]bool{{false, false}, {true, true}}},
		{Name: "c1-mintR.c2-updR", Flags: [2][2]bool{{true, false}, {false, true}}},
		{Name: "c1-updR.c2-mintR", Flags: [2][2]bool{{false, true}, {true, false}}},
		{Name: "c1-mintR+updR.c2-open", Flags: [2][2]bool{{true, true}, {false, false}}},
	}
}

// Parts: one exploration per assignment of restriction flags to (c1, c2).
func Parts() []mc.Part {
	var ps []mc.Part
	for _, v := range Variants() {
		ps = append(ps, mc.ExplorePartC(v.Name, mc.WithRestart(New(v), "nft"), depthQuick, depthThorough, false, rule,
			&mc.ConfOpts{Stores: []string{"nft"}, SkipDenoms: map[string]bool{"stake": true}, MaxPaths: 100}))
	}
	ps = append(ps, BulkPart())
	return ps
}

// Depths. The closed system is finite and small (strong dedup): the number of distinct states stops
// growing at depth 9 (15840 / 15840 / 6174 / 6174 states per part, the same at depth 10), i.e. the
// thorough tier visits every reachable state of the closed system and tries every operation of the
// alphabet in each of them; the quick tier covers all histories of up to 5 messages after the fixture.
const (
	depthQuick    = 5
	depthThorough = 9
)
