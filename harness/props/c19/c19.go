// Package c19: record module — a stored record is immutable and its id unique and permanent.
package c19

import (
	"bytes"
	"encoding/hex"
	"fmt"
	"math"
	"strings"
	"sync"
	"time"

	"github.com/cometbft/cometbft/crypto/tmhash"
	cmtbytes "github.com/cometbft/cometbft/libs/bytes"
	sdk "github.com/cosmos/cosmos-sdk/types"
	"github.com/cosmos/gogoproto/proto"
	"google.golang.org/protobuf/reflect/protoreflect"

	recordtypes "mods.irisnet.org/modules/record/types"

	"verif/harness/mc"
)

type rec struct {
	ID      string
	Content int
	Creator string
	TxHash  []byte
}

type model struct {
	recs []rec
	// pending: verdicts of a restart-from-genesis (reported by Check of the state the restart leads to)
	pending []mc.Finding
}

func (m *model) Clone() mc.Model { return &model{recs: append([]rec{}, m.recs...)} }
func (m *model) Canon() []byte {
	var b bytes.Buffer
	for _, f := range m.pending {
		b.WriteString(f.Sig + ";")
	}
	for _, r := range m.recs {
		fmt.Fprintf(&b, "%s|%d|%s|%x;", r.ID, r.Content, r.Creator, r.TxHash)
	}
	return b.Bytes()
}

// contentsOf builds the i-th submitted content list afresh on every call: messages get their own copy (the
// code under test may not be trusted to leave a message's slices alone) and the reference stays what was
// submitted. The second list is deliberately not in sorted order; the third repeats a digest under another algorithm.
func contentsOf(i int) []recordtypes.Content {
	switch i {
	case 0:
		return []recordtypes.Content{{Digest: "d1", DigestAlgo: "sha256", URI: "u", Meta: "m"}}
	case 2:
		// a large record (four contents of 4 KiB of meta data each): "exactly the submitted contents" has no size bound
		var cs []recordtypes.Content
		for k := 0; k < 4; k++ {
			cs = append(cs, recordtypes.Content{Digest: fmt.Sprintf("big%d", k), DigestAlgo: "sha256", URI: "u", Meta: strings.Repeat(string(rune('a'+k)), 4096)})
		}
		return cs
	default:
		// (one digest carries the line break it was pasted with, one algorithm a trailing blank: "exactly the
		// submitted contents" includes them)
		return []recordtypes.Content{{Digest: "d2\n", DigestAlgo: "sha256 "}, {Digest: "d1", DigestAlgo: "md5", URI: "x"}, {Digest: "d1", DigestAlgo: "crc", Meta: "z"}}
	}
}

const nContents = 2

type opData struct {
	content int
	creator string
	copies  int
	block   bool
	noTx    bool
	mine    bool
}

type Driver struct {
	nearWrap bool
	// mined: also offer creations whose transaction is chosen so that the returned id begins with a zero byte
	// (one id in 256 does: whatever parses, pads or trims ids meets them sooner or later)
	mined bool
}

// minedLabels memoises, per (record counter, tx count, content, creator), the first transaction label whose
// creation returns an id beginning with "00".
var minedLabels = struct {
	sync.Mutex
	m map[string]string
}{m: map[string]string{}}

func (d *Driver) mineLabel(e *mc.Env, s *mc.State, od opData) string {
	key := fmt.Sprintf("%d|%d|%d|%s|%d", e.Record.GetIntraTxCounter(s.Ctx), s.TxSeq, od.content, od.creator, s.Ctx.BlockHeight())
	minedLabels.Lock()
	l, ok := minedLabels.m[key]
	minedLabels.Unlock()
	if ok {
		return l
	}
	for k := 0; k < 20000; k++ {
		label := fmt.Sprintf("mined-%d", k)
		fk := s.Fork()
		out := fk.Deliver(e, label, recordtypes.NewMsgCreateRecord(contentsOf(od.content), mc.Addr(od.creator).String()))
		if !out.OK {
			break
		}
		if r, ok := out.Responses[0].(*recordtypes.MsgCreateRecordResponse); ok && strings.HasPrefix(r.Id, "00") {
			l = label
			break
		}
	}
	minedLabels.Lock()
	minedLabels.m[key] = l
	minedLabels.Unlock()
	return l
}

// idsSeen: every record id any path of this process has been given so far (first 256). Reading an id is a
// function of the chain state alone — an id not created on the path at hand reads as absent, a created one as
// its record — whatever was read or written before on other branches or on this one. Each state therefore also
// reads the ids known from elsewhere: a later creation of such an id on this path is then a read-back *after an
// earlier read of the same id*, which is what a client polling for its record does.
var idsSeen = struct {
	sync.Mutex
	ids []string
	in  map[string]bool
}{in: map[string]bool{}}

func noteID(id string) {
	idsSeen.Lock()
	defer idsSeen.Unlock()
	if !idsSeen.in[id] && len(idsSeen.ids) < 256 {
		idsSeen.in[id] = true
		idsSeen.ids = append(idsSeen.ids, id)
	}
}

func knownIDs() []string {
	idsSeen.Lock()
	defer idsSeen.Unlock()
	return append([]string{}, idsSeen.ids...)
}

func New() (*mc.Env, mc.Driver) {
	e := mc.NewEnv(mc.EnvOptions{Balances: map[string]sdk.Coins{"A": nil, "B": nil}})
	return e, &Driver{}
}

// NewNearWrap is New on a chain whose record counter stands where 2^32-3 creations would have left it (set through
// the keeper's own exported setter): "arbitrarily long histories" include the wrap of the 32-bit counter, which
// no exploration reaches by creating records one by one.
func NewNearWrap() (*mc.Env, mc.Driver) {
	e := mc.NewEnv(mc.EnvOptions{Balances: map[string]sdk.Coins{"A": nil, "B": nil}})
	return e, &Driver{nearWrap: true}
}

func (d *Driver) ID() string {
	if d.nearWrap {
		return "C19/near-counter-wrap"
	}
	return "C19"
}
func (d *Driver) Stores() []string { return []string{"record"} }

func (d *Driver) Init(e *mc.Env) *mc.State {
	s := &mc.State{Ctx: mc.Branch(e.Root), Model: &model{}}
	if d.nearWrap {
		e.Record.SetIntraTxCounter(s.Ctx, math.MaxUint32-2)
		s.MarkDirty()
	}
	return s
}

func (d *Driver) Enabled(e *mc.Env, s *mc.State) []mc.Op {
	var ops []mc.Op
	for ci := 0; ci < nContents; ci++ {
		for _, who := range []string{"A", "B"} {
			ops = append(ops, mc.Op{Name: fmt.Sprintf("create(c%d,%s)", ci+1, who), Data: opData{content: ci, creator: who, copies: 1}})
		}
	}
	ops = append(ops, mc.Op{Name: "create2(c1,A)", Data: opData{content: 0, creator: "A", copies: 2}})
	ops = append(ops, mc.Op{Name: "create3(c2,B)", Data: opData{content: 1, creator: "B", copies: 3}})
	// the same message executed outside a transaction (empty tx bytes, as for a passed proposal): byte-identical
	// records in different blocks then differ in nothing but the module's own counter
	ops = append(ops, mc.Op{Name: "create-notx(c1,A)", Data: opData{content: 0, creator: "A", copies: 1, noTx: true}})
	if d.mined {
		ops = append(ops, mc.Op{Name: "create(c3-large,A)", Data: opData{content: 2, creator: "A", copies: 1}})
		ops = append(ops, mc.Op{Name: "create-with-id-00..(c1,A)", Data: opData{content: 0, creator: "A", copies: 1, mine: true}})
		ops = append(ops, mc.Op{Name: "create-with-id-00..(c2,B)", Data: opData{content: 1, creator: "B", copies: 1, mine: true}})
	}
	ops = append(ops, mc.Op{Name: "block", Data: opData{block: true}})
	return ops
}

func (d *Driver) Apply(e *mc.Env, s *mc.State, op mc.Op) []mc.Finding {
	od := op.Data.(opData)
	if od.block {
		bo := s.NextBlock(e, 5*time.Second)
		var fs []mc.Finding
		for _, p := range bo.Panics {
			fs = append(fs, mc.F("C19/block-panic/"+mc.Normalize(p), "%s", p))
		}
		return fs
	}
	m := s.Model.(*model)
	var msgs []sdk.Msg
	for i := 0; i < od.copies; i++ {
		msgs = append(msgs, recordtypes.NewMsgCreateRecord(contentsOf(od.content), mc.Addr(od.creator).String()))
	}
	seq := s.TxSeq
	var out mc.Outcome
	label := op.Name
	if od.mine {
		if label = d.mineLabel(e, s, od); label == "" {
			s.Last = "err"
			return nil
		}
	}
	if od.mine {
		out = s.Deliver(e, label, msgs...)
	} else if od.noTx {
		out = s.DeliverNoTx(e, msgs...)
	} else {
		out = s.Deliver(e, op.Name, msgs...)
	}
	var fs []mc.Finding
	if !out.OK {
		return append(fs, mc.F("C19/create-rejected/"+out.Class(), "valid create rejected: %s", out))
	}
	txh := tmhash.Sum(mc.TxBytesFor(fmt.Sprintf("%s#%d", label, seq)))
	if od.noTx {
		txh = tmhash.Sum(nil)
	}
	for _, r := range out.Responses {
		resp, ok := r.(*recordtypes.MsgCreateRecordResponse)
		if !ok || resp.Id == "" {
			fs = append(fs, mc.F("C19/no-id-returned", "response %T %v", r, r))
			continue
		}
		for _, old := range m.recs {
			if old.ID == resp.Id {
				fs = append(fs, mc.F("C19/duplicate-id", "id %s returned twice (first for content c%d by %s)", resp.Id, old.Content+1, old.Creator))
			}
		}
		m.recs = append(m.recs, rec{ID: resp.Id, Content: od.content, Creator: od.creator, TxHash: txh})
		noteID(resp.Id)
	}
	return fs
}

// Restarted (mc.RestartAware): the chain was restarted from its own exported record genesis. "Read back for ever
// after ... nothing can alter or delete it": every record must still be readable under the id its creator was
// given. The module's genesis carries no ids (they are recomputed on import: the recorded finding), so the
// reference then learns the new ids by content - every record must at least still exist, exactly once per
// creation - and keeps judging what follows (new creations may not collide with them).
func (d *Driver) Restarted(e *mc.Env, s *mc.State) {
	m := s.Model.(*model)
	type stored struct {
		id   string
		r    recordtypes.Record
		used bool
	}
	var have []*stored
	it := e.Record.RecordsIterator(s.Ctx)
	for ; it.Valid(); it.Next() {
		var r recordtypes.Record
		recordtypes.ModuleCdc.MustUnmarshal(it.Value(), &r)
		have = append(have, &stored{id: hex.EncodeToString(it.Key()[1:]), r: r})
	}
	it.Close()
	same := func(r rec, st *stored) bool {
		want := contentsOf(r.Content)
		if st.r.Creator != mc.Addr(r.Creator).String() || st.r.TxHash != cmtbytes.HexBytes(r.TxHash).String() || len(st.r.Contents) != len(want) {
			return false
		}
		for i := range want {
			if !st.r.Contents[i].Equal(want[i]) {
				return false
			}
		}
		return true
	}
	moved, lost := 0, 0
	// first pass: records still under their id
	for i := range m.recs {
		for _, st := range have {
			if !st.used && st.id == m.recs[i].ID && same(m.recs[i], st) {
				st.used = true
				m.recs[i].Creator += "" // unchanged
				break
			}
		}
	}
	for i := range m.recs {
		kept := false
		for _, st := range have {
			if st.used && st.id == m.recs[i].ID {
				kept = true
			}
		}
		if kept {
			continue
		}
		found := false
		for _, st := range have {
			if !st.used && same(m.recs[i], st) {
				st.used, found = true, true
				m.recs[i].ID = st.id
				moved++
				break
			}
		}
		if !found {
			lost++
		}
	}
	if moved > 0 {
		m.pending = append(m.pending, mc.F("C19/id-not-permanent/restart-from-genesis", "%d of %d records can no longer be read under the id their creator was given after the chain was restarted from its own exported genesis (the record is still there, under another id)", moved, len(m.recs)))
	}
	if lost > 0 || len(have) != len(m.recs) {
		m.pending = append(m.pending, mc.F("C19/record-lost-or-altered/restart-from-genesis", "%d created records, %d stored after the restart, %d without a stored record of the same contents, creator and tx hash", len(m.recs), len(have), lost))
		// resynchronise: forget what is gone
		var keep []rec
		for _, r := range m.recs {
			for _, st := range have {
				if st.id == r.ID {
					keep = append(keep, r)
					break
				}
			}
		}
		m.recs = keep
	}
}

func (d *Driver) Check(e *mc.Env, s *mc.State) []mc.Finding {
	m := s.Model.(*model)
	var fs []mc.Finding
	fs = append(fs, m.pending...)
	m.pending = nil
	for _, r := range m.recs {
		res, err := e.Record.Record(s.Ctx, &recordtypes.QueryRecordRequest{RecordId: r.ID})
		if err != nil || res.Record == nil {
			fs = append(fs, mc.F("C19/readback-failed", "id %s: %v", r.ID, err))
			continue
		}
		got := res.Record
		if got.Creator != mc.Addr(r.Creator).String() {
			fs = append(fs, mc.F("C19/readback-differs/creator", "id %s creator %q want %q", r.ID, got.Creator, mc.Addr(r.Creator)))
		}
		if got.TxHash != cmtbytes.HexBytes(r.TxHash).String() {
			fs = append(fs, mc.F("C19/readback-differs/txhash", "id %s txhash %s want %X", r.ID, got.TxHash, r.TxHash))
		}
		want := contentsOf(r.Content)
		if len(got.Contents) != len(want) {
			fs = append(fs, mc.F("C19/readback-differs/contents", "id %s contents %v want %v", r.ID, got.Contents, want))
			continue
		}
		for i := range want {
			if !got.Contents[i].Equal(want[i]) {
				fs = append(fs, mc.F("C19/readback-differs/contents", "id %s contents[%d] %v want %v", r.ID, i, got.Contents[i], want[i]))
			}
		}
	}
	mine := map[string]bool{}
	for _, r := range m.recs {
		mine[r.ID] = true
	}
	for _, id := range knownIDs() {
		if mine[id] {
			continue
		}
		res, err := e.Record.Record(s.Ctx, &recordtypes.QueryRecordRequest{RecordId: id})
		if err == nil && res.Record != nil && (len(res.Record.Contents) > 0 || res.Record.Creator != "" || res.Record.TxHash != "") {
			fs = append(fs, mc.F("C19/readable-without-creation", "id %s (created on another path only) reads as %v", id, res.Record))
		}
	}
	// the store holds exactly the records created along the path (nothing deleted, nothing extra)
	it := e.Record.RecordsIterator(s.Ctx)
	n := 0
	ids := map[string]bool{}
	for ; it.Valid(); it.Next() {
		n++
		ids[hex.EncodeToString(it.Key()[1:])] = true
	}
	it.Close()
	if n != len(m.recs) {
		fs = append(fs, mc.F("C19/record-count", "store holds %d records, %d were created", n, len(m.recs)))
	}
	for _, r := range m.recs {
		if !ids[r.ID] {
			fs = append(fs, mc.F("C19/record-missing-from-store", "id %s", r.ID))
		}
	}
	s.Nontrivial = len(m.recs) >= 2
	return fs
}

// MsgSurface enumerates the record Msg service from the registered descriptor: the only entry
// point must be CreateRecord (no update / delete).
func MsgSurface() (methods []string, findings []mc.Finding) {
	desc, err := proto.HybridResolver.FindDescriptorByName("irismod.record.Msg")
	if err != nil {
		return nil, []mc.Finding{mc.F("C19/no-msg-service", "%v", err)}
	}
	sd := desc.(protoreflect.ServiceDescriptor)
	for i := 0; i < sd.Methods().Len(); i++ {
		methods = append(methods, string(sd.Methods().Get(i).Name()))
	}
	for _, mname := range methods {
		if mname != "CreateRecord" {
			findings = append(findings, mc.F("C19/extra-msg-entry-point/"+mname, "record Msg service exposes %s", mname))
		}
	}
	return
}

func newMined() (*mc.Env, mc.Driver) {
	e, _ := New()
	return e, &Driver{mined: true}
}

func restarting() (*mc.Env, mc.Driver) {
	e, d := New()
	return e, &mc.Restarting{Driver: d, Modules: []string{"record"}, RejectSig: "C19/restart-from-genesis-refused"}
}

// Parts of the C19 check.
func Parts() []mc.Part {
	surface := mc.Part{Name: "msg-surface", Run: func(tier string, known []mc.KnownFinding, dl time.Time) mc.PartReport {
		ms, fs := MsgSurface()
		rep := mc.PartReport{Evaluations: int64(len(ms)), Exhaustive: true, Samples: []interface{}{ms}}
		for _, f := range fs {
			rep.Violations = append(rep.Violations, mc.Violation{Finding: f})
		}
		return rep
	}}
	return []mc.Part{
		mc.ExplorePartC("search", New, 6, 8, true, "state with >= 2 records created on the path; distinct by canonical store+model hash",
			&mc.ConfOpts{Stores: []string{"record"}, SkipDenoms: map[string]bool{"stake": true}, MaxPaths: 150, SignInSeam: true}),
		mc.ExplorePart("search-near-counter-wrap", NewNearWrap, 5, 6, true, "as search; the record counter starts at 2^32-3"),
		// a history may contain a restart of the chain from its own exported genesis: what was created must still be
		// there afterwards (a module refusing its own export leaves a chain that cannot come back at all)
		mc.ExplorePart("search-ids-with-leading-zero-byte", newMined, 4, 5, true, "as search, plus creations whose transaction is picked so that the returned id begins with a zero byte, and a record of 16 KiB"),
		mc.ExplorePart("search-restarting", restarting, 5, 6, true, "as search, plus restart-from-genesis as an operation"),
		surface,
	}
}
