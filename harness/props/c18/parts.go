package c18

import (
	"time"

	"verif/harness/mc"
)

const rule = "state with >= 2 requests submitted on the path and >= 1 number stored; distinct by canonical hash of the random (+ service) stores, header, tx counter and request/number model"

func maxRequests() int {
	if mc.Tier() == "thorough" {
		return 5
	}
	return 4
}

func queueVariant() Variant {
	v := Variant{Name: "queue", stats: &Stats{}, MaxRequests: maxRequests(), MaxSamePerBlock: 2}
	for _, who := range []string{"A", "B"} {
		for _, n := range []int64{1, 2, 3} {
			v.Requests = append(v.Requests, tmpl{who: who, n: n})
		}
	}
	// interval 0 is a valid message: due at the height it was made in, served by the next begin-block
	v.Requests = append(v.Requests, tmpl{who: "A", n: 0})
	return v
}

// boundaryVariant starts the chain at height 253: due heights 254..259 straddle the byte boundary of the
// big-endian height in the queue keys (…00FF -> …0100).
func boundaryVariant() Variant {
	v := Variant{Name: "queue-at-height-253", stats: &Stats{}, MaxRequests: 3, MaxSamePerBlock: 1, InitialHeight: 253}
	for _, who := range []string{"A", "B"} {
		for _, n := range []int64{1, 2, 3} {
			v.Requests = append(v.Requests, tmpl{who: who, n: n})
		}
	}
	return v
}

func oracleVariant() Variant {
	return Variant{Name: "oracle", Service: true, stats: &Stats{}, MaxRequests: maxRequests(), MaxSamePerBlock: 2, Requests: []tmpl{
		{who: "A", n: 1, oracle: true}, {who: "B", n: 1, oracle: true}, {who: "A", n: 2, oracle: true}, {who: "A", n: 1},
	}}
}

// QueueVariant / OracleVariant expose the two explorations for reuse by the cross-cutting checks (C13).
func QueueVariant() Variant  { return queueVariant() }
func OracleVariant() Variant { return oracleVariant() }

// BoundaryVariant: the plain queue on a chain that starts at height 253.
func BoundaryVariant() Variant { return boundaryVariant() }

// OracleChoiceVariant: three providers are bound to the seed service, so every oracle request makes the
// module choose one (used by the determinism check C11).
func OracleChoiceVariant() Variant {
	v := oracleVariant()
	v.Name = "oracle-choice"
	v.ExtraProviders = 2
	return v
}

// withStats adds the coverage counters of the variant to the part's evidence bounds.
func withStats(p mc.Part, v Variant, alphabet string) mc.Part {
	run := p.Run
	p.Run = func(tier string, known []mc.KnownFinding, dl time.Time) mc.PartReport {
		rep := run(tier, known, dl)
		if rep.Bounds == nil {
			rep.Bounds = map[string]interface{}{}
		}
		st := v.stats
		rep.Bounds["alphabet"] = alphabet
		rep.Bounds["max_requests_per_path"] = v.MaxRequests
		rep.Bounds["max_repeats_of_one_request_per_block"] = v.MaxSamePerBlock
		rep.Bounds["transitions_by_coverage_class"] = map[string]int64{
			"begin_block_fulfils_requests_of_two_requesters":                st.SameHeightDistinctRequesters.Load(),
			"begin_block_fulfils_two_requests_of_one_requester_diff_blocks": st.SameHeightOneRequester.Load(),
			"plain_requests_fulfilled":                                      st.Fulfilled.Load(),
			"oracle_valid_seed_responses":                                   st.OracleFulfilled.Load(),
			"oracle_bad_seed_responses":                                     st.OracleBadSeed.Load(),
			"oracle_error_result_responses":                                 st.OracleErrorResult.Load(),
			"oracle_seed_requests_timed_out":                                st.OracleTimedOut.Load(),
			"requests_superseding_same_id_same_due":                         st.Superseded.Load(),
			"begin_block_starts_seed_requests_of_two_requesters":            st.SeedStartsDistinctRequesters.Load(),
			"begin_block_starts_two_seed_requests_of_one_requester":         st.SeedStartsOneRequester.Load(),
			"info_oracle_record_left_in_store_after_malformed_seed":         st.OracleRecordLeftAfterBadSeed.Load(),
			"requests_sharing_an_id_with_another_due_height":                st.SharedIDs.Load(),
		}
		return rep
	}
	return p
}

// Parts of the C18 check.
func Parts() []mc.Part {
	q, o, b := queueVariant(), oracleVariant(), boundaryVariant()
	return []mc.Part{
		KernelPart(),
		withStats(mc.ExplorePart("queue-at-height-253", New(b), 7, 8, true, rule), b,
			"as queue, chain starting at height 253 (due heights cross 255 -> 256)"),
		withStats(mc.ExplorePart("queue", New(q), 8, 9, true, rule), q,
			"request(consumer in {A,B}, interval in {1,2,3} and (A,0), plain), block (5..7 s); blockers: random"),
		withStats(mc.ExplorePart("queue-restarting", mc.WithBoundaryRestart(New(q), 0, "random"), 6, 7, true, rule), q,
			"as queue, plus restart-from-genesis (export -> validation -> stores emptied -> InitGenesis) as an operation, inside a block and between two blocks (InitGenesis under the next block's height)"),
		withStats(mc.ExplorePart("oracle", New(o), 8, 10, true, rule), o,
			"request(A,1,oracle), request(B,1,oracle), request(A,2,oracle), request(A,1,plain), respond(active seed request, {valid seed, malformed seed, error result}), block (no response within 2 blocks = timeout); blockers: service, random"),
	}
}
