// Package c18: random module — each request is fulfilled once, on time, reproducibly, within [0,1).
//
// The driver submits MsgRequestRandom / MsgRespondService through the application's message router,
// steps blocks through the real begin/end blockers and observes only through the random module's gRPC
// queries (Random by request id, RandomRequestQueue by height). The reference model is a list of the
// requests submitted on the path plus, for every request id, the number that has to be readable.
package c18

import (
	"bytes"
	"crypto/sha256"
	"encoding/hex"
	"encoding/json"
	"fmt"
	"sort"
	"strings"
	"sync/atomic"
	"time"

	"github.com/cosmos/cosmos-sdk/codec"
	sdk "github.com/cosmos/cosmos-sdk/types"

	randomtypes "mods.irisnet.org/modules/random/types"
	servicetypes "mods.irisnet.org/modules/service/types"

	"verif/harness/mc"
)

// request life cycle in the reference model
const (
	stPending    = iota // in the pending queue, due at Due
	stAwaiting          // oracle request whose service call has been started; fulfilled by a valid seed response only
	stFulfilled         // number stored
	stDead              // oracle request whose service call failed / timed out: no number will ever be stored
	stOverdue           // missed its block (already reported); a late number is adopted silently
	stSuperseded        // replaced in the queue by a later request with the same (due height, id)
)

type req struct {
	ID       string // request id, lower-case hex (from the request_random event)
	Consumer string // account label
	Height   int64  // height of the requesting transaction
	N        int64  // block interval
	Due      int64  // Height + N
	Oracle   bool
	TxHash   string // sha256 of the harness' tx bytes, lower-case hex (as stored in the queue entry)
	CtxID    string // service context id (oracle requests), upper-case hex
	St       int
}

type model struct {
	reqs []req
	// vals: request id -> stored number (as observed when it was produced)
	vals map[string]string
	// ids in first-seen order (deterministic iteration)
	order []string
}

func (m *model) Clone() mc.Model {
	c := &model{reqs: append([]req{}, m.reqs...), vals: make(map[string]string, len(m.vals)), order: append([]string{}, m.order...)}
	for k, v := range m.vals {
		c.vals[k] = v
	}
	return c
}

func (m *model) Canon() []byte {
	var b bytes.Buffer
	for _, r := range m.reqs {
		fmt.Fprintf(&b, "%s|%s|%d|%d|%v|%s|%s|%d;", r.ID, r.Consumer, r.Height, r.N, r.Oracle, r.TxHash, r.CtxID, r.St)
	}
	ids := make([]string, 0, len(m.vals))
	for k := range m.vals {
		ids = append(ids, k)
	}
	sort.Strings(ids)
	for _, k := range ids {
		fmt.Fprintf(&b, "%s=%s;", k, m.vals[k])
	}
	return b.Bytes()
}

func (m *model) sawID(id string) {
	for _, o := range m.order {
		if o == id {
			return
		}
	}
	m.order = append(m.order, id)
}

// tmpl is one request of the alphabet.
type tmpl struct {
	who    string
	n      int64
	oracle bool
}

func (t tmpl) name() string {
	k := "plain"
	if t.oracle {
		k = "oracle"
	}
	return fmt.Sprintf("request(%s,%d,%s)", t.who, t.n, k)
}

// Variant selects fixture and alphabet.
type Variant struct {
	Name     string
	Service  bool // fixture defines + binds the "random" service; service blockers are stepped
	Requests []tmpl
	// MaxRequests bounds the requests submitted on one path (0 = unbounded); MaxSamePerBlock bounds how often
	// one element of the request alphabet is repeated within one block.
	MaxRequests     int
	MaxSamePerBlock int
	// ExtraProviders binds that many further providers (P2, P3, ...) to the seed service, so that the module
	// has to choose whom to ask
	ExtraProviders int
	// InitialHeight of the chain (0 = 1)
	InitialHeight int64
	stats         *Stats
}

// providers lists the bound provider account names of the variant.
func (v Variant) providers() []string {
	ps := []string{provider}
	for i := 0; i < v.ExtraProviders; i++ {
		ps = append(ps, fmt.Sprintf("%s%d", provider, i+2))
	}
	return ps
}

// Stats are coverage counters of one exploration (reported in the evidence bounds).
type Stats struct {
	SameHeightDistinctRequesters atomic.Int64 // begin-blocks fulfilling requests of >= 2 requesters
	SameHeightOneRequester       atomic.Int64 // begin-blocks fulfilling >= 2 requests of one requester made in different blocks
	Fulfilled                    atomic.Int64
	OracleFulfilled              atomic.Int64
	OracleBadSeed                atomic.Int64
	OracleErrorResult            atomic.Int64
	OracleTimedOut               atomic.Int64
	Superseded                   atomic.Int64
	SeedStartsDistinctRequesters atomic.Int64 // begin-blocks starting seed requests of >= 2 requesters
	SeedStartsOneRequester       atomic.Int64 // begin-blocks starting >= 2 seed requests of one requester made in different blocks
	OracleRecordLeftAfterBadSeed atomic.Int64 // informational: oracle-request record (store prefix 0x03) still present after a malformed seed
	SharedIDs                    atomic.Int64
}

const (
	provider   = "P"
	timeout    = 2 // service MaxRequestTimeout of the fixture (blocks)
	feeCapAmt  = 2
	priceStake = 1
)

type respKind int

const (
	respSeed respKind = iota
	respBadSeed
	respError
)

var respNames = []string{"seed", "bad-seed", "error-result"}

type opData struct {
	kind  string // "request" | "respond" | "block"
	t     tmpl
	idx   int    // model request index (respond)
	svcID string // service request id (respond)
	rk    respKind
}

// seedFor is the oracle seed the provider returns for a consumer's requests (distinct per consumer).
func seedFor(who string) []byte {
	s := sha256.Sum256([]byte("verif/c18/seed/" + who))
	if who == "A" {
		s[0] = 0 // a valid seed whose hex rendering starts with zeros
	}
	return s[:]
}

// Driver implements mc.Driver.
type Driver struct{ V Variant }

// New builds the (Env, Driver) factory of a variant.
func New(v Variant) func() (*mc.Env, mc.Driver) {
	return func() (*mc.Env, mc.Driver) {
		coins := sdk.NewCoins(mc.C("stake", 1_000_000_000))
		opts := mc.EnvOptions{
			Balances:      map[string]sdk.Coins{"A": coins, "B": coins},
			BlockModules:  []string{"random"},
			InitialHeight: v.InitialHeight,
		}
		for _, p := range v.providers() {
			opts.Balances[p] = coins
		}
		if v.Service {
			opts.BlockModules = []string{"service", "random"}
			opts.GenesisMutators = map[string]func(cdc codec.Codec, raw json.RawMessage) json.RawMessage{
				servicetypes.ModuleName: func(cdc codec.Codec, raw json.RawMessage) json.RawMessage {
					var gs servicetypes.GenesisState
					cdc.MustUnmarshalJSON(raw, &gs)
					gs.Params.MaxRequestTimeout = timeout // seed requests time out after 2 blocks
					return cdc.MustMarshalJSON(&gs)
				},
			}
		}
		return mc.NewEnv(opts), &Driver{V: v}
	}
}

func (d *Driver) ID() string { return "C18/" + d.V.Name }
func (d *Driver) Stores() []string {
	if d.V.Service {
		return []string{"random", "service"}
	}
	return []string{"random"}
}

func (d *Driver) Init(e *mc.Env) *mc.State {
	s := &mc.State{Ctx: mc.Branch(e.Root), Model: &model{vals: map[string]string{}}}
	if d.V.Service {
		p := mc.Addr(provider).String()
		out := s.Deliver(e, "fx-define", &servicetypes.MsgDefineService{
			Name: servicetypes.RandomServiceName, Description: "seed source", Tags: []string{"oracle"}, Author: p,
			AuthorDescription: "provider", Schemas: servicetypes.RandomServiceSchemas,
		})
		if !out.OK {
			panic("fixture define: " + out.String())
		}
		for _, pn := range d.V.providers() {
			pa := mc.Addr(pn).String()
			out = s.Deliver(e, "fx-bind-"+pn, &servicetypes.MsgBindService{
				ServiceName: servicetypes.RandomServiceName, Provider: pa, Deposit: sdk.NewCoins(mc.C("stake", 1_000_000)),
				Pricing: fmt.Sprintf(`{"price":"%dstake"}`, priceStake), QoS: 1, Options: "{}", Owner: pa,
			})
			if !out.OK {
				panic("fixture bind: " + out.String())
			}
		}
	}
	return s
}

// activeSeedRequests maps upper-case service context id -> active service request id for the provider.
func (d *Driver) activeSeedRequests(e *mc.Env, s *mc.State) map[string]string {
	out := map[string]string{}
	if !d.V.Service {
		return out
	}
	for _, pn := range d.V.providers() {
		res, err := e.Service.Requests(s.Ctx, &servicetypes.QueryRequestsRequest{ServiceName: servicetypes.RandomServiceName, Provider: mc.Addr(pn).String()})
		if err != nil {
			panic("service Requests query: " + err.Error())
		}
		for _, r := range res.Requests {
			out[strings.ToUpper(r.RequestContextId)] = r.Id
		}
	}
	return out
}

// providerOf names the provider a seed request was addressed to.
func (d *Driver) providerOf(e *mc.Env, s *mc.State, svcID string) string {
	for _, pn := range d.V.providers() {
		res, err := e.Service.Requests(s.Ctx, &servicetypes.QueryRequestsRequest{ServiceName: servicetypes.RandomServiceName, Provider: mc.Addr(pn).String()})
		if err != nil {
			continue
		}
		for _, r := range res.Requests {
			if r.Id == svcID {
				return pn
			}
		}
	}
	return provider
}

func (d *Driver) Enabled(e *mc.Env, s *mc.State) []mc.Op {
	m := s.Model.(*model)
	var ops []mc.Op
	if d.V.MaxRequests == 0 || len(m.reqs) < d.V.MaxRequests {
		for _, t := range d.V.Requests {
			same := 0
			for _, r := range m.reqs {
				if r.Height == s.Ctx.BlockHeight() && r.Consumer == t.who && r.N == t.n && r.Oracle == t.oracle {
					same++
				}
			}
			if d.V.MaxSamePerBlock > 0 && same >= d.V.MaxSamePerBlock {
				continue
			}
			ops = append(ops, mc.Op{Name: t.name(), Data: opData{kind: "request", t: t}})
		}
	}
	if d.V.Service {
		active := d.activeSeedRequests(e, s)
		for i, r := range m.reqs {
			if r.St != stAwaiting || r.CtxID == "" {
				continue
			}
			id, ok := active[strings.ToUpper(r.CtxID)]
			if !ok {
				continue
			}
			for k := respSeed; k <= respError; k++ {
				ops = append(ops, mc.Op{Name: fmt.Sprintf("respond(r%d,%s)", i, respNames[k]), Data: opData{kind: "respond", idx: i, svcID: id, rk: k}})
			}
		}
	}
	ops = append(ops, mc.Op{Name: "block", Data: opData{kind: "block"}})
	return ops
}

// stored reads the number of a request id through the Random gRPC query.
func stored(e *mc.Env, s *mc.State, id string) (string, bool) {
	res, err := e.Random.Random(s.Ctx, &randomtypes.QueryRandomRequest{ReqId: id})
	if err != nil || res == nil || res.Random == nil {
		return "", false
	}
	return res.Random.Value, true
}

type want struct {
	value  string // what the kernel gives for the inputs of this step
	noSeed string // oracle: what the kernel gives when the seed is left out (classification only)
	idx    int    // model request being fulfilled
}

func kindOf(r req) string {
	if r.Oracle {
		return "oracle"
	}
	return "plain"
}

// reconcile compares, for every request id seen on the path, the stored number with what the model
// requires after this step (wants: ids that have to be fulfilled by exactly this step), reports each
// discrepancy once and then adopts the observed state.
func (d *Driver) reconcile(e *mc.Env, s *mc.State, step string, wants map[string]want) []mc.Finding {
	m := s.Model.(*model)
	var fs []mc.Finding
	for _, id := range m.order {
		prev, hadPrev := m.vals[id]
		obs, found := stored(e, s, id)
		if w, ok := wants[id]; ok {
			r := &m.reqs[w.idx]
			if !found || (hadPrev && obs == prev && obs != w.value) {
				if r.Oracle {
					fs = append(fs, mc.F("C18/not-fulfilled-on-valid-seed-response", "%s: request %s (%s, made at height %d, interval %d) has no number after a valid seed response", step, id, r.Consumer, r.Height, r.N))
				} else {
					fs = append(fs, mc.F("C18/not-fulfilled-in-block-after-due-height", "%s: request %s (%s, made at height %d, interval %d, due %d) has no number after the begin-block of height %d", step, id, r.Consumer, r.Height, r.N, r.Due, s.Ctx.BlockHeight()))
				}
				r.St = stOverdue
				continue
			}
			if hadPrev && obs != prev {
				// an earlier request with the same id (same requester, same block, other due height) had already
				// been fulfilled: its number can no longer be read back
				// (the id scheme hashes height and requester: two requests of one requester made in ONE block share
				// their id - the recorded finding; requests made in different blocks must not)
				sig := "C18/number-overwritten/id-shared-by-requests-of-one-requester-in-one-block"
				otherHeight := r.Height
				for j := range m.reqs {
					if j != w.idx && m.reqs[j].ID == id && m.reqs[j].Height != r.Height {
						sig = "C18/number-overwritten/id-shared-by-requests-made-in-different-blocks"
						otherHeight = m.reqs[j].Height
					}
				}
				fs = append(fs, mc.F(sig,
					"%s: id %s held %s (fulfilled earlier for another request of %s, made at height %d); fulfilling the request made at height %d with interval %d replaced it by %s", step, id, prev, r.Consumer, otherHeight, r.Height, r.N, obs))
			}
			if obs != w.value {
				if w.noSeed != "" && obs == w.noSeed {
					fs = append(fs, mc.F("C18/oracle-number-ignores-seed", "%s: id %s stored %s = kernel without the oracle seed; with the seed the kernel gives %s", step, id, obs, w.value))
				} else {
					fs = append(fs, mc.F("C18/number-differs-from-inputs/"+kindOf(*r), "%s: id %s stored %s, kernel(app hash %X, time %d, requester %s) = %s", step, id, obs,
						s.Ctx.BlockHeader().AppHash, s.Ctx.BlockTime().Unix(), r.Consumer, w.value))
				}
			}
			m.vals[id] = obs
			r.St = stFulfilled
			continue
		}
		switch {
		case !hadPrev && !found:
		case hadPrev && !found:
			fs = append(fs, mc.F("C18/stored-number-vanished", "%s: id %s held %s, now not found", step, id, prev))
			delete(m.vals, id)
		case hadPrev && obs != prev:
			fs = append(fs, mc.F("C18/stored-number-changed", "%s: id %s held %s, now %s", step, id, prev, obs))
			m.vals[id] = obs
		case !hadPrev && found:
			// a number nobody was entitled to yet: classify by the state of the requests with this id
			cls, hit := "C18/number-appeared-off-schedule", -1
			for _, st := range []int{stOverdue, stPending, stAwaiting, stDead} {
				for i := range m.reqs {
					// among several candidates (shared id) the one due first
					if m.reqs[i].ID == id && m.reqs[i].St == st && (hit < 0 || m.reqs[i].Due < m.reqs[hit].Due) {
						hit = i
					}
				}
				if hit >= 0 {
					break
				}
			}
			if hit >= 0 {
				r := &m.reqs[hit]
				switch r.St {
				case stOverdue:
					cls = "" // late; the miss was reported when it happened
				case stPending:
					cls = "C18/fulfilled-before-block-after-due-height/" + kindOf(*r)
				case stAwaiting:
					cls = "C18/oracle-number-without-valid-seed-response"
				case stDead:
					cls = "C18/oracle-number-after-failed-service-call"
				}
				if cls != "" {
					fs = append(fs, mc.F(cls, "%s at height %d: id %s (%s, made at height %d, interval %d, due %d) now holds %s", step, s.Ctx.BlockHeight(), id, r.Consumer, r.Height, r.N, r.Due, obs))
				}
				r.St = stFulfilled
			} else {
				fs = append(fs, mc.F(cls, "%s: id %s now holds %s", step, id, obs))
			}
			m.vals[id] = obs
		}
	}
	return fs
}

func (d *Driver) Apply(e *mc.Env, s *mc.State, op mc.Op) []mc.Finding {
	od := op.Data.(opData)
	m := s.Model.(*model)
	st := d.V.stats
	switch od.kind {
	case "block":
		h0 := s.Ctx.BlockHeight()
		bo := s.NextBlock(e, time.Duration(5+h0%3)*time.Second)
		fs := mc.BlockPanicFindings("C18", bo)
		hd := s.Ctx.BlockHeader()
		wants := map[string]want{}
		byWho := map[string]map[int64]bool{}
		seedWho := map[string]map[int64]bool{}
		for i := range m.reqs {
			r := &m.reqs[i]
			if r.St != stPending || r.Due != hd.Height-1 {
				continue
			}
			if r.Oracle {
				r.St = stAwaiting // the begin-block starts the seed request; the number comes with the response
				if seedWho[r.Consumer] == nil {
					seedWho[r.Consumer] = map[int64]bool{}
				}
				seedWho[r.Consumer][r.Height] = true
				continue
			}
			wants[r.ID] = want{value: kernelValue(hd.AppHash, hd.Time.Unix(), mc.Addr(r.Consumer), nil, false), idx: i}
			if byWho[r.Consumer] == nil {
				byWho[r.Consumer] = map[int64]bool{}
			}
			byWho[r.Consumer][r.Height] = true
		}
		fs = append(fs, d.reconcile(e, s, "block", wants)...)
		// service calls that ended without a seed (timeout): the context is gone and nothing is active
		if d.V.Service {
			active := d.activeSeedRequests(e, s)
			for i := range m.reqs {
				r := &m.reqs[i]
				if r.St != stAwaiting || r.CtxID == "" {
					continue
				}
				if _, ok := active[strings.ToUpper(r.CtxID)]; ok {
					continue
				}
				res, err := e.Service.RequestContext(s.Ctx, &servicetypes.QueryRequestContextRequest{RequestContextId: r.CtxID})
				if err == nil && res.RequestContext != nil && res.RequestContext.ServiceName == "" {
					r.St = stDead
					if st != nil {
						st.OracleTimedOut.Add(1)
					}
				}
			}
		}
		if st != nil {
			st.Fulfilled.Add(int64(len(wants)))
			if len(byWho) >= 2 {
				st.SameHeightDistinctRequesters.Add(1)
			}
			for _, hs := range byWho {
				if len(hs) >= 2 {
					st.SameHeightOneRequester.Add(1)
				}
			}
			if len(seedWho) >= 2 {
				st.SeedStartsDistinctRequesters.Add(1)
			}
			for _, hs := range seedWho {
				if len(hs) >= 2 {
					st.SeedStartsOneRequester.Add(1)
				}
			}
		}
		return fs

	case "request":
		t := od.t
		var cap sdk.Coins
		if t.oracle {
			cap = sdk.NewCoins(mc.C("stake", feeCapAmt))
		}
		label := fmt.Sprintf("%s#%d", op.Name, s.TxSeq)
		out := s.Deliver(e, op.Name, randomtypes.NewMsgRequestRandom(mc.Addr(t.who).String(), uint64(t.n), t.oracle, cap))
		if !out.OK {
			return d.reconcile(e, s, op.Name, nil) // the property does not promise acceptance
		}
		txh := sha256.Sum256(mc.TxBytesFor(label))
		r := req{Consumer: t.who, Height: s.Ctx.BlockHeight(), N: t.n, Due: s.Ctx.BlockHeight() + t.n, Oracle: t.oracle, TxHash: hex.EncodeToString(txh[:])}
		for _, ev := range out.Events {
			if ev.Type != randomtypes.EventTypeRequestRandom {
				continue
			}
			for _, a := range ev.Attributes {
				if a.Key == randomtypes.AttributeKeyRequestID {
					r.ID = strings.ToLower(a.Value)
				}
			}
		}
		var fs []mc.Finding
		if r.ID == "" {
			// the id is the only handle a client has on its request
			return append(fs, mc.F("C18/no-request-id-announced", "%s succeeded without a %s event carrying %s", op.Name, randomtypes.EventTypeRequestRandom, randomtypes.AttributeKeyRequestID))
		}
		if t.oracle {
			if q, err := e.Random.RandomRequestQueue(s.Ctx, &randomtypes.QueryRandomRequestQueueRequest{Height: r.Due}); err == nil {
				for _, qr := range q.Requests {
					if qr.TxHash == r.TxHash {
						r.CtxID = strings.ToUpper(qr.ServiceContextID)
					}
				}
			}
		}
		for i := range m.reqs {
			o := &m.reqs[i]
			if o.ID != r.ID {
				continue
			}
			if o.St == stPending && o.Due == r.Due {
				// same requester, same block, same interval: the id scheme identifies the two; the later one
				// takes the queue slot
				o.St = stSuperseded
				if st != nil {
					st.Superseded.Add(1)
				}
			} else if st != nil && o.St != stSuperseded && o.Due != r.Due {
				st.SharedIDs.Add(1)
			}
		}
		m.reqs = append(m.reqs, r)
		m.sawID(r.ID)
		return append(fs, d.reconcile(e, s, op.Name, nil)...)

	case "respond":
		r := &m.reqs[od.idx]
		who := r.Consumer
		msg := &servicetypes.MsgRespondService{RequestId: od.svcID, Provider: mc.Addr(d.providerOf(e, s, od.svcID)).String()}
		switch od.rk {
		case respSeed:
			msg.Result = `{"code":200,"message":""}`
			msg.Output = fmt.Sprintf(`{"header":{},"body":{"seed":"%s"}}`, hex.EncodeToString(seedFor(who)))
		case respBadSeed:
			msg.Result = `{"code":200,"message":""}`
			msg.Output = `{"header":{},"body":{"seed":"not-a-seed"}}`
		case respError:
			msg.Result = `{"code":500,"message":"no entropy"}`
		}
		out := s.Deliver(e, op.Name, msg)
		if !out.OK {
			return d.reconcile(e, s, op.Name, nil)
		}
		wants := map[string]want{}
		hd := s.Ctx.BlockHeader()
		switch od.rk {
		case respSeed:
			wants[r.ID] = want{
				value:  kernelValue(hd.AppHash, hd.Time.Unix(), mc.Addr(who), seedFor(who), true),
				noSeed: kernelValue(hd.AppHash, hd.Time.Unix(), mc.Addr(who), nil, false),
				idx:    od.idx,
			}
			if st != nil {
				st.OracleFulfilled.Add(1)
			}
		case respBadSeed:
			r.St = stDead
			if st != nil {
				st.OracleBadSeed.Add(1)
				if raw, err := hex.DecodeString(r.CtxID); err == nil {
					key := append([]byte{0x03}, raw...)
					for _, kv := range mc.DumpStore(s.Ctx, e, "random") {
						if bytes.Equal(kv.K, key) {
							st.OracleRecordLeftAfterBadSeed.Add(1)
						}
					}
				}
			}
		case respError:
			r.St = stDead
			if st != nil {
				st.OracleErrorResult.Add(1)
			}
		}
		return d.reconcile(e, s, op.Name, wants)
	}
	panic("unknown op " + op.Name)
}

func qkey(consumer string, height int64, oracle bool, txHash string) string {
	return fmt.Sprintf("%s|%d|%v|%s", consumer, height, oracle, strings.ToLower(txHash))
}

// Restarted (mc.RestartAware): the chain was restarted from its own exported genesis. The module's genesis
// carries the pending requests only — numbers generated before are not exported, by design —, so the reference
// forgets the stored numbers; every waiting request must still get its number in the block after its due height.
func (d *Driver) Restarted(e *mc.Env, s *mc.State) {
	m := s.Model.(*model)
	m.vals = map[string]string{}
}

func (d *Driver) Check(e *mc.Env, s *mc.State) []mc.Finding {
	m := s.Model.(*model)
	var fs []mc.Finding

	// every number ever produced reads back unchanged, in the promised format
	nvals := 0
	for _, id := range m.order {
		prev, had := m.vals[id]
		obs, found := stored(e, s, id)
		switch {
		case had && !found:
			fs = append(fs, mc.F("C18/stored-number-vanished", "id %s held %s, now not found", id, prev))
		case had && obs != prev:
			fs = append(fs, mc.F("C18/stored-number-changed", "id %s held %s, now %s", id, prev, obs))
		}
		if found {
			nvals++
			if !valueRe.MatchString(obs) {
				fs = append(fs, mc.F("C18/stored-number-format", "id %s holds %q, not a decimal in [0,1) with 20 fractional digits", id, obs))
			}
		}
	}

	// pending queue = exactly the requests that are still waiting for their block
	byKey := map[string]*req{}
	for i := range m.reqs {
		r := &m.reqs[i]
		byKey[qkey(mc.Addr(r.Consumer).String(), r.Height, r.Oracle, r.TxHash)] = r
	}
	check := func(height int64, label string) {
		res, err := e.Random.RandomRequestQueue(s.Ctx, &randomtypes.QueryRandomRequestQueueRequest{Height: height})
		if err != nil {
			fs = append(fs, mc.F("C18/queue-query-failed", "RandomRequestQueue(%d): %v", height, err))
			return
		}
		seen := map[string]bool{}
		for _, q := range res.Requests {
			k := qkey(q.Consumer, q.Height, q.Oracle, q.TxHash)
			seen[k] = true
			r, ok := byKey[k]
			switch {
			case !ok:
				fs = append(fs, mc.F("C18/unknown-entry-in-pending-queue", "%s returns a request never submitted on this path: %v", label, q))
			case r.St == stSuperseded:
				fs = append(fs, mc.F("C18/superseded-request-still-queued", "%s still returns the request of %s at height %d replaced by a later one with the same id and due height", label, r.Consumer, r.Height))
			case r.St != stPending:
				fs = append(fs, mc.F("C18/still-in-pending-queue-after-processing/"+kindOf(*r), "%s at height %d still returns the request of %s made at height %d with interval %d (due %d, model state %d)", label, s.Ctx.BlockHeight(), r.Consumer, r.Height, r.N, r.Due, r.St))
			case height != 0 && r.Due != height:
				fs = append(fs, mc.F("C18/queued-under-wrong-height", "%s returns the request of %s made at height %d with interval %d (due %d)", label, r.Consumer, r.Height, r.N, r.Due))
			}
		}
		for i := range m.reqs {
			r := &m.reqs[i]
			if r.St != stPending || (height != 0 && r.Due != height) {
				continue
			}
			if !seen[qkey(mc.Addr(r.Consumer).String(), r.Height, r.Oracle, r.TxHash)] {
				fs = append(fs, mc.F("C18/pending-request-missing-from-queue/"+kindOf(*r), "%s at height %d lacks the request of %s made at height %d with interval %d (due %d)", label, s.Ctx.BlockHeight(), r.Consumer, r.Height, r.N, r.Due))
			}
		}
	}
	// the all-heights query covers every height (a processed request must be absent from it); by-height queries
	// are made for the due heights of the waiting requests (right slot) and for the height drained last
	check(0, "RandomRequestQueue(all heights)")
	hs := map[int64]bool{s.Ctx.BlockHeight() - 1: true}
	for _, r := range m.reqs {
		if r.St == stPending {
			hs[r.Due] = true
		}
	}
	var heights []int64
	for q := range hs {
		if q >= 1 {
			heights = append(heights, q)
		}
	}
	sort.Slice(heights, func(i, j int) bool { return heights[i] < heights[j] })
	for _, q := range heights {
		check(q, fmt.Sprintf("RandomRequestQueue(height %d)", q))
	}

	live := 0
	for _, r := range m.reqs {
		if r.St != stSuperseded {
			live++
		}
	}
	s.Nontrivial = live >= 2 && nvals >= 1
	return dedupe(fs)
}

func dedupe(fs []mc.Finding) []mc.Finding {
	seen := map[string]bool{}
	var out []mc.Finding
	for _, f := range fs {
		if !seen[f.Sig] {
			seen[f.Sig] = true
			out = append(out, f)
		}
	}
	return out
}
