package c18

import (
	"bytes"
	"crypto/sha256"
	"fmt"
	"math/big"
	"regexp"
	"time"

	sdk "github.com/cosmos/cosmos-sdk/types"

	randomtypes "mods.irisnet.org/modules/random/types"

	"verif/harness/mc"
)

// digits is the number of fractional digits the property promises.
const digits = 20

var valueRe = regexp.MustCompile(`^0\.[0-9]{20}$`)

// kernelValue is the module's number for the given inputs, rendered the way the module stores it
// (begin-block and the seed callback both store GetRand().FloatString(RandPrec)).
func kernelValue(hash []byte, ts int64, who sdk.AccAddress, seed []byte, oracle bool) string {
	return randomtypes.MakePRNG(hash, ts, who, seed, oracle).GetRand().FloatString(digits)
}

func h(tag string, i int) []byte {
	s := sha256.Sum256([]byte(fmt.Sprintf("verif/c18/%s/%d", tag, i)))
	return s[:]
}

// KernelPart enumerates MakePRNG(...).GetRand() over block hashes x timestamps x requesters x seeds.
func KernelPart() mc.Part {
	return mc.Part{Name: "prng-kernel", Run: func(tier string, known []mc.KnownFinding, dl time.Time) mc.PartReport {
		start := time.Now()
		nHash := 400
		if tier == "thorough" {
			nHash = 4000
		}
		// block hashes: degenerate ones first, then distinct 32-byte values
		hashes := [][]byte{nil, {}, {0}, bytes.Repeat([]byte{0}, 32), bytes.Repeat([]byte{0xff}, 32), bytes.Repeat([]byte{0xab}, 20)}
		for i := 0; len(hashes) < nHash; i++ {
			hashes = append(hashes, h("hash", i))
		}
		stamps := []int64{1, 1700000000, 1 << 62}
		// two 20-byte accounts and two 32-byte ones (module-derived accounts are that long) that share their first 20
		// bytes: the requester is an input in full
		long1 := sdk.AccAddress(h("long-address", 0))
		long2 := append(append(sdk.AccAddress{}, long1[:20]...), h("long-address", 1)[:12]...)
		whos := []sdk.AccAddress{mc.Addr("A"), mc.Addr("B"), long1, long2}
		type seedOpt struct {
			seed   []byte
			oracle bool
		}
		seeds := []seedOpt{{nil, false}, {bytes.Repeat([]byte{0x11}, 32), true}, {h("seed", 0), true}}

		rep := mc.PartReport{Exhaustive: true, Bounds: map[string]interface{}{
			"block_hashes": len(hashes), "timestamps": "1, 1700000000, 2^62", "requesters": "A, B, two 32-byte addresses sharing their first 20 bytes",
			"oracle_seeds": "none, 32 x 0x11, sha256 value",
		}}
		seen := map[string]bool{}
		add := func(sig, format string, a ...interface{}) {
			if !seen[sig] {
				seen[sig] = true
				rep.Violations = append(rep.Violations, mc.Violation{Finding: mc.F(sig, format, a...)})
			}
		}
		if randomtypes.RandPrec != digits {
			add("C18/kernel/precision-constant", "RandPrec = %d, the property promises %d fractional digits", randomtypes.RandPrec, digits)
		}
		one := big.NewRat(1, 1)
		scale := new(big.Rat).SetInt(new(big.Int).Exp(big.NewInt(10), big.NewInt(digits), nil))
		distinct := map[string]struct{}{}
		var evals, nonzero int64
		// sensitivity (evidence only): how often changing exactly one input changes the output
		var sensHash, sensTime, sensWho, sensSeed, pairsHash, pairsTime, pairsWho, pairsSeed int64
		out := make(map[[4]int]string, len(hashes)*27)

		for hi, hash := range hashes {
			for ti, ts := range stamps {
				for wi, who := range whos {
					for si, so := range seeds {
						desc := fmt.Sprintf("MakePRNG(hash=%x, time=%d, requester=%x, seed=%x, oracle=%v)", hash, ts, []byte(who), so.seed, so.oracle)
						var r1, r2 *big.Rat
						func() {
							defer func() {
								if r := recover(); r != nil {
									add("C18/kernel/panic", "%s panicked: %v", desc, r)
								}
							}()
							hc, wc, sc := append([]byte(nil), hash...), append(sdk.AccAddress(nil), who...), append([]byte(nil), so.seed...)
							if hash == nil {
								hc = nil
							}
							if so.seed == nil {
								sc = nil
							}
							r1 = randomtypes.MakePRNG(hc, ts, wc, sc, so.oracle).GetRand()
							if !bytes.Equal(hc, hash) || !bytes.Equal(wc, who) || !bytes.Equal(sc, so.seed) {
								add("C18/kernel/inputs-mutated", "%s modified its input slices", desc)
							}
							// a second, independently constructed generator on equal inputs
							r2 = randomtypes.MakePRNG(append([]byte(nil), hash...), ts, append(sdk.AccAddress(nil), who...), append([]byte(nil), so.seed...), so.oracle).GetRand()
						}()
						if r1 == nil || r2 == nil {
							continue
						}
						evals++
						if r1.Cmp(r2) != 0 {
							add("C18/kernel/not-a-function-of-inputs", "%s gave %s, then %s", desc, r1.FloatString(digits), r2.FloatString(digits))
						}
						if r1.Sign() < 0 || r1.Cmp(one) >= 0 {
							add("C18/kernel/out-of-range", "%s = %s, not in [0,1)", desc, r1.String())
						}
						str := r1.FloatString(digits)
						if !valueRe.MatchString(str) {
							add("C18/kernel/rendering-not-20-fraction-digits", "%s renders as %q", desc, str)
						}
						// the number itself is a decimal with 20 fractional digits: value * 10^20 is an integer, so
						// the stored rendering loses nothing
						if !new(big.Rat).Mul(r1, scale).IsInt() {
							add("C18/kernel/not-a-20-digit-decimal", "%s = %s is not a multiple of 10^-20 (stored as %s)", desc, r1.String(), str)
						} else if back, ok := new(big.Rat).SetString(str); !ok || back.Cmp(r1) != 0 {
							add("C18/kernel/rendering-differs-from-number", "%s = %s renders as %q", desc, r1.String(), str)
						}
						if r1.Sign() != 0 {
							nonzero++
						}
						distinct[str] = struct{}{}
						out[[4]int{hi, ti, wi, si}] = str
					}
				}
			}
		}
		// the same lattice once more in another nesting order (time outermost, block hash innermost): a value that
		// is a function of its inputs cannot depend on which evaluations came before it
		var reordered int64
		for ti, ts := range stamps {
			for wi, who := range whos {
				for si, so := range seeds {
					for hi, hash := range hashes {
						want, ok := out[[4]int{hi, ti, wi, si}]
						if !ok {
							continue
						}
						var got string
						func() {
							defer func() { _ = recover() }()
							hc := append([]byte(nil), hash...)
							if hash == nil {
								hc = nil
							}
							sc := append([]byte(nil), so.seed...)
							if so.seed == nil {
								sc = nil
							}
							got = randomtypes.MakePRNG(hc, ts, append(sdk.AccAddress(nil), who...), sc, so.oracle).GetRand().FloatString(digits)
						}()
						reordered++
						if got != want {
							add("C18/kernel/depends-on-evaluation-order", "MakePRNG(hash=%x, time=%d, requester=%x, seed=%x, oracle=%v) gave %s when evaluated after the other timestamps of the same hash, %s when evaluated after another hash at the same timestamp",
								hash, ts, []byte(who), so.seed, so.oracle, want, got)
						}
					}
				}
			}
		}
		evals += reordered
		rep.Bounds["evaluation_orders"] = "hash>time>requester>seed and time>requester>seed>hash"
		// the two long requesters differ only after their 20th byte: if no lattice point tells them apart the
		// requester is not mixed in in full
		sameLong, cmpLong := 0, 0
		for k, v := range out {
			if k[2] == 2 {
				if o, ok := out[[4]int{k[0], k[1], 3, k[3]}]; ok {
					cmpLong++
					if o == v {
						sameLong++
					}
				}
			}
		}
		if cmpLong > 0 && sameLong == cmpLong {
			add("C18/kernel/requester-not-mixed-in-full", "two requesters of 32 bytes that differ only after their 20th byte (%x…, %x…) got the same number at all %d lattice points", []byte(long1[20:24]), []byte(long2[20:24]), cmpLong)
		}
		for k, v := range out {
			if k[0] > 0 {
				if o, ok := out[[4]int{k[0] - 1, k[1], k[2], k[3]}]; ok && !bytes.Equal(hashes[k[0]], hashes[k[0]-1]) {
					pairsHash++
					if o != v {
						sensHash++
					}
				}
			}
			if k[1] > 0 {
				if o, ok := out[[4]int{k[0], k[1] - 1, k[2], k[3]}]; ok {
					pairsTime++
					if o != v {
						sensTime++
					}
				}
			}
			if k[2] > 0 {
				if o, ok := out[[4]int{k[0], k[1], k[2] - 1, k[3]}]; ok {
					pairsWho++
					if o != v {
						sensWho++
					}
				}
			}
			if k[3] > 0 {
				if o, ok := out[[4]int{k[0], k[1], k[2], k[3] - 1}]; ok {
					pairsSeed++
					if o != v {
						sensSeed++
					}
				}
			}
		}
		rep.Evaluations = evals
		rep.Nontrivial = nonzero
		rep.Bounds["distinct_outputs"] = len(distinct)
		rep.Bounds["output_changes_when_only_one_input_changes"] = map[string]string{
			"block_hash": fmt.Sprintf("%d/%d", sensHash, pairsHash), "timestamp": fmt.Sprintf("%d/%d", sensTime, pairsTime),
			"requester": fmt.Sprintf("%d/%d", sensWho, pairsWho), "oracle_seed": fmt.Sprintf("%d/%d", sensSeed, pairsSeed),
		}
		rep.Samples = []interface{}{
			fmt.Sprintf("hash=sha256(verif/c18/hash/0) time=1700000000 requester=A no seed -> %s", kernelValue(h("hash", 0), 1700000000, mc.Addr("A"), nil, false)),
			fmt.Sprintf("hash=nil time=1 requester=B seed=32x0x11 -> %s", kernelValue(nil, 1, mc.Addr("B"), bytes.Repeat([]byte{0x11}, 32), true)),
		}
		rep.Rule = "every (block hash, timestamp, requester, seed option) of the lattice, each evaluated twice on independently built generators; non-trivial = output != 0"
		rep.WallS = time.Since(start).Seconds()
		return rep
	}}
}
