package farm

import (
	sdk "github.com/cosmos/cosmos-sdk/types"

	"verif/harness/mc"
)

func variants(mode string) []struct {
	v    Variant
	q, t int
} {
	return []struct {
		v    Variant
		q, t int
	}{
		{Variant{Name: "three-farmers", Farmers: []string{"A", "B", "D"}, StakeAmts: []int64{1, 2},
			RPB: sdk.NewCoins(mc.C("eth", 1)), Total: sdk.NewCoins(mc.C("eth", 7)), Mode: mode}, 6, 7},
		{Variant{Name: "creator-ops", Farmers: []string{"A", "B"}, StakeAmts: []int64{1, 3},
			RPB: sdk.NewCoins(mc.C("eth", 3)), Total: sdk.NewCoins(mc.C("eth", 20)), Creator: true, Mode: mode}, 5, 7},
		// budgets that are exhausted exactly at the end height (nothing / only one denomination left to refund)
		{Variant{Name: "exact-budget", Farmers: []string{"A", "B"}, StakeAmts: []int64{1, 2},
			RPB: sdk.NewCoins(mc.C("eth", 2)), Total: sdk.NewCoins(mc.C("eth", 4)), Mode: mode}, 6, 8},
		{Variant{Name: "exact-and-remainder", Farmers: []string{"A", "B"}, StakeAmts: []int64{1, 2},
			RPB: sdk.NewCoins(mc.C("eth", 2), mc.C("btc", 3)), Total: sdk.NewCoins(mc.C("eth", 4), mc.C("btc", 10)), Mode: mode}, 6, 8},
		// heights are the keys of the active-pool queue: a chain starting at 252 ends this pool at 255 / 256
		{Variant{Name: "creator-ops-at-height-252", Farmers: []string{"A", "B"}, StakeAmts: []int64{1},
			RPB: sdk.NewCoins(mc.C("eth", 3)), Total: sdk.NewCoins(mc.C("eth", 10)), Creator: true, Mode: mode, InitialHeight: 252}, 5, 7},
		// ten pools: "farm-10" has the id of the pool under test, "farm-1", as a proper prefix
		{Variant{Name: "tenth-pool", Farmers: []string{"A", "B"}, StakeAmts: []int64{1, 2},
			RPB: sdk.NewCoins(mc.C("eth", 2)), Total: sdk.NewCoins(mc.C("eth", 9)), Mode: mode, OtherPools: 9, OddFee: true}, 5, 7},
		{Variant{Name: "two-denoms-future-start", Farmers: []string{"A", "B"}, StakeAmts: []int64{2, 3},
			RPB: sdk.NewCoins(mc.C("eth", 2), mc.C("btc", 3)), Total: sdk.NewCoins(mc.C("eth", 11), mc.C("btc", 10)),
			StartDelta: 2, Creator: true, BigStake: true, Mode: mode, OddFee: true}, 5, 7},
	}
}

// Parts returns the explorations for mode "C05" or "C06".
func Parts(mode string) func() []mc.Part {
	return func() []mc.Part {
		var ps []mc.Part
		for _, x := range variants(mode) {
			mk := New(x.v)
			if x.v.Name == "creator-ops" || x.v.Name == "exact-and-remainder" {
				// these two also restart the chain from its own exported genesis in mid-history
				mk = mc.WithRestart(mk, "coinswap", "farm")
			}
			ps = append(ps, mc.ExplorePartC(x.v.Name, mk, x.q, x.t, false,
				"state in which at least two farmers hold stake; distinct by canonical hash of farm+bank stores, header and reference model",
				&mc.ConfOpts{Stores: []string{"farm", "coinswap"}, SkipDenoms: map[string]bool{"stake": true}, MaxPaths: 120}))
		}
		return ps
	}
}
