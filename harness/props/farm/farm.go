// Package farm drives the farm module for C05 (principal accounting / withdrawability) and
// C06 (reward conservation / pro-rata payout against an exact rational reference).
package farm

import (
	"github.com/cosmos/cosmos-sdk/codec"
	"github.com/cosmos/gogoproto/proto"

	"encoding/json"

	"bytes"
	"fmt"
	"math/big"
	"sort"
	"time"

	sdkmath "cosmossdk.io/math"
	sdk "github.com/cosmos/cosmos-sdk/types"

	coinswaptypes "mods.irisnet.org/modules/coinswap/types"
	farmtypes "mods.irisnet.org/modules/farm/types"

	"verif/harness/mc"
)

const (
	lpt     = "lpt-1"
	poolID  = "farm-1"
	creator = "K"
)

// Variant fixes the pool parameters and the alphabet of one exploration.
type protoMsg = proto.Message

type Variant struct {
	// CommunityPool: the pool under test is created by the community-pool proposal handler (creator = the
	// distribution module account, not editable); its remaining budget goes back to the community pool
	CommunityPool bool
	Name          string
	Farmers       []string
	StakeAmts     []int64
	RPB           sdk.Coins
	Total         sdk.Coins
	StartDelta    int64  // pool start = fixture height + StartDelta
	Creator       bool   // include creator ops (top-up, rate change, destroy)
	BigStake      bool   // include a 10^18+1 stake
	Mode          string // "C05" or "C06": which oracles are evaluated
	// InitialHeight of the chain (0 = 1)
	InitialHeight int64
	// OtherPools creates that many further long-lived pools (farm-2 ...) by another creator after the pool under
	// test; with 9 of them the tenth pool's id "farm-10" has the id of the pool under test as a proper prefix
	OtherPools int
	// OddFee: the chain's genesis sets the pool-creation fee to 5001 (x tax rate 0.4 = 2000.4: the community
	// share has a fraction, so the fee does not split evenly as the default 5000 does)
	OddFee bool
}

type model struct {
	funded    map[string]*big.Int
	released  map[string]*big.Int
	rate      map[string]*big.Int
	refunded  bool
	ent       map[string]map[string]*big.Rat // farmer -> denom -> exact entitlement
	paid      map[string]map[string]*big.Int
	inter     map[string]int
	stake     map[string]*big.Int
	maxStake  map[string]*big.Int
	updates   int
	creatorIn map[string]*big.Int // what the creator got back from the pool
	rps       map[string]*big.Rat // exact per-share accumulator: sum over released blocks of rate/S
}

func newModel() *model {
	return &model{funded: map[string]*big.Int{}, released: map[string]*big.Int{}, rate: map[string]*big.Int{},
		ent: map[string]map[string]*big.Rat{}, paid: map[string]map[string]*big.Int{}, inter: map[string]int{},
		stake: map[string]*big.Int{}, maxStake: map[string]*big.Int{}, creatorIn: map[string]*big.Int{}, rps: map[string]*big.Rat{}}
}

func cpInt(m map[string]*big.Int) map[string]*big.Int {
	o := map[string]*big.Int{}
	for k, v := range m {
		o[k] = new(big.Int).Set(v)
	}
	return o
}

func (m *model) Clone() mc.Model {
	c := &model{funded: cpInt(m.funded), released: cpInt(m.released), rate: cpInt(m.rate), refunded: m.refunded,
		ent: map[string]map[string]*big.Rat{}, paid: map[string]map[string]*big.Int{}, inter: map[string]int{},
		stake: cpInt(m.stake), maxStake: cpInt(m.maxStake), updates: m.updates, creatorIn: cpInt(m.creatorIn), rps: map[string]*big.Rat{}}
	for d, v := range m.rps {
		c.rps[d] = new(big.Rat).Set(v)
	}
	for f, mm := range m.ent {
		c.ent[f] = map[string]*big.Rat{}
		for d, v := range mm {
			c.ent[f][d] = new(big.Rat).Set(v)
		}
	}
	for f, mm := range m.paid {
		c.paid[f] = cpInt(mm)
	}
	for f, n := range m.inter {
		c.inter[f] = n
	}
	return c
}

func sortedKeys[V any](m map[string]V) []string {
	var ks []string
	for k := range m {
		ks = append(ks, k)
	}
	sort.Strings(ks)
	return ks
}

func (m *model) Canon() []byte {
	var b bytes.Buffer
	for _, k := range sortedKeys(m.funded) {
		fmt.Fprintf(&b, "f:%s=%s;", k, m.funded[k])
	}
	for _, k := range sortedKeys(m.released) {
		fmt.Fprintf(&b, "r:%s=%s;", k, m.released[k])
	}
	fmt.Fprintf(&b, "ref=%v;", m.refunded)
	for _, f := range sortedKeys(m.ent) {
		for _, d := range sortedKeys(m.ent[f]) {
			fmt.Fprintf(&b, "e:%s/%s=%s;", f, d, m.ent[f][d].RatString())
		}
	}
	for _, f := range sortedKeys(m.paid) {
		for _, d := range sortedKeys(m.paid[f]) {
			fmt.Fprintf(&b, "p:%s/%s=%s;", f, d, m.paid[f][d])
		}
	}
	for _, f := range sortedKeys(m.inter) {
		fmt.Fprintf(&b, "i:%s=%d;", f, m.inter[f])
	}
	for _, k := range sortedKeys(m.creatorIn) {
		fmt.Fprintf(&b, "c:%s=%s;", k, m.creatorIn[k])
	}
	for _, k := range sortedKeys(m.rps) {
		fmt.Fprintf(&b, "s:%s=%s;", k, m.rps[k].RatString())
	}
	// stake, rate, maxStake, updates are functions of the store or only widen tolerances monotonically;
	// maxStake/updates are included so that equal canon => equal tolerances.
	for _, f := range sortedKeys(m.maxStake) {
		fmt.Fprintf(&b, "m:%s=%s;", f, m.maxStake[f])
	}
	return b.Bytes()
}

func (m *model) total() *big.Int {
	t := new(big.Int)
	for _, v := range m.stake {
		t.Add(t, v)
	}
	return t
}

func (m *model) addPaid(f string, coins sdk.Coins) {
	if m.paid[f] == nil {
		m.paid[f] = map[string]*big.Int{}
	}
	for _, c := range coins {
		if m.paid[f][c.Denom] == nil {
			m.paid[f][c.Denom] = new(big.Int)
		}
		m.paid[f][c.Denom].Add(m.paid[f][c.Denom], c.Amount.BigInt())
	}
}

// releaseBlock is the exact reference: one block's reward per denomination is released iff someone
// is staked when the block begins, and split pro rata to stake.
func (m *model) releaseBlock() {
	S := m.total()
	if S.Sign() == 0 {
		return
	}
	for d, r := range m.rate {
		m.released[d].Add(m.released[d], r)
		if m.rps[d] == nil {
			m.rps[d] = new(big.Rat)
		}
		m.rps[d].Add(m.rps[d], new(big.Rat).SetFrac(r, S))
		for f, s := range m.stake {
			if s.Sign() == 0 {
				continue
			}
			if m.ent[f] == nil {
				m.ent[f] = map[string]*big.Rat{}
			}
			if m.ent[f][d] == nil {
				m.ent[f][d] = new(big.Rat)
			}
			share := new(big.Rat).SetFrac(new(big.Int).Mul(r, s), S)
			m.ent[f][d].Add(m.ent[f][d], share)
		}
	}
	m.updates++
}

type opData struct {
	kind   string
	farmer string
	amt    sdkmath.Int
	all    bool
	denom  string
	n      int64
}

// Driver implements mc.Driver.
type Driver struct{ V Variant }

// New returns a constructor for the variant.
func New(v Variant) func() (*mc.Env, mc.Driver) {
	return func() (*mc.Env, mc.Driver) {
		big130 := mc.Big(130)
		bal := map[string]sdk.Coins{
			"C":     sdk.NewCoins(mc.CI("stake", big130), mc.CI("btc", big130)),
			creator: sdk.NewCoins(mc.CI("stake", big130), mc.CI("btc", big130), mc.CI("eth", big130)),
		}
		for _, f := range v.Farmers {
			bal[f] = sdk.NewCoins(mc.C("stake", 1000))
		}
		if v.OtherPools > 0 {
			bal["K2"] = sdk.NewCoins(mc.CI("stake", big130), mc.CI("btc", big130), mc.CI("eth", big130))
		}
		opts := mc.EnvOptions{Balances: bal, InitialHeight: v.InitialHeight}
		if v.OddFee {
			opts.GenesisMutators = map[string]func(cdc codec.Codec, raw json.RawMessage) json.RawMessage{
				farmtypes.ModuleName: func(cdc codec.Codec, raw json.RawMessage) json.RawMessage {
					var g farmtypes.GenesisState
					cdc.MustUnmarshalJSON(raw, &g)
					g.Params.PoolCreationFee = sdk.NewCoin(g.Params.PoolCreationFee.Denom, sdkmath.NewInt(5001))
					return cdc.MustMarshalJSON(&g)
				},
			}
		}
		e := mc.NewEnv(opts)
		return e, &Driver{V: v}
	}
}

// creatorAddr: who the remaining budget goes back to - the creating account, or, for a pool created by a
// community-pool proposal, the distribution module account (where the community pool's coins are kept)
func (d *Driver) creatorAddr() sdk.AccAddress {
	if d.V.CommunityPool {
		return mc.ModuleAddr("distribution")
	}
	return mc.Addr(creator)
}

func (d *Driver) ID() string       { return d.V.Mode + "/" + d.V.Name }
func (d *Driver) Stores() []string { return []string{"farm", "bank"} }

func must(out mc.Outcome, what string) {
	if !out.OK {
		panic(fmt.Sprintf("fixture step %s failed: %s", what, out))
	}
}

func (d *Driver) Init(e *mc.Env) *mc.State {
	s := &mc.State{Ctx: mc.Branch(e.Root)}
	dl := s.Ctx.BlockTime().Unix() + 100000
	// the liquidity pool whose share token is staked
	amt := mc.Big(100)
	must(s.Deliver(e, "fx-addliq", &coinswaptypes.MsgAddLiquidity{
		MaxToken: mc.CI("btc", amt), ExactStandardAmt: amt, MinLiquidity: sdkmath.OneInt(), Deadline: dl, Sender: mc.Addr("C").String()}), "add-liquidity")
	for _, f := range d.V.Farmers {
		give := mc.Big(70)
		must(s.Deliver(e, "fx-fund-"+f, mc.Send(mc.Addr("C"), mc.Addr(f), mc.CI(lpt, give))), "fund "+f)
	}
	start := s.Ctx.BlockHeight() + d.V.StartDelta
	if d.V.CommunityPool {
		// the pool comes from a passed community-pool proposal: the funds wait on the escrow collector account, the
		// proposal handler creates the pool in the name of the distribution module account (not editable)
		must(s.DeliverWith(e, "fx-createpool-by-proposal", func(ctx sdk.Context, _ sdk.Msg) (protoMsg, error) {
			if err := e.App.BankKeeper.SendCoinsFromAccountToModule(ctx, mc.Addr(creator), farmtypes.EscrowCollector, d.V.Total); err != nil {
				return nil, err
			}
			return &farmtypes.MsgCreatePoolResponse{}, e.Farm.HandleCreateFarmProposal(ctx, &farmtypes.CommunityPoolCreateFarmProposal{
				Title: "t", Description: "d", PoolDescription: "p", LptDenom: lpt, RewardPerBlock: d.V.RPB, FundApplied: d.V.Total})
		}, &farmtypes.MsgCreatePool{Description: "p", LptDenom: lpt, StartHeight: start, RewardPerBlock: d.V.RPB, TotalReward: d.V.Total, Creator: mc.Addr(creator).String()}), "create-pool-by-proposal")
	} else {
		must(s.Deliver(e, "fx-createpool", &farmtypes.MsgCreatePool{
			Description: "p", LptDenom: lpt, StartHeight: start, RewardPerBlock: d.V.RPB, TotalReward: d.V.Total,
			Editable: true, Creator: mc.Addr(creator).String()}), "create-pool")
	}
	for i := 0; i < d.V.OtherPools; i++ {
		// same reward denominations at another rate, budget for 1000 blocks, nobody staked
		var rpb, tot sdk.Coins
		for _, c := range d.V.RPB {
			rpb = rpb.Add(sdk.NewCoin(c.Denom, c.Amount.AddRaw(int64(i)+2)))
			tot = tot.Add(sdk.NewCoin(c.Denom, c.Amount.AddRaw(int64(i)+2).MulRaw(1000)))
		}
		must(s.Deliver(e, fmt.Sprintf("fx-createpool-%d", i+2), &farmtypes.MsgCreatePool{
			Description: "other", LptDenom: lpt, StartHeight: s.Ctx.BlockHeight(), RewardPerBlock: rpb, TotalReward: tot,
			Editable: true, Creator: mc.Addr("K2").String()}), "create-other-pool")
	}
	m := newModel()
	for _, c := range d.V.Total {
		m.funded[c.Denom] = c.Amount.BigInt()
		m.released[c.Denom] = new(big.Int)
	}
	for _, c := range d.V.RPB {
		m.rate[c.Denom] = c.Amount.BigInt()
	}
	for _, f := range d.V.Farmers {
		m.stake[f] = new(big.Int)
		m.maxStake[f] = new(big.Int)
	}
	s.Model = m
	return s
}

func (d *Driver) pool(e *mc.Env, s *mc.State) *farmtypes.FarmPoolEntry {
	r, err := e.Farm.FarmPool(s.Ctx, &farmtypes.QueryFarmPoolRequest{Id: poolID})
	if err != nil {
		panic("pool query: " + err.Error())
	}
	return r.Pool
}

// farmer returns (locked, pending, exists) from the Farmer query.
func (d *Driver) farmer(e *mc.Env, s *mc.State, f string) (sdkmath.Int, sdk.Coins, bool) {
	r, err := e.Farm.Farmer(s.Ctx, &farmtypes.QueryFarmerRequest{Farmer: mc.Addr(f).String(), PoolId: poolID})
	if err != nil || len(r.List) == 0 {
		return sdkmath.ZeroInt(), nil, false
	}
	return r.List[0].Locked.Amount, r.List[0].PendingReward, true
}

func (d *Driver) Enabled(e *mc.Env, s *mc.State) []mc.Op {
	m := s.Model.(*model)
	var ops []mc.Op
	ops = append(ops, mc.Op{Name: "block", Data: opData{kind: "block"}})
	for _, f := range d.V.Farmers {
		for _, a := range d.V.StakeAmts {
			ops = append(ops, mc.Op{Name: fmt.Sprintf("stake(%s,%d)", f, a), Data: opData{kind: "stake", farmer: f, amt: sdkmath.NewInt(a)}})
		}
		if d.V.BigStake {
			bigA := sdkmath.NewIntWithDecimal(1, 18).AddRaw(1)
			ops = append(ops, mc.Op{Name: fmt.Sprintf("stake(%s,1e18+1)", f), Data: opData{kind: "stake", farmer: f, amt: bigA}})
		}
	}
	for _, f := range d.V.Farmers {
		if m.stake[f].Sign() > 0 {
			ops = append(ops, mc.Op{Name: fmt.Sprintf("unstake(%s,1)", f), Data: opData{kind: "unstake", farmer: f, amt: sdkmath.OneInt()}})
			if m.stake[f].Cmp(big.NewInt(1)) > 0 {
				ops = append(ops, mc.Op{Name: fmt.Sprintf("unstake(%s,all)", f), Data: opData{kind: "unstake", farmer: f, all: true}})
			}
			ops = append(ops, mc.Op{Name: fmt.Sprintf("harvest(%s)", f), Data: opData{kind: "harvest", farmer: f}})
		}
	}
	if d.V.OtherPools > 0 {
		// the creator of another pool (same reward denominations, nobody staked there) destroys it: what the pool
		// under test has released but not yet paid out rests on an account all pools share
		if r, err := e.Farm.FarmPool(s.Ctx, &farmtypes.QueryFarmPoolRequest{Id: "farm-2"}); err == nil && r.Pool != nil && !r.Pool.Expired && r.Pool.EndHeight > s.Ctx.BlockHeight() {
			ops = append(ops, mc.Op{Name: "destroy-other-pool(farm-2)", Data: opData{kind: "destroy-other"}})
		}
	}
	if len(d.V.Total) > 1 && e.Farm.GetParams(s.Ctx).MaxRewardCategories > 1 {
		// governance lowers the number of reward denominations a *new* pool may have below what this pool has
		ops = append(ops, mc.Op{Name: "gov:max-reward-categories(1)", Data: opData{kind: "gov-categories"}})
	}
	if d.V.Creator {
		first := d.V.Total[0].Denom
		ops = append(ops, mc.Op{Name: "block×3", Data: opData{kind: "block", n: 3}})
		ops = append(ops,
			mc.Op{Name: "topup(5)", Data: opData{kind: "topup", denom: first, n: 5}},
			mc.Op{Name: "rate(+1)", Data: opData{kind: "rate", denom: first, n: 1}},
			mc.Op{Name: "rate(x2)+topup(3)", Data: opData{kind: "both", denom: first, n: 3}},
			mc.Op{Name: "destroy", Data: opData{kind: "destroy"}},
		)
	}
	return ops
}

func (d *Driver) rewardDenoms() []string {
	var ds []string
	for _, c := range d.V.Total {
		ds = append(ds, c.Denom)
	}
	return ds
}

func (d *Driver) Apply(e *mc.Env, s *mc.State, op mc.Op) []mc.Finding {
	return d.only(d.apply(e, s, op))
}

var adoptC13 = map[string]string{"C06/refund-at-end-differs": "C13/farm/due-processing/refund-at-end-differs", "C06/refunded-twice": "C13/farm/due-processing/refunded-twice"}

// only keeps the findings of the property this exploration decides.
func (d *Driver) only(fs []mc.Finding) []mc.Finding {
	if d.V.Mode == "C13" {
		return mc.Select(fs, "C13", adoptC13)
	}
	return mc.Select(fs, d.V.Mode, nil)
}

// Hygiene compares the raw active-pool queue with the pools: every entry refers to an existing pool ending
// at the entry's height that has not been ended yet; every pool not yet ended has exactly one entry, at its
// end height; no entry is at a height whose end-block has already run.
func Hygiene(e *mc.Env, s *mc.State) []mc.Finding {
	var fs []mc.Finding
	h := s.Ctx.BlockHeight()
	entries := map[string]int{}
	for _, q := range mc.QueueEntries(s.Ctx, e, "farm", 0x04) {
		id := string(q.Rest)
		entries[id]++
		r, err := e.Farm.FarmPool(s.Ctx, &farmtypes.QueryFarmPoolRequest{Id: id})
		switch {
		case err != nil:
			fs = append(fs, mc.F("C13/queue/farm/entry-without-pool", "queue entry at height %d for unknown pool %s", q.Height, id))
		case r.Pool.EndHeight != q.Height:
			fs = append(fs, mc.F("C13/queue/farm/entry-height-differs", "queue entry at height %d, pool ends at %d", q.Height, r.Pool.EndHeight))
		}
		if q.Height < h {
			fs = append(fs, mc.F("C13/queue/farm/entry-in-the-past", "queue entry at height %d still present in block %d (end-block of that height has run)", q.Height, h))
		}
	}
	e.Farm.IteratorAllPools(s.Ctx, func(p farmtypes.FarmPool) {
		ended := h > p.EndHeight
		n := entries[p.Id]
		if !ended && h < p.EndHeight && n != 1 {
			fs = append(fs, mc.F("C13/queue/farm/live-pool-entry-count", "pool ending at %d has %d queue entries in block %d", p.EndHeight, n, h))
		}
		if ended && n != 0 {
			fs = append(fs, mc.F("C13/queue/farm/ended-pool-still-queued", "pool ended at %d still has %d queue entries in block %d", p.EndHeight, n, h))
		}
	})
	return fs
}

func (d *Driver) apply(e *mc.Env, s *mc.State, op mc.Op) []mc.Finding {
	od := op.Data.(opData)
	m := s.Model.(*model)
	P := d.V.Mode
	var fs []mc.Finding
	kaddr := d.creatorAddr()
	switch od.kind {
	case "block":
		if od.n > 1 {
			// a gap of several blocks (every one of them runs its end- and begin-block)
			one := mc.Op{Name: op.Name, Data: opData{kind: "block"}}
			for i := int64(0); i < od.n; i++ {
				fs = append(fs, d.apply(e, s, one)...)
			}
			return fs
		}
		pool := d.pool(e, s)
		h := s.Ctx.BlockHeight()
		before := e.AllBal(s.Ctx, kaddr)
		bo := s.NextBlock(e, 5*time.Second)
		fs = append(fs, mc.BlockPanicFindings(P, bo)...)
		after := e.AllBal(s.Ctx, kaddr)
		// end-block of height h: a pool whose end height is h is refunded now, exactly once
		expect := sdk.NewCoins()
		if !m.refunded && pool.EndHeight == h {
			for _, dn := range d.rewardDenoms() {
				rem := new(big.Int).Sub(m.funded[dn], m.released[dn])
				if rem.Sign() > 0 {
					expect = expect.Add(sdk.NewCoin(dn, sdkmath.NewIntFromBigInt(rem)))
				}
				if rem.Sign() < 0 {
					fs = append(fs, mc.F("C06/released-exceeds-funded", "denom %s funded %s released %s", dn, m.funded[dn], m.released[dn]))
				}
			}
			m.refunded = true
		}
		got, neg := after.SafeSub(before...)
		if neg || !got.Equal(expect) {
			fs = append(fs, mc.F("C06/refund-at-end-differs", "end-block %d: creator received %s, exact remaining budget %s (pool end %d)", h, got, expect, pool.EndHeight))
		}
		for _, c := range got {
			if m.creatorIn[c.Denom] == nil {
				m.creatorIn[c.Denom] = new(big.Int)
			}
			m.creatorIn[c.Denom].Add(m.creatorIn[c.Denom], c.Amount.BigInt())
		}
		// begin of block h+1: exact release
		pool2 := d.pool(e, s)
		if !m.refunded && s.Ctx.BlockHeight() <= pool2.EndHeight {
			m.releaseBlock()
		}
		return fs
	case "stake", "unstake", "harvest":
		f := od.farmer
		fa := mc.Addr(f)
		locked, pending, exists := d.farmer(e, s, f)
		amt := od.amt
		if od.all {
			amt = locked
		}
		if od.kind != "stake" && !locked.Equal(sdkmath.NewIntFromBigInt(m.stake[f])) {
			fs = append(fs, mc.F("C05/recorded-stake-differs", "%s: query says %s, reference %s", f, locked, m.stake[f]))
		}
		_ = exists
		balBefore := e.AllBal(s.Ctx, fa)
		var msg sdk.Msg
		switch od.kind {
		case "stake":
			msg = &farmtypes.MsgStake{PoolId: poolID, Amount: mc.CI(lpt, amt), Sender: fa.String()}
		case "unstake":
			msg = &farmtypes.MsgUnstake{PoolId: poolID, Amount: mc.CI(lpt, amt), Sender: fa.String()}
		default:
			msg = &farmtypes.MsgHarvest{PoolId: poolID, Sender: fa.String()}
		}
		out := s.Deliver(e, op.Name, msg)
		if !out.OK {
			switch od.kind {
			case "unstake":
				// a withdrawal of at most the recorded stake never fails (C05)
				fs = append(fs, mc.F("C05/withdrawal-failed/unstake/"+d.classifyFailure(e, s, f, pending, out), "%s (recorded stake %s, accrued %s) rejected: %s", op.Name, locked, pending, out))
			case "harvest":
				if !m.refunded {
					fs = append(fs, mc.F("C06/harvest-failed/"+d.classifyFailure(e, s, f, pending, out), "%s (stake %s, pending %s) rejected: %s", op.Name, locked, pending, out))
				}
			}
			return fs
		}
		var reward sdk.Coins
		switch r := out.Responses[0].(type) {
		case *farmtypes.MsgStakeResponse:
			reward = r.Reward
		case *farmtypes.MsgUnstakeResponse:
			reward = r.Reward
		case *farmtypes.MsgHarvestResponse:
			reward = r.Reward
		}
		balAfter := e.AllBal(s.Ctx, fa)
		exp := mc.Expect().AddCoins("f", reward, 1)
		switch od.kind {
		case "stake":
			exp.Add("f", lpt, new(big.Int).Neg(amt.BigInt()))
			m.stake[f].Add(m.stake[f], amt.BigInt())
			if m.stake[f].Cmp(m.maxStake[f]) > 0 {
				m.maxStake[f].Set(m.stake[f])
			}
		case "unstake":
			exp.Add("f", lpt, amt.BigInt())
			m.stake[f].Sub(m.stake[f], amt.BigInt())
		}
		got := mc.Diff(mc.Sheet{Bal: map[string]sdk.Coins{"f": balBefore}}, mc.Sheet{Bal: map[string]sdk.Coins{"f": balAfter}})
		if !got.Equal(exp) {
			fs = append(fs, mc.F("C05/balance-delta/"+od.kind, "%s: farmer balance changed by [%s], expected [%s] (stake amount %s, reported reward %s)", op.Name, got, exp, amt, reward))
		}
		if !reward.Equal(pending) && !(reward.IsZero() && pending.IsZero()) {
			fs = append(fs, mc.F("C05/reward-differs-from-accrued/"+od.kind, "%s: paid %s but the farmer query reported %s accrued just before", op.Name, reward, pending))
		}
		m.addPaid(f, reward)
		m.inter[f]++
		return fs
	case "destroy-other":
		s.Deliver(e, op.Name, &farmtypes.MsgDestroyPool{PoolId: "farm-2", Creator: mc.Addr("K2").String()})
		return nil
	case "gov-categories":
		p := e.Farm.GetParams(s.Ctx)
		p.MaxRewardCategories = 1
		s.Deliver(e, op.Name, &farmtypes.MsgUpdateParams{Authority: mc.Authority().String(), Params: p})
		return nil
	case "topup", "rate", "both", "destroy":
		pool := d.pool(e, s)
		before := e.AllBal(s.Ctx, kaddr)
		var msg sdk.Msg
		var add sdk.Coins
		var newRate sdk.Coins
		switch od.kind {
		case "topup":
			add = sdk.NewCoins(mc.C(od.denom, od.n))
		case "rate":
			newRate = sdk.NewCoins(sdk.NewCoin(od.denom, pool.RewardPerBlock.AmountOf(od.denom).AddRaw(od.n)))
		case "both":
			add = sdk.NewCoins(mc.C(od.denom, od.n))
			newRate = sdk.NewCoins(sdk.NewCoin(od.denom, pool.RewardPerBlock.AmountOf(od.denom).MulRaw(2)))
		}
		if od.kind == "destroy" {
			msg = &farmtypes.MsgDestroyPool{PoolId: poolID, Creator: kaddr.String()}
		} else {
			msg = &farmtypes.MsgAdjustPool{PoolId: poolID, AdditionalReward: add, RewardPerBlock: newRate, Creator: kaddr.String()}
		}
		out := s.Deliver(e, op.Name, msg)
		if !out.OK {
			// a rejected (or, on chain, recovered-panic) creator message changes nothing; neither C05 nor
			// C06 promises that creator messages succeed
			return fs
		}
		after := e.AllBal(s.Ctx, kaddr)
		if od.kind == "destroy" {
			expect := sdk.NewCoins()
			for _, dn := range d.rewardDenoms() {
				rem := new(big.Int).Sub(m.funded[dn], m.released[dn])
				if rem.Sign() > 0 {
					expect = expect.Add(sdk.NewCoin(dn, sdkmath.NewIntFromBigInt(rem)))
				}
			}
			got, neg := after.SafeSub(before...)
			if m.refunded {
				fs = append(fs, mc.F("C06/refunded-twice", "destroy succeeded on a pool whose budget was already returned; creator received %s", got))
			}
			if neg || !got.Equal(expect) {
				fs = append(fs, mc.F("C06/refund-at-destroy-differs", "creator received %s, exact remaining budget %s", got, expect))
			}
			for _, c := range got {
				if m.creatorIn[c.Denom] == nil {
					m.creatorIn[c.Denom] = new(big.Int)
				}
				m.creatorIn[c.Denom].Add(m.creatorIn[c.Denom], c.Amount.BigInt())
			}
			m.refunded = true
			return fs
		}
		paidIn, neg := before.SafeSub(after...)
		if neg || !paidIn.Equal(add) {
			fs = append(fs, mc.F("C06/topup-debit-differs", "creator paid %s-%s for a top-up of %s", before, after, add))
		}
		for _, c := range add {
			m.funded[c.Denom].Add(m.funded[c.Denom], c.Amount.BigInt())
		}
		for _, c := range newRate {
			m.rate[c.Denom] = c.Amount.BigInt()
		}
		return fs
	}
	panic("unknown op " + op.Name)
}

// classifyFailure names the cause of a failed withdrawal / harvest so that the known rounding
// defect has its own signature and anything else keeps a different one.
//   - "reward-collector-short/all-farmers-within-rounding": the bank refused to pay the accrued reward
//     because the shared reward collector holds less than the farmer's accrued amount, although every
//     farmer's paid+accrued is within the per-interaction rounding the property allows (C06 bound);
//   - "reward-collector-short/farmer-overpaid-beyond-rounding": same refusal, but some farmer was
//     credited more than rounding explains;
//   - otherwise the normalised error text.
func (d *Driver) classifyFailure(e *mc.Env, s *mc.State, f string, pending sdk.Coins, out mc.Outcome) string {
	if out.Panic {
		return "panic/" + mc.Normalize(out.PanicText)
	}
	m := s.Model.(*model)
	collector := mc.ModuleAddr(farmtypes.RewardCollector)
	short := false
	for _, c := range pending {
		if e.Bal(s.Ctx, collector, c.Denom).LT(c.Amount) {
			short = true
		}
	}
	if !short || out.Codespace != "sdk" || out.Code != 5 {
		return fmt.Sprintf("%s-%d/%s", out.Codespace, out.Code, mc.Normalize(out.Err.Error()))
	}
	for _, g := range d.V.Farmers {
		_, p, _ := d.farmer(e, s, g)
		for _, dn := range d.rewardDenoms() {
			got := new(big.Int)
			if m.paid[g] != nil && m.paid[g][dn] != nil {
				got.Add(got, m.paid[g][dn])
			}
			got.Add(got, p.AmountOf(dn).BigInt())
			ent := new(big.Rat)
			if m.ent[g] != nil && m.ent[g][dn] != nil {
				ent = m.ent[g][dn]
			}
			diff := new(big.Rat).Sub(new(big.Rat).SetInt(got), ent)
			if diff.Cmp(big.NewRat(int64(m.inter[g]+1), 1)) >= 0 {
				return "reward-collector-short/farmer-overpaid-beyond-rounding"
			}
		}
	}
	if len(d.rpsAboveExact(e, s)) > 0 {
		return "reward-collector-short/per-share-accumulator-above-exact"
	}
	// rounding only ever makes the farmers' claims exceed what was set aside for them; it never takes coins away:
	// the pool's undistributed budget plus the collector's holdings must still be everything funded and not yet paid
	farmAcc := mc.ModuleAddr(farmtypes.ModuleName)
	others := sdk.NewCoins()
	if r, err := e.Farm.FarmPools(s.Ctx, &farmtypes.QueryFarmPoolsRequest{}); err == nil {
		for _, p := range r.Pools {
			if p.Id != poolID {
				others = others.Add(p.RemainingReward...)
			}
		}
	}
	for _, dn := range d.rewardDenoms() {
		paidSum := new(big.Int)
		for _, g := range d.V.Farmers {
			if m.paid[g] != nil && m.paid[g][dn] != nil {
				paidSum.Add(paidSum, m.paid[g][dn])
			}
		}
		want := new(big.Int).Sub(m.funded[dn], paidSum)
		if m.refunded {
			want = new(big.Int).Sub(m.released[dn], paidSum)
		}
		have := new(big.Int).Add(e.Bal(s.Ctx, collector, dn).BigInt(), e.Bal(s.Ctx, farmAcc, dn).BigInt())
		have.Sub(have, others.AmountOf(dn).BigInt())
		if have.Cmp(want) < 0 {
			return "reward-collector-short/funds-set-aside-for-the-pool-are-gone"
		}
	}
	return "reward-collector-short/all-farmers-within-rounding"
}

// rpsAboveExact reports the denominations whose stored per-share accumulator exceeds the exact value
// (the accumulator may only lose value by its 18-decimal truncation, never gain).
func (d *Driver) rpsAboveExact(e *mc.Env, s *mc.State) []string {
	m := s.Model.(*model)
	var bad []string
	for _, r := range e.Farm.GetRewardRules(s.Ctx, poolID) {
		impl := new(big.Rat).SetFrac(r.RewardPerShare.BigInt(), new(big.Int).Exp(big.NewInt(10), big.NewInt(18), nil))
		exact := m.rps[r.Reward]
		if exact == nil {
			exact = new(big.Rat)
		}
		if impl.Cmp(exact) > 0 {
			bad = append(bad, fmt.Sprintf("%s: stored %s > exact %s", r.Reward, impl.FloatString(20), exact.FloatString(20)))
		}
	}
	return bad
}

func permutations(xs []string) [][]string {
	if len(xs) <= 1 {
		return [][]string{append([]string{}, xs...)}
	}
	var out [][]string
	for i := range xs {
		rest := append(append([]string{}, xs[:i]...), xs[i+1:]...)
		for _, p := range permutations(rest) {
			out = append(out, append([]string{xs[i]}, p...))
		}
	}
	return out
}

func (d *Driver) Check(e *mc.Env, s *mc.State) []mc.Finding {
	fs := d.check(e, s)
	if d.V.Mode == "C13" {
		fs = append(fs, Hygiene(e, s)...)
	}
	return d.only(fs)
}

func (d *Driver) check(e *mc.Env, s *mc.State) []mc.Finding {
	m := s.Model.(*model)
	var fs []mc.Finding
	pool := d.pool(e, s)
	farmAcc := mc.ModuleAddr(farmtypes.ModuleName)
	collector := mc.ModuleAddr(farmtypes.RewardCollector)

	// which farmers hold stake (from the queries)
	var stakers []string
	sum := sdkmath.ZeroInt()
	pend := map[string]sdk.Coins{}
	for _, f := range d.V.Farmers {
		locked, p, ok := d.farmer(e, s, f)
		if ok {
			sum = sum.Add(locked)
			pend[f] = p
			if locked.IsPositive() {
				stakers = append(stakers, f)
			}
		}
		if !locked.Equal(sdkmath.NewIntFromBigInt(m.stake[f])) {
			fs = append(fs, mc.F("C05/recorded-stake-differs", "%s: query says %s, reference %s", f, locked, m.stake[f]))
		}
	}
	s.Nontrivial = len(stakers) >= 2

	if d.V.Mode == "C05" {
		if !sum.Equal(pool.TotalLptLocked.Amount) {
			fs = append(fs, mc.F("C05/stakes-sum-differs-from-pool-total", "sum of farmer stakes %s, pool total %s", sum, pool.TotalLptLocked.Amount))
		}
		// escrow = staked tokens + undistributed reward budgets (of all pools)
		others := sdk.NewCoins()
		if d.V.OtherPools > 0 {
			if r, err := e.Farm.FarmPools(s.Ctx, &farmtypes.QueryFarmPoolsRequest{}); err == nil {
				for _, p := range r.Pools {
					if p.Id != poolID {
						others = others.Add(p.RemainingReward...).Add(p.TotalLptLocked)
					}
				}
			}
		}
		if got := e.Bal(s.Ctx, farmAcc, lpt).Sub(others.AmountOf(lpt)); !got.Equal(pool.TotalLptLocked.Amount) {
			fs = append(fs, mc.F("C05/escrow-differs/staked-token", "farm account holds %s %s, pool total %s", got, lpt, pool.TotalLptLocked.Amount))
		}
		for _, dn := range d.rewardDenoms() {
			if got := e.Bal(s.Ctx, farmAcc, dn).Sub(others.AmountOf(dn)); !got.Equal(pool.RemainingReward.AmountOf(dn)) {
				fs = append(fs, mc.F("C05/escrow-differs/reward-budget", "farm account holds %s %s, remaining budget %s", got, dn, pool.RemainingReward.AmountOf(dn)))
			}
		}
		// ... and nothing else: "exactly" covers every denomination the account holds (a creation fee passes
		// through this account; none of it may stay)
		known := map[string]bool{lpt: true}
		for _, dn := range d.rewardDenoms() {
			known[dn] = true
		}
		for _, c := range e.AllBal(s.Ctx, farmAcc) {
			if !known[c.Denom] && !c.Amount.Equal(others.AmountOf(c.Denom)) {
				fs = append(fs, mc.F("C05/escrow-differs/other-denomination", "farm account holds %s, which is neither staked token nor reward budget of any pool (pools account for %s)", c, others.AmountOf(c.Denom)))
			}
		}
		// epilogue: everybody withdraws everything, in every order; each withdrawal must succeed and pay
		// exactly the stake plus the accrued reward
		orders := permutations(stakers)
		for _, order := range orders {
			fk := s.Fork()
			for _, f := range order {
				fa := mc.Addr(f)
				locked, pending, _ := d.farmer(e, fk, f)
				before := e.AllBal(fk.Ctx, fa)
				out := fk.Deliver(e, "epilogue-unstake-"+f, &farmtypes.MsgUnstake{PoolId: poolID, Amount: mc.CI(lpt, locked), Sender: fa.String()})
				if !out.OK {
					fs = append(fs, mc.F("C05/withdrawal-failed/full-unstake/"+d.classifyFailure(e, fk, f, pending, out), "full withdrawal by %s of %s (accrued %s) in order %v rejected: %s", f, locked, pending, order, out))
					break
				}
				after := e.AllBal(fk.Ctx, fa)
				got, neg := after.SafeSub(before...)
				want := sdk.NewCoins(mc.CI(lpt, locked)).Add(pending...)
				// (the throw-away branch keeps its own books: what was paid here counts for the classification of a
				// later failure on the same branch)
				if fm, ok := fk.Model.(*model); ok && !neg {
					reward, _ := got.SafeSub(mc.CI(lpt, locked))
					fm.addPaid(f, reward)
				}
				if neg || !got.Equal(want) {
					fs = append(fs, mc.F("C05/balance-delta/full-unstake", "%s received %s, expected stake+accrued %s", f, got, want))
				}
			}
		}
		// what a withdrawal pays is the queried accrued reward (checked above); that amount, with what was paid
		// before, may not fall short of the farmer's exact share
		fs = append(fs, d.proRata(m, pend, "C05", false)...)
		return fs
	}

	// ---- C06 ----
	for _, b := range d.rpsAboveExact(e, s) {
		fs = append(fs, mc.F("C06/per-share-accumulator-above-exact", "%s (the accumulator may only be truncated, never rounded up)", b))
	}
	// settle lazily-accounted releases on a fork, then compare budget bookkeeping with the exact reference
	fk := s.Fork()
	settlePaid := sdk.NewCoins()
	if len(stakers) > 0 && !m.refunded {
		out := fk.Deliver(e, "settle-harvest", &farmtypes.MsgHarvest{PoolId: poolID, Sender: mc.Addr(stakers[0]).String()})
		if out.OK {
			settlePaid = out.Responses[0].(*farmtypes.MsgHarvestResponse).Reward
		} else if !(s.Ctx.BlockHeight() > pool.EndHeight) {
			fs = append(fs, mc.F("C06/harvest-failed/"+d.classifyFailure(e, fk, stakers[0], pend[stakers[0]], out), "settling harvest by %s rejected: %s", stakers[0], out))
			// the rejected transaction was rolled back together with the pool update it contained: the lazily
			// accounted releases could not be settled, so the bookkeeping comparisons below have nothing to compare
			// (the failure itself is the finding)
			return append(fs, d.proRata(m, pend, "C06", true)...)
		}
	}
	pool2 := d.pool(e, fk)
	for _, dn := range d.rewardDenoms() {
		wantRem := new(big.Int).Sub(m.funded[dn], m.released[dn])
		if m.refunded {
			wantRem = new(big.Int)
		}
		gotRem := pool2.RemainingReward.AmountOf(dn).BigInt()
		// "rewards released for a span of blocks are reward-per-block times the span": what the pool still promises to
		// release until its end height may not exceed what is left of the budget (else the last blocks cannot be paid)
		if h := s.Ctx.BlockHeight(); !m.refunded && pool2.EndHeight > h {
			from := h
			if pool2.StartHeight > from {
				from = pool2.StartHeight
			}
			sched := new(big.Int).Mul(pool2.RewardPerBlock.AmountOf(dn).BigInt(), big.NewInt(pool2.EndHeight-from))
			if sched.Cmp(gotRem) > 0 {
				fs = append(fs, mc.F("C06/scheduled-release-exceeds-remaining-budget", "denom %s: %s per block until the end height %d (from %d) is %s, the remaining budget is %s", dn, pool2.RewardPerBlock.AmountOf(dn), pool2.EndHeight, from, sched, gotRem))
			}
		}
		if gotRem.Cmp(wantRem) != 0 {
			fs = append(fs, mc.F("C06/budget-not-conserved", "denom %s: remaining %s, but funded %s - released %s (refunded=%v) = %s", dn, gotRem, m.funded[dn], m.released[dn], m.refunded, wantRem))
		}
		// released = paid + what the collector still holds
		paidSum := new(big.Int)
		for _, f := range d.V.Farmers {
			if m.paid[f] != nil && m.paid[f][dn] != nil {
				paidSum.Add(paidSum, m.paid[f][dn])
			}
		}
		coll := e.Bal(fk.Ctx, collector, dn).BigInt()
		tot := new(big.Int).Add(paidSum, coll)
		tot.Add(tot, settlePaid.AmountOf(dn).BigInt())
		if tot.Cmp(m.released[dn]) != 0 {
			fs = append(fs, mc.F("C06/released-not-conserved", "denom %s: paid %s + collector %s + settle %s != released %s", dn, paidSum, coll, settlePaid.AmountOf(dn), m.released[dn]))
		}
		// creator got back exactly funded - released once refunded
		if m.refunded {
			back := m.creatorIn[dn]
			if back == nil {
				back = new(big.Int)
			}
			want := new(big.Int).Sub(m.funded[dn], m.released[dn])
			if back.Cmp(want) != 0 {
				fs = append(fs, mc.F("C06/refund-total-differs", "denom %s: creator got back %s, funded-released = %s", dn, back, want))
			}
		}
	}
	fs = append(fs, d.proRata(m, pend, "C06", true)...)
	return fs
}

// proRata compares every farmer's cumulative payout plus accrued (queried) reward with the exact
// stake-weighted entitlement of the reference. Under C05 only the lower side is used: "stake plus accrued
// rewards" means a withdrawal may not pay less than the farmer's share (up to the rounding the property allows).
func (d *Driver) proRata(m *model, pend map[string]sdk.Coins, P string, upper bool) []mc.Finding {
	var fs []mc.Finding
	for _, f := range d.V.Farmers {
		for _, dn := range d.rewardDenoms() {
			got := new(big.Int)
			if m.paid[f] != nil && m.paid[f][dn] != nil {
				got.Add(got, m.paid[f][dn])
			}
			got.Add(got, pend[f].AmountOf(dn).BigInt())
			ent := new(big.Rat)
			if m.ent[f] != nil && m.ent[f][dn] != nil {
				ent = m.ent[f][dn]
			}
			diff := new(big.Rat).Sub(new(big.Rat).SetInt(got), ent)
			tolUp := big.NewRat(int64(m.inter[f]+1), 1)
			// truncation of the 18-decimal per-share accumulator: at most maxStake*1e-18 per update
			trunc := new(big.Rat).SetFrac(new(big.Int).Mul(m.maxStake[f], big.NewInt(int64(m.updates+1))), new(big.Int).Exp(big.NewInt(10), big.NewInt(18), nil))
			tolDown := new(big.Rat).Add(tolUp, trunc)
			if upper && diff.Cmp(tolUp) >= 0 {
				fs = append(fs, mc.F(P+"/overpaid", "%s %s: paid+accrued %s exceeds exact share %s by %s (>= %s allowed for %d interactions)", f, dn, got, ent.FloatString(6), diff.FloatString(6), tolUp.FloatString(0), m.inter[f]))
			}
			if new(big.Rat).Neg(diff).Cmp(tolDown) >= 0 {
				sig := P + "/underpaid"
				if P == "C05" {
					sig = "C05/accrued-reward-below-exact-share"
				}
				fs = append(fs, mc.F(sig, "%s %s: paid+accrued %s below exact share %s by %s (>= %s allowed)", f, dn, got, ent.FloatString(6), new(big.Rat).Neg(diff).FloatString(6), tolDown.FloatString(6)))
			}
		}
	}
	return fs
}
