// Package c17 drives the oracle module (feeds on top of repeated service request contexts) for C17:
// every completed batch that met its response threshold appends exactly one value (the configured
// aggregate, 8 decimals, of the numeric values the providers answered, stamped with the block time),
// a feed keeps only its newest latest-history values (newest first), the feed's running/paused index
// mirrors its service request context, and only the creator can start, pause or edit a feed.
package c17

import (
	"bytes"
	"fmt"
	"math/big"
	"sort"
	"strings"
	"time"

	sdk "github.com/cosmos/cosmos-sdk/types"

	oracletypes "mods.irisnet.org/modules/oracle/types"
	servicetypes "mods.irisnet.org/modules/service/types"

	"verif/harness/mc"
)

const (
	svcName   = "svc"
	svcAuthor = "K"
	sink      = "S"
	denom     = "stake"
	blockDT   = 5 * time.Second
	schemas   = `{"input":{"type":"object"},"output":{"type":"object"}}`
	pricing   = `{"price":"1stake"}`
	input     = `{"header":{},"body":{}}`
	valuePath = "last"
	resultOK  = `{"code":200,"message":""}`
	resultErr = `{"code":500,"message":"unavailable"}`
	errLabel  = "err" // a response without output (result code 500): not a valid response
)

var allProviders = []string{"P1", "P2", "P3"}

// wire maps a value label of the alphabet to the text submitted in the response body.
func wire(label string) string {
	if label == "1e15" {
		return "1000000000000000"
	}
	return label
}

// objLabel: an answer whose value path resolves to a JSON object (three members whose floating-point sum depends on
// the order they are added in). Not a number: like any other non-numeric answer.
const objLabel = "obj"
const objJSON = `{"ask":1,"bid":10000000000000000,"mid":-10000000000000000}`

// outputOf builds the response body for a value label.
func outputOf(label string) string {
	if label == objLabel {
		return fmt.Sprintf(`{"header":{},"body":{"%s":%s}}`, valuePath, objJSON)
	}
	return fmt.Sprintf(`{"header":{},"body":{"%s":"%s"}}`, valuePath, wire(label))
}

// FeedSpec describes a feed (fixture or create op).
type FeedSpec struct {
	Name      string
	Creator   string
	Agg       string
	Hist      int
	Thr       int
	Providers []string
	Started   bool // fixture only: start the feed and run one block so that its first batch is open
}

// Variant fixes the fixture and the alphabet of one exploration.
type Variant struct {
	Name    string
	Feeds   []FeedSpec
	Values  []string // labels for respond
	Timeout int64    // request timeout = repeated frequency (blocks)

	PauseStart bool  // start/pause by the creator
	Stranger   bool  // start/pause/edit by a stranger, service-level pause/start/kill by the creator
	EditHist   []int // edit(latest_history) by the creator
	EditCtx    bool  // edit(providers, threshold) by the creator
	Drain      bool  // drain / refill the creator's funds
	Creates    []FeedSpec
	Jump       bool

	DepthQ, DepthT int
}

// ---------------------------------------------------------------------------------------------
// reference model

type val struct {
	Data string
	T    int64 // unix nanoseconds
}

type batchM struct {
	Counter  uint64
	ThrStart int
	Expiry   int64             // height whose end-blocker expires the batch
	Order    []string          // providers that were sent a request, in request order
	Req      map[string]string // provider -> request id (read from the service query)
	Resp     map[string]string // provider -> value label accepted
	Done     bool
}

type feedM struct {
	Name      string
	Creator   string
	Agg       string
	Hist      int
	Thr       int
	Providers []string
	CtxID     string
	Vals      []val // newest first
	Batch     *batchM
}

type model struct {
	feeds map[string]*feedM
}

func (m *model) names() []string {
	var ns []string
	for n := range m.feeds {
		ns = append(ns, n)
	}
	sort.Strings(ns)
	return ns
}

func (m *model) Clone() mc.Model {
	c := &model{feeds: map[string]*feedM{}}
	for n, f := range m.feeds {
		g := *f
		g.Providers = append([]string{}, f.Providers...)
		g.Vals = append([]val{}, f.Vals...)
		if f.Batch != nil {
			b := *f.Batch
			b.Order = append([]string{}, f.Batch.Order...)
			b.Req = map[string]string{}
			for k, v := range f.Batch.Req {
				b.Req[k] = v
			}
			b.Resp = map[string]string{}
			for k, v := range f.Batch.Resp {
				b.Resp[k] = v
			}
			g.Batch = &b
		}
		c.feeds[n] = &g
	}
	return c
}

func (m *model) Canon() []byte {
	var b bytes.Buffer
	for _, n := range m.names() {
		f := m.feeds[n]
		fmt.Fprintf(&b, "%s|%s|%s|h%d|t%d|%s|%s|", f.Name, f.Creator, f.Agg, f.Hist, f.Thr, strings.Join(f.Providers, ","), f.CtxID)
		for _, v := range f.Vals {
			fmt.Fprintf(&b, "%s@%d,", v.Data, v.T)
		}
		if bt := f.Batch; bt != nil {
			fmt.Fprintf(&b, "|b%d/t%d/x%d/%v/", bt.Counter, bt.ThrStart, bt.Expiry, bt.Done)
			for _, p := range bt.Order {
				fmt.Fprintf(&b, "%s=%s;", p, bt.Resp[p])
			}
		}
		b.WriteString("\n")
	}
	return b.Bytes()
}

// ---------------------------------------------------------------------------------------------
// exact decimal reference of the aggregates

func isNumeric(s string) bool {
	if s == "" {
		return false
	}
	i := 0
	if s[0] == '-' {
		i = 1
	}
	digits, dot, frac := 0, false, 0
	for ; i < len(s); i++ {
		switch {
		case s[i] >= '0' && s[i] <= '9':
			if dot {
				frac++
			} else {
				digits++
			}
		case s[i] == '.' && !dot:
			dot = true
		default:
			return false
		}
	}
	return digits > 0 && (!dot || frac > 0)
}

func rat(s string) *big.Rat {
	r, ok := new(big.Rat).SetString(s)
	if !ok {
		panic("not a decimal: " + s)
	}
	return r
}

var ten8 = new(big.Int).Exp(big.NewInt(10), big.NewInt(8), nil)

// fmt8 renders r with exactly 8 decimals, rounded to nearest (ties to even; no tie is reachable with
// the value alphabet, whose averages over <= 3 values never end in a 5 at the ninth decimal).
func fmt8(r *big.Rat) string {
	num := new(big.Int).Mul(r.Num(), ten8)
	den := r.Denom()
	neg := num.Sign() < 0
	num.Abs(num)
	q, rem := new(big.Int).QuoRem(num, den, new(big.Int))
	twice := new(big.Int).Lsh(rem, 1)
	switch twice.Cmp(den) {
	case 1:
		q.Add(q, big.NewInt(1))
	case 0:
		if q.Bit(0) == 1 {
			q.Add(q, big.NewInt(1))
		}
	}
	ip, fp := new(big.Int).QuoRem(q, ten8, new(big.Int))
	s := fmt.Sprintf("%s.%08d", ip, fp.Int64())
	if neg && q.Sign() != 0 {
		s = "-" + s
	}
	return s
}

// aggregate computes the configured aggregate of the given decimal strings (non-empty).
func aggregate(agg string, xs []string) string {
	acc := rat(xs[0])
	for _, x := range xs[1:] {
		r := rat(x)
		switch agg {
		case "max":
			if r.Cmp(acc) > 0 {
				acc = r
			}
		case "min":
			if r.Cmp(acc) < 0 {
				acc = r
			}
		case "avg":
			acc = new(big.Rat).Add(acc, r)
		}
	}
	if agg == "avg" {
		acc = new(big.Rat).Quo(acc, big.NewRat(int64(len(xs)), 1))
	}
	return fmt8(acc)
}

// ---------------------------------------------------------------------------------------------
// driver

type opData struct {
	kind  string
	feed  string
	who   string
	prov  string
	value string
	hist  int
	provs []string
	thr   int
	spec  FeedSpec
	n     int
}

// Driver implements mc.Driver.
type Driver struct{ V Variant }

// New builds the environment and driver of a variant.
func New(v Variant) func() (*mc.Env, mc.Driver) {
	return func() (*mc.Env, mc.Driver) {
		rich := sdk.NewCoins(mc.C(denom, 10_000_000))
		small := sdk.NewCoins(mc.C(denom, 1000))
		e := mc.NewEnv(mc.EnvOptions{
			Balances: map[string]sdk.Coins{svcAuthor: rich, "P1": rich, "P2": rich, "P3": rich, "C": small, "X": small, sink: nil},
			// only these two modules have block logic that touches feeds
			BlockModules: []string{"service", "oracle"},
		})
		return e, &Driver{V: v}
	}
}

func (d *Driver) ID() string       { return "C17/" + d.V.Name }
func (d *Driver) Stores() []string { return []string{"oracle", "service", "bank"} }

func addrs(names []string) []string {
	out := make([]string, len(names))
	for i, n := range names {
		out[i] = mc.Addr(n).String()
	}
	return out
}

func provName(bech string) string {
	for _, p := range allProviders {
		if mc.Addr(p).String() == bech {
			return p
		}
	}
	return "?" + bech
}

func (d *Driver) createMsg(sp FeedSpec) *oracletypes.MsgCreateFeed {
	return &oracletypes.MsgCreateFeed{
		FeedName: sp.Name, LatestHistory: uint64(sp.Hist), Description: "d", Creator: mc.Addr(sp.Creator).String(),
		ServiceName: svcName, Providers: addrs(sp.Providers), Input: input, Timeout: d.V.Timeout,
		ServiceFeeCap: sdk.NewCoins(mc.C(denom, 10)), RepeatedFrequency: uint64(d.V.Timeout),
		AggregateFunc: sp.Agg, ValueJsonPath: valuePath, ResponseThreshold: uint32(sp.Thr),
	}
}

func must(what string, out mc.Outcome) {
	if !out.OK {
		panic("fixture " + what + ": " + out.String())
	}
}

func (d *Driver) Init(e *mc.Env) *mc.State {
	s := &mc.State{Ctx: mc.Branch(e.Root)}
	m := &model{feeds: map[string]*feedM{}}
	s.Model = m
	must("define", s.Deliver(e, "fx-define", &servicetypes.MsgDefineService{Name: svcName, Description: "d", Author: mc.Addr(svcAuthor).String(), AuthorDescription: "a", Schemas: schemas}))
	for _, p := range allProviders {
		// a deposit far above the minimum: slashing for unanswered requests must not disable the binding
		must("bind "+p, s.Deliver(e, "fx-bind-"+p, &servicetypes.MsgBindService{ServiceName: svcName, Provider: mc.Addr(p).String(),
			Deposit: sdk.NewCoins(mc.C(denom, 1_000_000)), Pricing: pricing, QoS: 1, Options: "{}", Owner: mc.Addr(p).String()}))
	}
	started := false
	for _, sp := range d.V.Feeds {
		must("create "+sp.Name, s.Deliver(e, "fx-create-"+sp.Name, d.createMsg(sp)))
		d.adopt(e, s, sp)
		if sp.Started {
			must("start "+sp.Name, s.Deliver(e, "fx-start-"+sp.Name, &oracletypes.MsgStartFeed{FeedName: sp.Name, Creator: mc.Addr(sp.Creator).String()}))
			started = true
		}
	}
	if started {
		if fs := d.oneBlock(e, s); len(fs) > 0 {
			panic(fmt.Sprintf("fixture block: %v", fs))
		}
		for _, sp := range d.V.Feeds {
			if sp.Started && (m.feeds[sp.Name].Batch == nil || len(m.feeds[sp.Name].Batch.Order) != len(sp.Providers)) {
				panic("fixture: first batch of " + sp.Name + " did not open")
			}
		}
	}
	return s
}

// adopt enters a freshly created feed into the model; the request context id is read from the feed query.
func (d *Driver) adopt(e *mc.Env, s *mc.State, sp FeedSpec) {
	r, err := e.Oracle.Feed(s.Ctx, &oracletypes.QueryFeedRequest{FeedName: sp.Name})
	if err != nil || r.Feed.Feed == nil {
		panic(fmt.Sprintf("created feed %s not readable: %v", sp.Name, err))
	}
	s.Model.(*model).feeds[sp.Name] = &feedM{Name: sp.Name, Creator: sp.Creator, Agg: sp.Agg, Hist: sp.Hist, Thr: sp.Thr,
		Providers: append([]string{}, sp.Providers...), CtxID: r.Feed.Feed.RequestContextID}
}

func stranger(creator string) string {
	if creator == "C" {
		return "X"
	}
	return "C"
}

func (d *Driver) Enabled(e *mc.Env, s *mc.State) []mc.Op {
	m := s.Model.(*model)
	v := d.V
	var ops []mc.Op
	add := func(name string, od opData) { ops = append(ops, mc.Op{Name: name, Data: od}) }
	for _, n := range m.names() {
		f := m.feeds[n]
		if b := f.Batch; b != nil && !b.Done {
			for _, p := range b.Order {
				if _, answered := b.Resp[p]; answered {
					continue
				}
				for _, val := range v.Values {
					add(fmt.Sprintf("respond(%s,%s,%s)", n, p, val), opData{kind: "respond", feed: n, prov: p, value: val})
				}
			}
		}
	}
	add("block", opData{kind: "block"})
	if v.Jump {
		// through the end-blocker of the earliest pending batch expiry
		var exp int64
		for _, n := range m.names() {
			if b := m.feeds[n].Batch; b != nil && b.Expiry >= s.Ctx.BlockHeight() && (exp == 0 || b.Expiry < exp) {
				exp = b.Expiry
			}
		}
		if k := int(exp - s.Ctx.BlockHeight() + 1); exp != 0 && k >= 2 {
			add("jump-through-expiry", opData{kind: "jump", n: k})
		}
	}
	for _, n := range m.names() {
		f := m.feeds[n]
		if v.PauseStart {
			add(fmt.Sprintf("pause(%s)", n), opData{kind: "pause", feed: n, who: f.Creator})
			add(fmt.Sprintf("start(%s)", n), opData{kind: "start", feed: n, who: f.Creator})
		}
		for _, h := range v.EditHist {
			add(fmt.Sprintf("edit-history(%s,%d)", n, h), opData{kind: "edit-history", feed: n, who: f.Creator, hist: h})
		}
		if v.EditCtx {
			for t := 1; t <= 3; t++ {
				add(fmt.Sprintf("edit-threshold(%s,%d)", n, t), opData{kind: "edit-threshold", feed: n, who: f.Creator, thr: t})
			}
			add(fmt.Sprintf("edit-providers(%s,P1,thr=1)", n), opData{kind: "edit-providers", feed: n, who: f.Creator, provs: []string{"P1"}, thr: 1})
			add(fmt.Sprintf("edit-providers(%s,P3+P2,thr=2)", n), opData{kind: "edit-providers", feed: n, who: f.Creator, provs: []string{"P3", "P2"}, thr: 2})
			add(fmt.Sprintf("edit-providers(%s,P1+P2+P3)", n), opData{kind: "edit-providers", feed: n, who: f.Creator, provs: []string{"P1", "P2", "P3"}})
		}
		if v.Stranger {
			x := stranger(f.Creator)
			add(fmt.Sprintf("stranger-pause(%s)", n), opData{kind: "stranger-pause", feed: n, who: x})
			add(fmt.Sprintf("stranger-start(%s)", n), opData{kind: "stranger-start", feed: n, who: x})
			add(fmt.Sprintf("stranger-edit-history(%s,1)", n), opData{kind: "stranger-edit-history", feed: n, who: x, hist: 1})
			add(fmt.Sprintf("stranger-edit-providers(%s,P1,thr=1)", n), opData{kind: "stranger-edit-providers", feed: n, who: x, provs: []string{"P1"}, thr: 1})
			// the creator addressing the request context directly through the service module (bypassing the feed)
			add(fmt.Sprintf("service-pause(%s)", n), opData{kind: "service-pause", feed: n, who: f.Creator})
			add(fmt.Sprintf("service-start(%s)", n), opData{kind: "service-start", feed: n, who: f.Creator})
			add(fmt.Sprintf("service-kill(%s)", n), opData{kind: "service-kill", feed: n, who: f.Creator})
		}
	}
	if v.Drain {
		if e.Bal(s.Ctx, mc.Addr("C"), denom).IsPositive() {
			add("drain(C)", opData{kind: "drain"})
		}
		if e.Bal(s.Ctx, mc.Addr(sink), denom).GTE(mc.C(denom, 100).Amount) {
			add("refill(C)", opData{kind: "refill"})
		}
	}
	for _, sp := range v.Creates {
		add(fmt.Sprintf("create(%s,%s,%s,h%d,t%d)", sp.Name, sp.Creator, sp.Agg, sp.Hist, sp.Thr), opData{kind: "create", spec: sp})
	}
	return ops
}

// ---------------------------------------------------------------------------------------------
// observation helpers (gRPC query methods only)

func (d *Driver) svcCtx(e *mc.Env, s *mc.State, f *feedM) *servicetypes.RequestContext {
	r, err := e.Service.RequestContext(s.Ctx, &servicetypes.QueryRequestContextRequest{RequestContextId: f.CtxID})
	if err != nil || r.RequestContext == nil {
		return &servicetypes.RequestContext{}
	}
	return r.RequestContext
}

func (d *Driver) stored(e *mc.Env, s *mc.State, name string) []val {
	r, err := e.Oracle.FeedValue(s.Ctx, &oracletypes.QueryFeedValueRequest{FeedName: name})
	if err != nil {
		return nil
	}
	var out []val
	for _, v := range r.FeedValues {
		out = append(out, val{v.Data, v.Timestamp.UnixNano()})
	}
	return out
}

func eqVals(a, b []val) bool {
	if len(a) != len(b) {
		return false
	}
	for i := range a {
		if a[i] != b[i] {
			return false
		}
	}
	return true
}

func showVals(vs []val) string {
	var parts []string
	for _, v := range vs {
		parts = append(parts, fmt.Sprintf("%s@%s", v.Data, time.Unix(0, v.T).UTC().Format("15:04:05")))
	}
	return "[" + strings.Join(parts, " ") + "]"
}

func trim(vs []val, h int) []val {
	if len(vs) > h {
		return append([]val{}, vs[:h]...)
	}
	return vs
}

// ---------------------------------------------------------------------------------------------
// batch completion: the heart of the value oracle

// complete is called when the reference decides that the open batch of f is complete (all requests
// answered, or its expiry end-blocker ran) in a block with time t.
func (d *Driver) complete(e *mc.Env, s *mc.State, f *feedM, t time.Time, how string) []mc.Finding {
	var fs []mc.Finding
	b := f.Batch
	b.Done = true
	var valid []string
	for _, p := range b.Order {
		if l, ok := b.Resp[p]; ok && l != errLabel {
			valid = append(valid, wire(l))
		}
	}
	// "its response threshold" is the threshold the batch was started with (the service module records it per
	// batch); an edit of the feed while the batch is open applies from the next batch on
	lo, hi := b.ThrStart, b.ThrStart
	got := d.stored(e, s, f.Name)
	defer func() { f.Vals = got }() // resynchronise: the search continues from what is stored
	desc := fmt.Sprintf("feed %s (%s, latest_history %d) batch %d completed %s at %s with valid responses %v (threshold %d)",
		f.Name, f.Agg, f.Hist, b.Counter, how, t.UTC().Format("15:04:05"), valid, b.ThrStart)
	switch {
	case len(valid) < lo:
		if !eqVals(got, f.Vals) {
			fs = append(fs, mc.F("C17/value-appended/below-threshold", "%s: values were %s, now %s", desc, showVals(f.Vals), showVals(got)))
		}
		return fs
	case len(valid) < hi:
		// the threshold was edited while the batch was open and the count lies between the two: the
		// property does not say which one is "its" threshold; either outcome is accepted
		return fs
	}
	// The statement does not say how a response whose field is not a number is treated: both readings are
	// accepted (left out of the aggregate, or counted as 0). Every numeric value must be aggregated.
	var numeric, zeroed []string
	for _, x := range valid {
		if isNumeric(x) {
			numeric = append(numeric, x)
			zeroed = append(zeroed, x)
		} else {
			zeroed = append(zeroed, "0")
		}
	}
	if len(numeric) == 0 {
		// nothing numeric to aggregate: the statement does not define the value - but the batch met its response
		// threshold, so it "appends exactly one value", stamped with the block time, whatever that value is
		if eqVals(got, f.Vals) {
			fs = append(fs, mc.F("C17/value-missing/threshold-met/no-numeric-answer", "%s: no value was appended (values still %s)", desc, showVals(got)))
		} else if len(got) == 0 || got[0].T != t.UnixNano() || !eqVals(got[1:], trim(f.Vals, f.Hist-1)) {
			fs = append(fs, mc.F("C17/history-mismatch/after-batch", "%s: values were %s, stored %s (expected one new value stamped %s in front)", desc, showVals(f.Vals), showVals(got), t.UTC().Format(time.RFC3339Nano)))
		}
		return fs
	}
	cands := []cand{{aggregate(f.Agg, numeric), numeric}}
	if len(zeroed) > len(numeric) {
		if z := aggregate(f.Agg, zeroed); z != cands[0].want {
			cands = append(cands, cand{z, zeroed})
		}
	}
	var wants []string
	headOK := false
	for _, c := range cands {
		wants = append(wants, c.want)
		if eqVals(got, trim(append([]val{{c.want, t.UnixNano()}}, f.Vals...), f.Hist)) {
			return fs
		}
		if len(got) > 0 && got[0].Data == c.want {
			headOK = true
		}
	}
	exp := trim(append([]val{{cands[0].want, t.UnixNano()}}, f.Vals...), f.Hist)
	shape := len(got) == len(exp) && len(got) > 0 && eqVals(got[1:], exp[1:])
	switch {
	case eqVals(got, f.Vals):
		fs = append(fs, mc.F("C17/value-missing/threshold-met/"+f.Agg, "%s: no value was appended; expected %s, stored %s", desc, showVals(exp), showVals(got)))
	case shape && got[0].T == exp[0].T:
		fs = append(fs, mc.F("C17/aggregate-mismatch/"+f.Agg+"/"+classify(f.Agg, cands, got[0].Data),
			"%s: expected value %s, stored %s", desc, strings.Join(wants, " (or, counting non-numeric fields as 0) "), got[0].Data))
	case shape && headOK:
		fs = append(fs, mc.F("C17/timestamp-mismatch/"+how, "%s: value stamped %s, block time of completion %s",
			desc, time.Unix(0, got[0].T).UTC().Format(time.RFC3339Nano), t.UTC().Format(time.RFC3339Nano)))
	default:
		fs = append(fs, mc.F("C17/history-mismatch/after-batch", "%s: values were %s; expected %s, stored %s", desc, showVals(f.Vals), showVals(exp), showVals(got)))
	}
	return fs
}

// cand is one admissible aggregate together with the inputs it was computed from.
type cand struct {
	want   string
	inputs []string
}

var two44 = new(big.Rat).SetInt(new(big.Int).Lsh(big.NewInt(1), 44))

// ulp64 is the spacing of IEEE-754 binary64 numbers at the magnitude of x (|x| >= 1).
func ulp64(x *big.Rat) *big.Rat {
	ax := new(big.Rat).Abs(x)
	ip := new(big.Int).Quo(ax.Num(), ax.Denom())
	e := ip.BitLen() - 1 // 2^e <= |x| < 2^(e+1)
	if e < 0 {
		e = 0
	}
	if e >= 52 {
		return new(big.Rat).SetInt(new(big.Int).Lsh(big.NewInt(1), uint(e-52)))
	}
	return new(big.Rat).SetFrac(big.NewInt(1), new(big.Int).Lsh(big.NewInt(1), uint(52-e)))
}

// floatRoundingExplains reports whether |exact - got| is what binary64 arithmetic loses when averaging the
// inputs: some input has magnitude >= 2^44 (so fewer than 8 exact binary fraction digits remain) and the
// deviation is at most 2 ulp at the largest magnitude involved (inputs, their sum, the result).
func floatRoundingExplains(c cand, got string) bool {
	if !isNumeric(got) {
		return false
	}
	largest := new(big.Rat)
	sum := new(big.Rat)
	for _, x := range c.inputs {
		r := rat(x)
		sum.Add(sum, r)
		if a := new(big.Rat).Abs(r); a.Cmp(largest) > 0 {
			largest = a
		}
	}
	if largest.Cmp(two44) < 0 {
		return false
	}
	for _, r := range []*big.Rat{sum, rat(c.want)} {
		if a := new(big.Rat).Abs(r); a.Cmp(largest) > 0 {
			largest = a
		}
	}
	diff := new(big.Rat).Sub(rat(c.want), rat(got))
	diff.Abs(diff)
	return diff.Cmp(new(big.Rat).Mul(big.NewRat(2, 1), ulp64(largest))) <= 0
}

// classify names the cause of a wrong aggregate so that each defect keeps its own signature:
//   - all-negative-inputs (max): a maximum of negative numbers stored as zero;
//   - not-8-decimals: the stored text is not a decimal with exactly 8 fractional digits;
//   - precision-lost-on-large-magnitude (avg): explained by binary64 rounding, see floatRoundingExplains;
//   - last-decimal-rounding: off by at most one unit of the eighth decimal;
//   - wrong-value: anything else.
func classify(agg string, cands []cand, got string) string {
	if agg == "max" && len(cands) == 1 && got == "0.00000000" {
		allNeg := true
		for _, x := range cands[0].inputs {
			if rat(x).Sign() >= 0 {
				allNeg = false
			}
		}
		if allNeg {
			return "all-negative-inputs"
		}
	}
	if !isNumeric(got) || !strings.Contains(got, ".") || len(got)-strings.Index(got, ".")-1 != 8 {
		return "not-8-decimals"
	}
	if agg == "avg" {
		for _, c := range cands {
			if floatRoundingExplains(c, got) {
				return "precision-lost-on-large-magnitude"
			}
		}
	}
	for _, c := range cands {
		diff := new(big.Rat).Sub(rat(c.want), rat(got))
		if diff.Abs(diff).Cmp(big.NewRat(1, 100_000_000)) <= 0 {
			return "last-decimal-rounding"
		}
	}
	return "wrong-value"
}

// oneBlock advances one block and updates the reference: expiry of open batches in the end-blocker that
// just ran, then batches the end-blocker opened (read from the service queries).
func (d *Driver) oneBlock(e *mc.Env, s *mc.State) []mc.Finding {
	m := s.Model.(*model)
	endH, endT := s.Ctx.BlockHeight(), s.Ctx.BlockTime()
	bo := s.NextBlock(e, blockDT)
	fs := mc.BlockPanicFindings("C17", bo)
	for _, n := range m.names() {
		f := m.feeds[n]
		if b := f.Batch; b != nil && !b.Done && b.Expiry == endH {
			fs = append(fs, d.complete(e, s, f, endT, "at-expiry")...)
		} else if got := d.stored(e, s, n); !eqVals(got, f.Vals) {
			fs = append(fs, mc.F("C17/values-changed/in-block-without-batch-completion", "feed %s: values were %s, after end-block %d %s", n, showVals(f.Vals), endH, showVals(got)))
			f.Vals = got
		}
		rc := d.svcCtx(e, s, f)
		last := uint64(0)
		if f.Batch != nil {
			last = f.Batch.Counter
		}
		if rc.BatchCounter > last {
			if f.Batch != nil && !f.Batch.Done {
				fs = append(fs, mc.F("C17/model-desync/new-batch-while-open", "feed %s: batch %d opened while batch %d is open in the reference", n, rc.BatchCounter, last))
			}
			nb := &batchM{Counter: rc.BatchCounter, ThrStart: f.Thr, Expiry: endH + d.V.Timeout, Req: map[string]string{}, Resp: map[string]string{}}
			rr, err := e.Service.RequestsByReqCtx(s.Ctx, &servicetypes.QueryRequestsByReqCtxRequest{RequestContextId: f.CtxID, BatchCounter: rc.BatchCounter})
			if err == nil {
				for _, r := range rr.Requests {
					p := provName(r.Provider)
					nb.Order = append(nb.Order, p)
					nb.Req[p] = r.Id
					nb.Expiry = r.ExpirationHeight
				}
			}
			f.Batch = nb
		}
	}
	return fs
}

func (d *Driver) Apply(e *mc.Env, s *mc.State, op mc.Op) []mc.Finding {
	od := op.Data.(opData)
	m := s.Model.(*model)
	var fs []mc.Finding
	switch od.kind {
	case "block":
		return d.oneBlock(e, s)
	case "jump":
		for i := 0; i < od.n; i++ {
			fs = append(fs, d.oneBlock(e, s)...)
		}
		return fs
	case "drain":
		s.Deliver(e, op.Name, mc.Send(mc.Addr("C"), mc.Addr(sink), mc.CI(denom, e.Bal(s.Ctx, mc.Addr("C"), denom))))
		return nil
	case "refill":
		s.Deliver(e, op.Name, mc.Send(mc.Addr(sink), mc.Addr("C"), mc.C(denom, 100)))
		return nil
	case "create":
		sp := od.spec
		_, exists := m.feeds[sp.Name]
		out := s.Deliver(e, op.Name, d.createMsg(sp))
		if !out.OK {
			return nil
		}
		if exists {
			old := m.feeds[sp.Name]
			fs = append(fs, mc.F("C17/unauthorized/create-over-existing-feed", "%s succeeded although feed %s (creator %s) exists", op.Name, sp.Name, old.Creator))
		}
		d.adopt(e, s, sp)
		return fs
	case "respond":
		f := m.feeds[od.feed]
		b := f.Batch
		msg := &servicetypes.MsgRespondService{RequestId: b.Req[od.prov], Provider: mc.Addr(od.prov).String(), Result: resultOK,
			Output: outputOf(od.value)}
		if od.value == errLabel {
			msg.Result, msg.Output = resultErr, ""
		}
		out := s.Deliver(e, op.Name, msg)
		if !out.OK {
			return nil
		}
		b.Resp[od.prov] = od.value
		if len(b.Resp) == len(b.Order) {
			fs = append(fs, d.complete(e, s, f, s.Ctx.BlockTime(), "by-last-response")...)
		} else if got := d.stored(e, s, f.Name); !eqVals(got, f.Vals) {
			fs = append(fs, mc.F("C17/values-changed/response-before-batch-completion", "%s: batch %d has %d of %d answers; values were %s, now %s",
				op.Name, b.Counter, len(b.Resp), len(b.Order), showVals(f.Vals), showVals(got)))
			f.Vals = got
		}
		return fs
	case "start", "stranger-start":
		out := s.Deliver(e, op.Name, &oracletypes.MsgStartFeed{FeedName: od.feed, Creator: mc.Addr(od.who).String()})
		return d.authVerdict(op, od, out, "start")
	case "pause", "stranger-pause":
		out := s.Deliver(e, op.Name, &oracletypes.MsgPauseFeed{FeedName: od.feed, Creator: mc.Addr(od.who).String()})
		return d.authVerdict(op, od, out, "pause")
	case "service-pause", "service-start", "service-kill":
		f := m.feeds[od.feed]
		var msg sdk.Msg
		switch od.kind {
		case "service-pause":
			msg = &servicetypes.MsgPauseRequestContext{RequestContextId: f.CtxID, Consumer: mc.Addr(od.who).String()}
		case "service-start":
			msg = &servicetypes.MsgStartRequestContext{RequestContextId: f.CtxID, Consumer: mc.Addr(od.who).String()}
		default:
			msg = &servicetypes.MsgKillRequestContext{RequestContextId: f.CtxID, Consumer: mc.Addr(od.who).String()}
		}
		// not a feed operation: whether it is accepted is the service module's business; its effect on the
		// mirror is judged by the state invariant
		s.Deliver(e, op.Name, msg)
		return nil
	case "edit-history", "stranger-edit-history":
		f := m.feeds[od.feed]
		out := s.Deliver(e, op.Name, &oracletypes.MsgEditFeed{FeedName: od.feed, Description: oracletypes.DoNotModify, LatestHistory: uint64(od.hist), Creator: mc.Addr(od.who).String()})
		if fs = d.authVerdict(op, od, out, "edit"); !out.OK {
			return fs
		}
		if od.who != f.Creator {
			// reported above; adopt what is stored so that the search goes on
			f.Vals = d.stored(e, s, f.Name)
			if r, err := e.Oracle.Feed(s.Ctx, &oracletypes.QueryFeedRequest{FeedName: f.Name}); err == nil && r.Feed.Feed != nil {
				f.Hist = int(r.Feed.Feed.LatestHistory)
			}
			return fs
		}
		dir := "same"
		if od.hist < f.Hist {
			dir = "shrink"
		} else if od.hist > f.Hist {
			dir = "grow"
		}
		exp := trim(f.Vals, od.hist)
		got := d.stored(e, s, f.Name)
		if !eqVals(got, exp) {
			fs = append(fs, mc.F("C17/history-mismatch/after-edit/"+dir, "%s (latest_history %d -> %d): values were %s; the newest %d are %s, stored %s",
				op.Name, f.Hist, od.hist, showVals(f.Vals), od.hist, showVals(exp), showVals(got)))
		}
		f.Hist = od.hist
		f.Vals = got
		return fs
	case "edit-threshold", "edit-providers", "stranger-edit-providers":
		f := m.feeds[od.feed]
		out := s.Deliver(e, op.Name, &oracletypes.MsgEditFeed{FeedName: od.feed, Description: oracletypes.DoNotModify, Providers: addrs(od.provs),
			ResponseThreshold: uint32(od.thr), Creator: mc.Addr(od.who).String()})
		if fs = d.authVerdict(op, od, out, "edit"); !out.OK {
			return fs
		}
		if len(od.provs) > 0 {
			f.Providers = append([]string{}, od.provs...)
		}
		if od.thr > 0 {
			f.Thr = od.thr
		}
		if got := d.stored(e, s, f.Name); !eqVals(got, f.Vals) {
			fs = append(fs, mc.F("C17/values-changed/edit-of-providers-or-threshold", "%s: values were %s, now %s", op.Name, showVals(f.Vals), showVals(got)))
			f.Vals = got
		}
		return fs
	}
	panic("unknown op " + op.Name)
}

// authVerdict: a start / pause / edit signed by anybody but the feed's creator must not succeed.
func (d *Driver) authVerdict(op mc.Op, od opData, out mc.Outcome, what string) []mc.Finding {
	if out.OK && strings.HasPrefix(od.kind, "stranger-") {
		field := ""
		if what == "edit" {
			field = "/" + strings.TrimPrefix(od.kind, "stranger-edit-")
		}
		return []mc.Finding{mc.F("C17/unauthorized/"+what+field+"/stranger-succeeded", "%s signed by %s succeeded; only the creator may %s the feed", op.Name, od.who, what)}
	}
	return nil
}

func (d *Driver) listed(e *mc.Env, s *mc.State, state string) (map[string]int, error) {
	r, err := e.Oracle.Feeds(s.Ctx, &oracletypes.QueryFeedsRequest{State: state})
	if err != nil {
		return nil, err
	}
	out := map[string]int{}
	for _, fc := range r.Feeds {
		if fc.Feed != nil {
			out[fc.Feed.FeedName]++
		}
	}
	return out, nil
}

func (d *Driver) Check(e *mc.Env, s *mc.State) []mc.Finding {
	m := s.Model.(*model)
	var fs []mc.Finding
	all, err0 := d.listed(e, s, "")
	running, err1 := d.listed(e, s, "running")
	paused, err2 := d.listed(e, s, "paused")
	if err0 != nil || err1 != nil || err2 != nil {
		return append(fs, mc.F("C17/feeds-query-failed", "%v %v %v", err0, err1, err2))
	}
	total := 0
	for _, c := range all {
		total += c
	}
	if total != len(m.feeds) {
		fs = append(fs, mc.F("C17/feed-list-differs", "feeds query lists %v, created on the path: %v", all, m.names()))
	}
	nontrivial := false
	for _, n := range m.names() {
		f := m.feeds[n]
		if all[n] != 1 {
			fs = append(fs, mc.F("C17/feed-list-differs", "feed %s listed %d times by the feeds query", n, all[n]))
		}
		r, err := e.Oracle.Feed(s.Ctx, &oracletypes.QueryFeedRequest{FeedName: n})
		if err != nil || r.Feed.Feed == nil {
			fs = append(fs, mc.F("C17/feed-vanished", "feed %s: %v", n, err))
			continue
		}
		fc := r.Feed
		rc := d.svcCtx(e, s, f)
		// mirror: the feed's state (both the state reported with the feed and the running/paused index behind
		// the by-state listing) equals the state of its request context
		idx := "none"
		switch {
		case running[n] > 0 && paused[n] > 0:
			idx = "both"
		case running[n] > 0:
			idx = "running"
		case paused[n] > 0:
			idx = "paused"
		}
		if want := strings.ToLower(rc.State.String()); idx != want {
			fs = append(fs, mc.F("C17/state-mirror/listed-"+idx+"/context-"+want, "feed %s is listed under %s by the by-state feeds query; its request context %s is %s",
				n, idx, f.CtxID, rc.State))
		}
		if fc.State != rc.State {
			fs = append(fs, mc.F("C17/state-mirror/feed-query-state-differs", "feed %s: feed query reports %s, request context is %s", n, fc.State, rc.State))
		}
		// creator-controlled: the configuration is what the creator last set
		if fc.Feed.Creator != mc.Addr(f.Creator).String() {
			fs = append(fs, mc.F("C17/config-differs/creator", "feed %s creator %s, created by %s", n, fc.Feed.Creator, mc.Addr(f.Creator)))
		}
		if fc.Feed.AggregateFunc != f.Agg {
			fs = append(fs, mc.F("C17/config-differs/aggregate", "feed %s aggregate %s, created with %s", n, fc.Feed.AggregateFunc, f.Agg))
		}
		if int(fc.Feed.LatestHistory) != f.Hist {
			fs = append(fs, mc.F("C17/config-differs/latest-history", "feed %s latest_history %d, the creator set %d", n, fc.Feed.LatestHistory, f.Hist))
		}
		if strings.Join(fc.Providers, ",") != strings.Join(addrs(f.Providers), ",") {
			fs = append(fs, mc.F("C17/config-differs/providers", "feed %s providers %v, the creator set %v", n, fc.Providers, f.Providers))
		}
		if int(fc.ResponseThreshold) != f.Thr {
			fs = append(fs, mc.F("C17/config-differs/threshold", "feed %s threshold %d, the creator set %d", n, fc.ResponseThreshold, f.Thr))
		}
		// values: exactly the reference list, bounded by latest_history, newest first
		got := d.stored(e, s, n)
		if len(got) > int(fc.Feed.LatestHistory) {
			fs = append(fs, mc.F("C17/history-exceeds-latest-history", "feed %s holds %d values %s with latest_history %d", n, len(got), showVals(got), fc.Feed.LatestHistory))
		}
		for i := 1; i < len(got); i++ {
			if got[i-1].T <= got[i].T {
				fs = append(fs, mc.F("C17/values-not-newest-first", "feed %s values %s", n, showVals(got)))
				break
			}
		}
		if !eqVals(got, f.Vals) {
			fs = append(fs, mc.F("C17/values-differ-from-reference", "feed %s stores %s, reference %s", n, showVals(got), showVals(f.Vals)))
		}
		// reference sanity: an open batch in the reference is a running batch of the context
		if b := f.Batch; b != nil && rc.BatchCounter == b.Counter {
			if done := rc.BatchState == servicetypes.BATCHCOMPLETED; done != b.Done {
				fs = append(fs, mc.F("C17/model-desync/batch-state", "feed %s batch %d: context says %s, reference done=%v", n, b.Counter, rc.BatchState, b.Done))
			}
		} else if b != nil || rc.BatchCounter != 0 {
			fs = append(fs, mc.F("C17/model-desync/batch-counter", "feed %s: context batch counter %d, reference %+v", n, rc.BatchCounter, b))
		}
		if len(got) >= 1 {
			nontrivial = true
		}
	}
	s.Nontrivial = nontrivial
	return fs
}
