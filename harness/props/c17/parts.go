package c17

import "verif/harness/mc"

var allValues = []string{"-5", "-0.5", "0", "3", "1e15", "abc", objLabel, errLabel}

func variants() []Variant {
	var vs []Variant
	// one feed per aggregate function, three providers, every response set over the full value alphabet
	for _, agg := range []string{"max", "min", "avg"} {
		vs = append(vs, Variant{Name: "values-" + agg, Timeout: 2, Jump: true, Values: allValues,
			Feeds:  []FeedSpec{{Name: "f1", Creator: "C", Agg: agg, Hist: 2, Thr: 2, Providers: allProviders, Started: true}},
			DepthQ: 5, DepthT: 7})
	}
	// history trimming and latest_history edits: one provider, a value per block pair
	vs = append(vs, Variant{Name: "history", Timeout: 1, Values: []string{"3", "-5", "0", objLabel},
		Feeds:    []FeedSpec{{Name: "f1", Creator: "C", Agg: "avg", Hist: 2, Thr: 1, Providers: []string{"P1"}, Started: true}},
		EditHist: []int{1, 2, 3}, PauseStart: true,
		DepthQ: 8, DepthT: 10})
	// state mirroring and authorisation: two feeds of different creators, pause/start/edit by creator and stranger,
	// creator running out of funds
	vs = append(vs, Variant{Name: "lifecycle", Timeout: 2, Jump: true, Values: []string{"3", "-5"},
		Feeds: []FeedSpec{
			{Name: "f1", Creator: "C", Agg: "min", Hist: 2, Thr: 1, Providers: []string{"P1", "P2"}, Started: true},
			{Name: "f2", Creator: "X", Agg: "max", Hist: 1, Thr: 2, Providers: []string{"P2", "P3"}},
		},
		PauseStart: true, Stranger: true, EditHist: []int{1}, EditCtx: true, Drain: true,
		DepthQ: 4, DepthT: 5})
	// feed creation in the alphabet (colliding names, both creators)
	var creates []FeedSpec
	for _, agg := range []string{"max", "min", "avg"} {
		for _, h := range []int{1, 2} {
			for _, t := range []int{1, 2} {
				creates = append(creates, FeedSpec{Name: "f1", Creator: "C", Agg: agg, Hist: h, Thr: t, Providers: []string{"P1", "P2"}})
			}
		}
	}
	creates = append(creates,
		// spellings of an aggregate function that are not its name: a feed must either be refused or aggregate
		FeedSpec{Name: "f1", Creator: "C", Agg: "MAX", Hist: 1, Thr: 1, Providers: []string{"P1", "P2"}},
		FeedSpec{Name: "f1", Creator: "C", Agg: " avg", Hist: 1, Thr: 1, Providers: []string{"P1", "P2"}},
		FeedSpec{Name: "f1", Creator: "X", Agg: "min", Hist: 1, Thr: 1, Providers: []string{"P3"}},
		FeedSpec{Name: "f11", Creator: "X", Agg: "max", Hist: 1, Thr: 1, Providers: []string{"P3"}},
	)
	vs = append(vs, Variant{Name: "create", Timeout: 2, Jump: true, Values: []string{"-5", "3"}, Creates: creates,
		PauseStart: true, Stranger: true,
		DepthQ: 5, DepthT: 7})
	return vs
}

const rule = "state in which at least one feed holds a stored value; distinct by canonical hash of oracle+service+bank stores, header, tx counter and reference model"

// Variants exposes the explorations for reuse by the cross-cutting checks (C11, C12).
func Variants() []Variant { return variants() }

// Parts of the C17 check.
func Parts() []mc.Part {
	var ps []mc.Part
	for _, v := range variants() {
		// conformance: signed transactions through FinalizeBlock/Commit of the full app; the seam runs under the
		// signed bytes because feed contexts and their requests are identified by hashes of the transaction bytes
		ps = append(ps, mc.ExplorePartC(v.Name, New(v), v.DepthQ, v.DepthT, true, rule,
			&mc.ConfOpts{Stores: []string{"oracle", "service"}, MaxPaths: 60, SignInSeam: true, Depth: 3}))
	}
	return ps
}
