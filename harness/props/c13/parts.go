// Package c13 assembles the begin/end-block safety and queue-hygiene explorations from the module drivers
// run in mode "C13": block panics, "handled exactly once at its due height" (the drivers' due-processing
// oracles) and raw-queue-versus-object hygiene in every reached state.
package c13

import (
	sdk "github.com/cosmos/cosmos-sdk/types"

	"verif/harness/mc"
	"verif/harness/props/c18"
	"verif/harness/props/farm"
	"verif/harness/props/htlc"
	"verif/harness/props/service"
)

const rule = "as in the module driver; every state additionally compares the raw time-bound queues with the objects they refer to"

// Parts of C13.
func Parts() []mc.Part {
	var ps []mc.Part
	ps = append(ps, htlc.Parts("C13")()...)
	ps = append(ps,
		mc.ExplorePart("farm-creator-ops", farm.New(farm.Variant{Name: "creator-ops", Farmers: []string{"A", "B"}, StakeAmts: []int64{1, 3},
			RPB: sdk.NewCoins(mc.C("eth", 3)), Total: sdk.NewCoins(mc.C("eth", 10)), Creator: true, Mode: "C13"}), 6, 7, false, rule),
		mc.ExplorePart("farm-two-denoms-future-start", farm.New(farm.Variant{Name: "two-denoms-future-start", Farmers: []string{"A"}, StakeAmts: []int64{2},
			RPB: sdk.NewCoins(mc.C("eth", 2), mc.C("btc", 3)), Total: sdk.NewCoins(mc.C("eth", 7), mc.C("btc", 7)),
			StartDelta: 2, Creator: true, Mode: "C13"}), 6, 8, false, rule),
		// a budget exhausted exactly at the end height: the end-blocker has nothing left to refund
		mc.ExplorePart("farm-exact-budget", farm.New(farm.Variant{Name: "exact-budget", Farmers: []string{"A", "B"}, StakeAmts: []int64{1, 2},
			RPB: sdk.NewCoins(mc.C("eth", 2)), Total: sdk.NewCoins(mc.C("eth", 4)), Mode: "C13"}), 6, 8, false, rule),
		// heights are the queue keys: this chain starts at 252 and the pool ends at 255 / 256
		mc.ExplorePart("farm-creator-ops-at-height-252", farm.New(farm.Variant{Name: "creator-ops-at-height-252", Farmers: []string{"A", "B"}, StakeAmts: []int64{1},
			RPB: sdk.NewCoins(mc.C("eth", 3)), Total: sdk.NewCoins(mc.C("eth", 10)), Creator: true, Mode: "C13", InitialHeight: 252}), 6, 8, false, rule),
	)
	ps = append(ps, service.Parts("C13")()...)
	for _, v := range []c18.Variant{c18.QueueVariant(), c18.OracleVariant(), c18.BoundaryVariant()} {
		mk := c18.New(v)
		ps = append(ps, mc.ExplorePart("random-"+v.Name, func() (*mc.Env, mc.Driver) {
			e, d := mk()
			return e, &randomHygiene{inner: d}
		}, 6, 8, true, rule))
	}
	return ps
}

// randomHygiene runs the random driver in block-safety mode: its own verdicts about due processing are
// adopted under C13 signatures and the raw pending queue is compared with the chain height in every state.
type randomHygiene struct{ inner mc.Driver }

var adoptRandom = map[string]string{
	"C18/block-panic": "C13/block-panic",
	"C18/not-fulfilled-in-block-after-due-height": "C13/random/due-processing/not-fulfilled-in-block-after-due-height",
	"C18/fulfilled-before-block-after-due-height": "C13/random/due-processing/fulfilled-before-block-after-due-height",
	"C18/still-in-pending-queue-after-processing": "C13/random/due-processing/still-in-pending-queue-after-processing",
}

func (r *randomHygiene) ID() string                             { return "C13/" + r.inner.ID() }
func (r *randomHygiene) Stores() []string                       { return r.inner.Stores() }
func (r *randomHygiene) Init(e *mc.Env) *mc.State               { return r.inner.Init(e) }
func (r *randomHygiene) Enabled(e *mc.Env, s *mc.State) []mc.Op { return r.inner.Enabled(e, s) }
func (r *randomHygiene) Apply(e *mc.Env, s *mc.State, op mc.Op) []mc.Finding {
	return mc.Select(r.inner.Apply(e, s, op), "C13", adoptRandom)
}

func (r *randomHygiene) Check(e *mc.Env, s *mc.State) []mc.Finding {
	fs := mc.Select(r.inner.Check(e, s), "C13", adoptRandom)
	h := s.Ctx.BlockHeight()
	// the begin-block of height h drains the queue of height h-1: nothing older may remain
	for _, q := range mc.QueueEntries(s.Ctx, e, "random", 0x02) {
		if q.Height < h {
			fs = append(fs, mc.F("C13/queue/random/entry-in-the-past", "request queued for height %d still present in block %d (the begin-block of %d has run)", q.Height, h, q.Height+1))
		}
	}
	return fs
}
