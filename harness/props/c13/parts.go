// Package c13 assembles the begin/end-block safety and queue-hygiene explorations from the module drivers
// run in mode "C13": block panics, "handled exactly once at its due height" (the drivers' due-processing
// oracles) and raw-queue-versus-object hygiene in every reached state.
package c13

import (
	sdk "github.com/cosmos/cosmos-sdk/types"

	"verif/harness/mc"
	"verif/harness/props/farm"
	"verif/harness/props/htlc"
	"verif/harness/props/service"
)

const rule = "as in the module driver; every state additionally compares the raw time-bound queues with the objects they refer to"

// Parts of C13.
func Parts() []mc.Part {
	var ps []mc.Part
	ps = append(ps, htlc.Parts("C13")()...)
	ps = append(ps,
		mc.ExplorePart("farm-creator-ops", farm.New(farm.Variant{Name: "creator-ops", Farmers: []string{"A", "B"}, StakeAmts: []int64{1, 3},
			RPB: sdk.NewCoins(mc.C("eth", 3)), Total: sdk.NewCoins(mc.C("eth", 10)), Creator: true, Mode: "C13"}), 6, 8, false, rule),
		mc.ExplorePart("farm-two-denoms-future-start", farm.New(farm.Variant{Name: "two-denoms-future-start", Farmers: []string{"A"}, StakeAmts: []int64{2},
			RPB: sdk.NewCoins(mc.C("eth", 2), mc.C("btc", 3)), Total: sdk.NewCoins(mc.C("eth", 7), mc.C("btc", 7)),
			StartDelta: 2, Creator: true, Mode: "C13"}), 6, 8, false, rule),
	)
	ps = append(ps, service.Parts("C13")()...)
	return ps
}
