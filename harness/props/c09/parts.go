package c09

import (
	"fmt"

	"verif/harness/mc"
)

var allMints = []MintSpec{{"1", "self"}, {"1", "other"}, {"room", "self"}, {"room", "other"}, {"room+1", "self"}}

func variants() []Variant {
	var vs []Variant

	// identity: two symbols x min units, exact duplicates, re-use of one of the two names with a fresh other
	// name, the crossed case (symbol = another token's min unit and vice versa), and collisions with the
	// native token; handovers and a few owner/stranger operations so that identities are probed on tokens that
	// moved on.
	vs = append(vs, Variant{
		Name: "identity",
		Issues: []IssueSpec{
			{"tka", "uta", 0, 2, 3, true},
			{"tkaa", "utaa", 0, 0, 2, false},
			{"tka", "utc", 0, 2, 3, true}, // symbol of the first, fresh min unit
			{"tkc", "uta", 0, 2, 3, true}, // fresh symbol, min unit of the first
			{"uta", "tka", 0, 2, 3, true}, // crossed with the first
			{"uta", "uta", 0, 2, 3, true}, // single-name token (like the native one) on the first's min unit
			{"tka", "tka", 0, 2, 3, true}, // single-name token on the first's symbol
			{nativeSymbol, "utd", 0, 2, 3, true},
			{"tkd", nativeMinUnit, 0, 2, 3, true},
		},
		IssueBy:  []string{"A", "B"},
		EditName: true,
		Mints:    []MintSpec{{"1", "self"}},
		Burns:    []string{"1"},
		Transfer: true,
		Quick:    6, Thorough: 7,
	})

	// governance registers an ERC20 contract for an IBC asset under a symbol that is new, taken, or differs from a
	// taken one only in its case
	vs = append(vs, Variant{
		Name:     "identity-erc20-registration",
		Issues:   []IssueSpec{{"tka", "uta", 0, 2, 3, true}, {"tkaa", "utaa", 0, 0, 2, false}},
		IssueBy:  []string{"A"},
		EditName: true,
		Mints:    []MintSpec{{"1", "self"}},
		Transfer: true,
		Deploy:   true,
		Quick:    4, Thorough: 5,
	})

	// burns and conversions to / from the ERC20 form side by side: only burns are tallied
	vs = append(vs, Variant{
		Name:    "burn-tally-with-erc20-conversions",
		Issues:  []IssueSpec{{"tka", "uta", 0, 2, 3, true}},
		IssueBy: []string{"A"},
		Mints:   []MintSpec{{"1", "self"}},
		Burns:   []string{"1"},
		Convert: true,
		Quick:   6, Thorough: 8,
	})

	// a token that came with the genesis and names no owner: every owner-only message on it, by anybody, must fail
	vs = append(vs, Variant{
		Name:         "ownerless-genesis-token",
		Issues:       []IssueSpec{{"tka", "uta", 0, 2, 3, true}},
		IssueBy:      []string{"A"},
		EditNothing:  true,
		EditMax:      []uint64{3},
		EditMintable: true,
		EditName:     true,
		Mints:        []MintSpec{{"1", "self"}, {"1", "other"}},
		Burns:        []string{"1"},
		Transfer:     true,
		Ownerless:    true,
		Quick:        5, Thorough: 6,
	})

	// cap: one symbol with two parameterisations (exact duplicates of the identity, different supplies) plus a
	// second token, the full edit / mint / burn / handover alphabet by owner and stranger, per scale.
	for _, sc := range []uint32{0, 1, 18} {
		v := Variant{
			Name: fmt.Sprintf("cap-scale%d", sc),
			Issues: []IssueSpec{
				{"tka", "uta", sc, 2, 3, true},
				{"tka", "uta", sc, 2, 2, false},
				{"tkaa", "utaa", sc, 0, 2, true},
				{"tkaa", "utc", sc, 3, 2, true},  // initial above maximum: never acceptable
				{"tkaa", "utd", sc, 3, 2, false}, // the same for a token that can never be minted again
			},
			IssueBy:      []string{"A"},
			EditNothing:  true,
			EditMax:      []uint64{1, 2, 3},
			EditMintable: true,
			EditName:     sc == 0,
			Mints:        allMints,
			Burns:        []string{"1", "all"},
			Transfer:     true,
			Quick:        6, Thorough: 7,
		}
		vs = append(vs, v)
	}

	// fees: every combination of boundary tax rates and mint-fee ratios, with a base fee that does not divide
	// evenly and one four-letter symbol (fee factor != 1).
	for _, tax := range []string{"0", "0.4", "1"} {
		for _, ratio := range []string{"0", "0.4", "1"} {
			vs = append(vs, Variant{
				Name: fmt.Sprintf("fees-tax%s-mint%s", tax, ratio),
				Issues: []IssueSpec{
					{"tka", "uta", 1, 2, 3, true},
					{"tkaa", "utaa", 0, 0, 2, true},
				},
				IssueBy:  []string{"A", "B"},
				Mints:    []MintSpec{{"1", "self"}, {"room", "other"}},
				Burns:    []string{"1"},
				Transfer: true,
				Tax:      tax, MintRatio: ratio, BaseFee: 60001,
				Quick: 6, Thorough: 8,
			})
		}
	}
	return vs
}

const rule = "state reached through at least one successful edit, mint, burn or ownership handover of an issued token; distinct by canonical hash of token+bank stores, header and reference model"

// Variants exposes the explorations for reuse by the cross-cutting checks (C11, C12).
func Variants() []Variant { return variants() }

// Parts of the C09 check.
func Parts() []mc.Part {
	var ps []mc.Part
	for _, v := range variants() {
		// (fee variants set parameters through the gov authority in their fixture: not expressible as signed txs, skipped there)
		ps = append(ps, mc.ExplorePartC(v.Name, mc.WithRestart(New(v), "token"), v.Quick, v.Thorough, false, rule,
			&mc.ConfOpts{Stores: []string{"token"}, SkipDenoms: map[string]bool{"stake": true}, MaxPaths: 60}))
	}
	return ps
}
