// Package c09 drives the token module for property C09: a symbol and a minimum unit each identify at
// most one token forever; only the current owner edits, mints or hands over; a non-mintable token is
// never minted; the circulating amount never exceeds max supply x 10^scale through issue / mint / edit /
// burn and the maximum is never lowered below what circulates; burns are tallied exactly; the issue /
// mint fee charged to the owner is split between the fee pool and burning, nothing stays in the module
// account.
package c09

import (
	"github.com/cosmos/cosmos-sdk/codec"
	"github.com/ethereum/go-ethereum/common"
	"verif/harness/envseam"

	"encoding/json"

	"bytes"
	"fmt"
	"math/big"
	"sort"
	"strings"

	sdkmath "cosmossdk.io/math"
	sdk "github.com/cosmos/cosmos-sdk/types"
	authtypes "github.com/cosmos/cosmos-sdk/x/auth/types"

	tokentypes "mods.irisnet.org/modules/token/types"
	v1 "mods.irisnet.org/modules/token/types/v1"

	"verif/harness/mc"
)

const (
	feeDenom = "stake"
	// the native token of the default genesis: symbol = min unit = "stake"
	nativeSymbol  = "stake"
	nativeMinUnit = "stake"
	name0         = "name0"
	name1         = "name1"
)

var actors = []string{"A", "B"}

func other(a string) string {
	if a == "A" {
		return "B"
	}
	return "A"
}

func pow10(scale uint32) *big.Int {
	return new(big.Int).Exp(big.NewInt(10), big.NewInt(int64(scale)), nil)
}

// IssueSpec is one element of the issue alphabet.
type IssueSpec struct {
	Symbol, MinUnit string
	Scale           uint32
	Initial, Max    uint64
	Mintable        bool
}

func (i IssueSpec) label() string {
	mt := "f"
	if i.Mintable {
		mt = "t"
	}
	return fmt.Sprintf("%s/%s,s%d,i%d,m%d,%s", i.Symbol, i.MinUnit, i.Scale, i.Initial, i.Max, mt)
}

// MintSpec is one (amount kind, recipient) pair of the mint alphabet.
type MintSpec struct{ Amt, To string } // Amt in {"1","room","room+1"}, To in {"self","other"}

// Variant fixes the parameters and the alphabet of one exploration.
type Variant struct {
	Name         string
	Issues       []IssueSpec
	IssueBy      []string
	EditNothing  bool
	EditMax      []uint64
	EditMintable bool
	EditName     bool
	Mints        []MintSpec
	Burns        []string // "1", "all"
	Transfer     bool
	// Params set by MsgUpdateParams from the authority in the fixture; empty Tax = keep the genesis defaults
	// (tax 0.4, mint-fee ratio 0.1, base fee 60000stake).
	Tax, MintRatio string
	BaseFee        int64
	// Ownerless: the chain's genesis lists a token "gen" (min unit "ugen", max 5, mintable, nothing issued)
	// without an owner — valid genesis content. Nobody is its current owner, so nobody may edit, mint or hand it over.
	Ownerless bool
	// Deploy: governance may register an ERC20 contract for an asset that arrived over IBC and has no token record
	// yet (min unit "ibc/aa"): that creates a token record under the symbol the message names - a symbol that
	// differs from an issued token's only in its case is another symbol.
	Deploy bool
	// Convert: an issued token may be bound to an ERC20 contract by governance and converted back and forth by its
	// holders; conversions are no burns (the tally must not move) and change the native circulating amount exactly
	Convert         bool
	Quick, Thorough int
}

type tok struct {
	Symbol, MinUnit, Name string
	Scale                 uint32
	Initial, Max          uint64
	Mintable              bool
	Owner                 string   // actor label of the current owner
	Supply                *big.Int // exact expected circulating amount in min units
	IssueFee              *big.Int // what the issuer was charged (fee denom)
}

func (t *tok) cap() *big.Int {
	return new(big.Int).Mul(new(big.Int).SetUint64(t.Max), pow10(t.Scale))
}

type model struct {
	toks    map[string]*tok     // by symbol
	burned  map[string]*big.Int // min unit -> sum of successful burns
	evolved bool                // some successful edit / mint / burn / transfer-owner happened
	// identityBroken: an issue re-using a symbol or min unit was accepted (reported at that step). Two tokens
	// now share a name, the reference model has no meaning any more: the state is terminal and not judged again.
	identityBroken bool
	// bound / erc: tokens with an ERC20 contract, and the amount converted into it (variant Convert)
	bound map[string]bool
	erc   map[string]*big.Int
}

func (m *model) Clone() mc.Model {
	c := &model{toks: map[string]*tok{}, burned: map[string]*big.Int{}, evolved: m.evolved, identityBroken: m.identityBroken}
	for k, t := range m.toks {
		tt := *t
		tt.Supply = new(big.Int).Set(t.Supply)
		tt.IssueFee = new(big.Int).Set(t.IssueFee)
		c.toks[k] = &tt
	}
	for k, v := range m.burned {
		c.burned[k] = new(big.Int).Set(v)
	}
	if m.bound != nil {
		c.bound, c.erc = map[string]bool{}, map[string]*big.Int{}
		for k, v := range m.bound {
			c.bound[k] = v
		}
		for k, v := range m.erc {
			c.erc[k] = new(big.Int).Set(v)
		}
	}
	return c
}

func sortedKeys[V any](m map[string]V) []string {
	ks := make([]string, 0, len(m))
	for k := range m {
		ks = append(ks, k)
	}
	sort.Strings(ks)
	return ks
}

func (m *model) Canon() []byte {
	var b bytes.Buffer
	for _, k := range sortedKeys(m.toks) {
		t := m.toks[k]
		fmt.Fprintf(&b, "t:%s|%s|%s|%d|%d|%d|%v|%s|%s|%s;", t.Symbol, t.MinUnit, t.Name, t.Scale, t.Initial, t.Max, t.Mintable, t.Owner, t.Supply, t.IssueFee)
	}
	for _, k := range sortedKeys(m.burned) {
		fmt.Fprintf(&b, "b:%s=%s;", k, m.burned[k])
	}
	fmt.Fprintf(&b, "ev=%v;idb=%v", m.evolved, m.identityBroken)
	for _, k := range sortedKeys(m.bound) {
		fmt.Fprintf(&b, ";erc:%s=%s", k, m.erc[k])
	}
	return b.Bytes()
}

func (m *model) byMinUnit(u string) *tok {
	for _, k := range sortedKeys(m.toks) {
		if m.toks[k].MinUnit == u {
			return m.toks[k]
		}
	}
	return nil
}

type opData struct {
	kind   string // issue | edit | mint | burn | transfer
	spec   IssueSpec
	sym    string
	actor  string
	what   string // edit: nothing | max | mintable | name ; mint/burn: amount kind
	max    uint64
	to     string
	amt    *big.Int
	target bool // edit mintable: the value submitted
}

// Driver implements mc.Driver.
type Driver struct {
	V     Variant
	tax   *big.Rat
	ratio *big.Rat
	base  *big.Int
}

func rat(s string) *big.Rat {
	r, ok := new(big.Rat).SetString(s)
	if !ok {
		panic("bad rational " + s)
	}
	return r
}

// New returns the constructor for a variant.
func New(v Variant) func() (*mc.Env, mc.Driver) {
	return func() (*mc.Env, mc.Driver) {
		bal := map[string]sdk.Coins{}
		for _, a := range actors {
			// plenty for fees, while the native token (max supply 10^10, scale 0) stays within its own cap
			bal[a] = sdk.NewCoins(mc.C(feeDenom, 1_000_000_000))
		}
		opts := mc.EnvOptions{Balances: bal}
		if v.Ownerless {
			opts.GenesisMutators = map[string]func(cdc codec.Codec, raw json.RawMessage) json.RawMessage{
				tokentypes.ModuleName: func(cdc codec.Codec, raw json.RawMessage) json.RawMessage {
					var g v1.GenesisState
					cdc.MustUnmarshalJSON(raw, &g)
					g.Tokens = append(g.Tokens, v1.Token{Symbol: "gen", Name: "genesis token", Scale: 0, MinUnit: "ugen", InitialSupply: 0, MaxSupply: 5, Mintable: true})
					return cdc.MustMarshalJSON(&g)
				},
			}
		}
		var evm *envseam.EVM
		if v.Convert {
			// the contract side lives in a store of the same multistore (it branches and rolls back with the search)
			evm = &envseam.EVM{}
			opts.EVM = evm
		}
		e := mc.NewEnv(opts)
		if evm != nil {
			evm.Key = e.StoreKey("evidence")
		}
		d := &Driver{V: v, tax: rat("0.4"), ratio: rat("0.1"), base: big.NewInt(60000)}
		if v.Tax != "" {
			d.tax, d.ratio, d.base = rat(v.Tax), rat(v.MintRatio), big.NewInt(v.BaseFee)
		}
		return e, d
	}
}

func (d *Driver) ID() string { return "C09/" + d.V.Name }
func (d *Driver) Stores() []string {
	if d.V.Convert {
		return []string{"token", "bank", "evidence"}
	}
	return []string{"token", "bank"}
}

func (d *Driver) Init(e *mc.Env) *mc.State {
	s := &mc.State{Ctx: mc.Branch(e.Root), Model: &model{toks: map[string]*tok{}, burned: map[string]*big.Int{}}}
	if d.V.Tax != "" {
		p := v1.Params{
			TokenTaxRate:      sdkmath.LegacyMustNewDecFromStr(d.V.Tax),
			IssueTokenBaseFee: mc.C(feeDenom, d.V.BaseFee),
			MintTokenFeeRatio: sdkmath.LegacyMustNewDecFromStr(d.V.MintRatio),
			EnableErc20:       true,
		}
		out := s.Deliver(e, "fx-params", &v1.MsgUpdateParams{Authority: mc.Authority().String(), Params: p})
		if !out.OK {
			panic("fixture: update params failed: " + out.String())
		}
	}
	if d.V.Deploy || d.V.Convert {
		p := e.Token.GetParams(s.Ctx)
		p.EnableErc20 = true
		p.Beacon = "0x00000000000000000000000000000000000000be"
		if out := s.Deliver(e, "fx-erc20-params", &v1.MsgUpdateParams{Authority: mc.Authority().String(), Params: p}); !out.OK {
			panic("fixture: erc20 params: " + out.String())
		}
	}
	if d.V.Ownerless {
		s.Model.(*model).toks["gen"] = &tok{Symbol: "gen", MinUnit: "ugen", Name: "genesis token", Max: 5, Mintable: true, Supply: new(big.Int), IssueFee: new(big.Int)}
	}
	// the harness's idea of the parameters must be what the chain runs with
	pr, err := e.Token.Params(s.Ctx, &v1.QueryParamsRequest{})
	if err != nil {
		panic(err)
	}
	got := fmt.Sprintf("%s|%s|%s", pr.Params.TokenTaxRate, pr.Params.MintTokenFeeRatio, pr.Params.IssueTokenBaseFee)
	want := fmt.Sprintf("%s|%s|%s%s", sdkmath.LegacyMustNewDecFromStr(d.tax.FloatString(18)), sdkmath.LegacyMustNewDecFromStr(d.ratio.FloatString(18)), d.base, feeDenom)
	if got != want {
		panic("fixture: params are " + got + ", harness assumes " + want)
	}
	return s
}

func addrOf(a string) string {
	if a == "module" {
		return mc.ModuleAddr(tokentypes.ModuleName).String()
	}
	return mc.Addr(a).String()
}

const ibcUnit = "ibc/aa"

func (m *model) hasUnit(u string) bool {
	for _, t := range m.toks {
		if t.MinUnit == u {
			return true
		}
	}
	return false
}

func (d *Driver) Enabled(e *mc.Env, s *mc.State) []mc.Op {
	m := s.Model.(*model)
	var ops []mc.Op
	if m.identityBroken {
		return nil
	}
	for _, sp := range d.V.Issues {
		for _, a := range d.V.IssueBy {
			ops = append(ops, mc.Op{Name: fmt.Sprintf("issue(%s,%s)", sp.label(), a), Data: opData{kind: "issue", spec: sp, actor: a}})
		}
	}
	if d.V.Deploy && !m.hasUnit(ibcUnit) {
		for _, sym := range []string{"ibcx", "tka", "tKa", "tkAA"} {
			ops = append(ops, mc.Op{Name: fmt.Sprintf("gov:deploy-erc20(%s,symbol=%s)", ibcUnit, sym), Data: opData{kind: "deploy", sym: sym}})
		}
	}
	if d.V.Convert {
		for _, sym := range sortedKeys(m.toks) {
			t := m.toks[sym]
			if !m.bound[sym] {
				ops = append(ops, mc.Op{Name: fmt.Sprintf("gov:bind-erc20(%s)", sym), Data: opData{kind: "bind", sym: sym}})
				continue
			}
			for _, a := range actors {
				if e.Bal(s.Ctx, mc.Addr(a), t.MinUnit).IsPositive() {
					ops = append(ops, mc.Op{Name: fmt.Sprintf("to-erc20(%s,%s,1)", sym, a), Data: opData{kind: "to-erc20", sym: sym, actor: a}})
				}
			}
			if m.erc[sym] != nil && m.erc[sym].Sign() > 0 {
				ops = append(ops, mc.Op{Name: fmt.Sprintf("from-erc20(%s,1)", sym), Data: opData{kind: "from-erc20", sym: sym}})
			}
		}
	}
	for _, sym := range sortedKeys(m.toks) {
		t := m.toks[sym]
		for _, a := range actors {
			if d.V.EditNothing {
				ops = append(ops, mc.Op{Name: fmt.Sprintf("edit(%s,%s,nothing)", sym, a), Data: opData{kind: "edit", sym: sym, actor: a, what: "nothing"}})
			}
			for _, mx := range d.V.EditMax {
				ops = append(ops, mc.Op{Name: fmt.Sprintf("edit(%s,%s,max=%d)", sym, a, mx), Data: opData{kind: "edit", sym: sym, actor: a, what: "max", max: mx}})
			}
			if d.V.EditMintable {
				ops = append(ops, mc.Op{Name: fmt.Sprintf("edit(%s,%s,mintable=%v)", sym, a, !t.Mintable), Data: opData{kind: "edit", sym: sym, actor: a, what: "mintable", target: !t.Mintable}})
			}
			if d.V.EditName {
				ops = append(ops, mc.Op{Name: fmt.Sprintf("edit(%s,%s,name)", sym, a), Data: opData{kind: "edit", sym: sym, actor: a, what: "name"}})
			}
		}
		room := new(big.Int).Sub(t.cap(), t.Supply)
		for _, a := range actors {
			for _, ms := range d.V.Mints {
				var amt *big.Int
				switch ms.Amt {
				case "1":
					amt = big.NewInt(1)
				case "room":
					if room.Cmp(big.NewInt(1)) <= 0 { // 0 is not a valid coin, 1 is the "1" case
						continue
					}
					amt = new(big.Int).Set(room)
				case "room+1":
					if room.Sign() <= 0 { // room+1 <= 1: invalid or the "1" case
						continue
					}
					amt = new(big.Int).Add(room, big.NewInt(1))
				default:
					panic("mint amount kind " + ms.Amt)
				}
				ops = append(ops, mc.Op{Name: fmt.Sprintf("mint(%s,%s,%s,%s)", sym, a, ms.To, ms.Amt), Data: opData{kind: "mint", sym: sym, actor: a, to: ms.To, what: ms.Amt, amt: amt}})
			}
		}
		for _, a := range actors {
			bal := e.Bal(s.Ctx, mc.Addr(a), t.MinUnit).BigInt()
			if bal.Sign() <= 0 {
				continue
			}
			for _, b := range d.V.Burns {
				switch b {
				case "1":
					ops = append(ops, mc.Op{Name: fmt.Sprintf("burn(%s,%s,1)", sym, a), Data: opData{kind: "burn", sym: sym, actor: a, what: "1", amt: big.NewInt(1)}})
				case "all":
					if bal.Cmp(big.NewInt(1)) > 0 {
						ops = append(ops, mc.Op{Name: fmt.Sprintf("burn(%s,%s,all)", sym, a), Data: opData{kind: "burn", sym: sym, actor: a, what: "all", amt: bal}})
					}
				default:
					panic("burn amount kind " + b)
				}
			}
		}
		if d.V.Transfer {
			for _, a := range actors {
				ops = append(ops, mc.Op{Name: fmt.Sprintf("transfer(%s,%s)", sym, a), Data: opData{kind: "transfer", sym: sym, actor: a}})
			}
		}
	}
	return ops
}

// obs is what the fee oracle looks at: fee-denom balances and supply.
type obs struct {
	bal       map[string]*big.Int
	collector *big.Int
	supply    *big.Int
}

func (d *Driver) observe(e *mc.Env, s *mc.State) obs {
	o := obs{bal: map[string]*big.Int{}}
	for _, a := range actors {
		o.bal[a] = e.Bal(s.Ctx, mc.Addr(a), feeDenom).BigInt()
	}
	o.collector = e.Bal(s.Ctx, mc.ModuleAddr(authtypes.FeeCollectorName), feeDenom).BigInt()
	o.supply = e.Supply(s.Ctx, feeDenom).BigInt()
	return o
}

func (d *Driver) quote(e *mc.Env, s *mc.State, symbol string) *v1.QueryFeesResponse {
	r, err := e.Token.Fees(s.Ctx, &v1.QueryFeesRequest{Symbol: symbol})
	if err != nil {
		return nil
	}
	return r
}

// feeOracle: what the payer was charged = what the fee pool received + what was burned (drop of the fee
// denom's bank supply); the pool's part is the tax rate's share; the charge is the quoted fee; a three-letter
// symbol costs exactly the base fee (factor (ln 3/ln 3)^4 = 1) and a mint costs the ratio's share of the
// issue fee of that token. Returns the charge.
func (d *Driver) feeOracle(kind, payer string, pre, post obs, quoted *sdk.Coin, symbol string, issueFee *big.Int) (*big.Int, []mc.Finding) {
	var fs []mc.Finding
	debit := new(big.Int).Sub(pre.bal[payer], post.bal[payer])
	toPool := new(big.Int).Sub(post.collector, pre.collector)
	burnt := new(big.Int).Sub(pre.supply, post.supply)
	if toPool.Sign() < 0 || burnt.Sign() < 0 || debit.Sign() < 0 {
		fs = append(fs, mc.F("C09/fee-split/"+kind+"/negative-part", "%s charged %s, fee pool %+d, burned %s", payer, debit, toPool, burnt))
	}
	if new(big.Int).Add(toPool, burnt).Cmp(debit) != 0 {
		fs = append(fs, mc.F("C09/fee-split/"+kind+"/charge-differs-from-pool-plus-burn", "%s charged %s but fee pool received %s and %s was burned (tax %s)", payer, debit, toPool, burnt, d.tax.FloatString(2)))
	}
	o := other(payer)
	if pre.bal[o].Cmp(post.bal[o]) != 0 {
		fs = append(fs, mc.F("C09/fee-split/"+kind+"/bystander-balance-changed", "%s's %s went %s -> %s during a %s by %s", o, feeDenom, pre.bal[o], post.bal[o], kind, payer))
	}
	exact := new(big.Rat).Mul(new(big.Rat).SetInt(debit), d.tax)
	diff := new(big.Rat).Sub(new(big.Rat).SetInt(toPool), exact)
	if diff.Abs(diff).Cmp(big.NewRat(1, 1)) >= 0 {
		fs = append(fs, mc.F("C09/fee-split/"+kind+"/pool-part-differs-from-tax-rate", "charge %s, tax rate %s: fee pool received %s", debit, d.tax.FloatString(2), toPool))
	}
	if quoted != nil && (quoted.Denom != feeDenom || quoted.Amount.BigInt().Cmp(debit) != 0) {
		fs = append(fs, mc.F("C09/fee-charged-differs-from-quoted/"+kind, "fees query quoted %s, %s was charged %s%s", quoted, payer, debit, feeDenom))
	}
	switch kind {
	case "issue":
		if len(symbol) == 3 && debit.Cmp(d.base) != 0 {
			fs = append(fs, mc.F("C09/fee-amount/issue/three-letter-symbol-not-base-fee", "symbol %s: charged %s, base fee %s", symbol, debit, d.base))
		}
	case "mint":
		want := new(big.Rat).Mul(new(big.Rat).SetInt(issueFee), d.ratio)
		df := new(big.Rat).Sub(new(big.Rat).SetInt(debit), want)
		if df.Abs(df).Cmp(big.NewRat(1, 1)) >= 0 {
			fs = append(fs, mc.F("C09/fee-amount/mint/not-ratio-of-issue-fee", "symbol %s: mint charged %s, issue fee was %s, mint-fee ratio %s", symbol, debit, issueFee, d.ratio.FloatString(2)))
		}
	}
	return debit, fs
}

func (d *Driver) Apply(e *mc.Env, s *mc.State, op mc.Op) []mc.Finding {
	od := op.Data.(opData)
	m := s.Model.(*model)
	var fs []mc.Finding
	switch od.kind {
	case "issue":
		sp := od.spec
		if sp.Max == 0 {
			panic("issue specs with max supply 0 (implicit maximum) are not part of this alphabet")
		}
		symTaken := m.toks[sp.Symbol] != nil || sp.Symbol == nativeSymbol
		unitTaken := m.byMinUnit(sp.MinUnit) != nil || sp.MinUnit == nativeMinUnit
		q := d.quote(e, s, sp.Symbol)
		pre := d.observe(e, s)
		out := s.Deliver(e, op.Name, &v1.MsgIssueToken{Symbol: sp.Symbol, Name: name0, MinUnit: sp.MinUnit, Scale: sp.Scale,
			InitialSupply: sp.Initial, MaxSupply: sp.Max, Mintable: sp.Mintable, Owner: addrOf(od.actor)})
		if !out.OK {
			return nil
		}
		if symTaken || unitTaken {
			var which []string
			if symTaken {
				which = append(which, "symbol")
			}
			if unitTaken {
				which = append(which, "min-unit")
			}
			against := "issued-token"
			if sp.Symbol == nativeSymbol || sp.MinUnit == nativeMinUnit {
				against = "native-token"
			}
			m.identityBroken = true
			return append(fs, mc.F("C09/identity-reused/issue/"+strings.Join(which, "+")+"/"+against,
				"%s accepted although %s already identif%s a token", op.Name, strings.Join(which, " and "), map[bool]string{true: "y", false: "ies"}[len(which) > 1]))
		}
		t := &tok{Symbol: sp.Symbol, MinUnit: sp.MinUnit, Name: name0, Scale: sp.Scale, Initial: sp.Initial, Max: sp.Max, Mintable: sp.Mintable,
			Owner: od.actor, Supply: new(big.Int).Mul(new(big.Int).SetUint64(sp.Initial), pow10(sp.Scale))}
		m.toks[sp.Symbol] = t
		if sup := e.Supply(s.Ctx, t.MinUnit).BigInt(); sup.Cmp(t.cap()) > 0 {
			fs = append(fs, mc.F("C09/supply-exceeds-max/issue", "%s: %s %s circulate, maximum %d x 10^%d = %s", op.Name, sup, t.MinUnit, t.Max, t.Scale, t.cap()))
		}
		var quoted *sdk.Coin
		if q != nil {
			quoted = &q.IssueFee
		}
		debit, ff := d.feeOracle("issue", od.actor, pre, d.observe(e, s), quoted, sp.Symbol, nil)
		t.IssueFee = debit
		return append(fs, ff...)

	case "edit":
		t := m.toks[od.sym]
		msg := &v1.MsgEditToken{Symbol: od.sym, Name: v1.DoNotModify, Mintable: tokentypes.Nil, Owner: addrOf(od.actor)}
		switch od.what {
		case "max":
			msg.MaxSupply = od.max
		case "mintable":
			msg.Mintable = tokentypes.False
			if od.target {
				msg.Mintable = tokentypes.True
			}
		case "name":
			msg.Name = name1
		}
		preOK := e.Supply(s.Ctx, t.MinUnit).BigInt().Cmp(t.cap()) <= 0
		out := s.Deliver(e, op.Name, msg)
		if !out.OK {
			return nil
		}
		if t.Owner != od.actor {
			fs = append(fs, mc.F("C09/authority/edit-by-non-owner/"+od.what, "%s succeeded but the owner is %s", op.Name, t.Owner))
		}
		switch od.what {
		case "max":
			t.Max = od.max
		case "mintable":
			t.Mintable = od.target
		case "name":
			t.Name = name1
		}
		m.evolved = true
		sup := e.Supply(s.Ctx, t.MinUnit).BigInt()
		if sup.Cmp(t.cap()) > 0 {
			if od.what == "max" {
				// how did the lowered maximum pass? whole main units fit but the fractional remainder does not
				cause := "whole-units-exceed"
				whole := new(big.Int).Quo(sup, pow10(t.Scale))
				if whole.Cmp(new(big.Int).SetUint64(t.Max)) <= 0 {
					cause = "fractional-circulating-amount-truncated"
				}
				fs = append(fs, mc.F("C09/max-below-circulating/edit/"+cause, "%s accepted: maximum is now %d x 10^%d = %s %s while %s circulate", op.Name, t.Max, t.Scale, t.cap(), t.MinUnit, sup))
			} else if preOK {
				fs = append(fs, mc.F("C09/supply-exceeds-max/edit-"+od.what, "%s: %s %s circulate, maximum %s", op.Name, sup, t.MinUnit, t.cap()))
			}
		}
		return fs

	case "mint":
		t := m.toks[od.sym]
		msg := &v1.MsgMintToken{Coin: sdk.NewCoin(t.MinUnit, sdkmath.NewIntFromBigInt(od.amt)), Owner: addrOf(od.actor)}
		if od.to == "other" {
			msg.Receiver = addrOf(other(od.actor))
		}
		q := d.quote(e, s, od.sym)
		pre := d.observe(e, s)
		preOK := e.Supply(s.Ctx, t.MinUnit).BigInt().Cmp(t.cap()) <= 0
		out := s.Deliver(e, op.Name, msg)
		if !out.OK {
			return nil
		}
		if t.Owner != od.actor {
			fs = append(fs, mc.F("C09/authority/mint-by-non-owner", "%s succeeded but the owner is %s", op.Name, t.Owner))
		}
		if !t.Mintable {
			fs = append(fs, mc.F("C09/non-mintable-token-minted", "%s succeeded on a token that is not mintable", op.Name))
		}
		t.Supply.Add(t.Supply, od.amt)
		m.evolved = true
		if sup := e.Supply(s.Ctx, t.MinUnit).BigInt(); preOK && sup.Cmp(t.cap()) > 0 {
			fs = append(fs, mc.F("C09/supply-exceeds-max/mint", "%s of %s: %s %s circulate, maximum %d x 10^%d = %s", op.Name, od.amt, sup, t.MinUnit, t.Max, t.Scale, t.cap()))
		}
		var quoted *sdk.Coin
		if q != nil {
			quoted = &q.MintFee
		}
		_, ff := d.feeOracle("mint", od.actor, pre, d.observe(e, s), quoted, od.sym, t.IssueFee)
		return append(fs, ff...)

	case "burn":
		t := m.toks[od.sym]
		preOK := e.Supply(s.Ctx, t.MinUnit).BigInt().Cmp(t.cap()) <= 0
		out := s.Deliver(e, op.Name, &v1.MsgBurnToken{Coin: sdk.NewCoin(t.MinUnit, sdkmath.NewIntFromBigInt(od.amt)), Sender: addrOf(od.actor)})
		if !out.OK {
			return nil
		}
		t.Supply.Sub(t.Supply, od.amt)
		if m.burned[t.MinUnit] == nil {
			m.burned[t.MinUnit] = new(big.Int)
		}
		m.burned[t.MinUnit].Add(m.burned[t.MinUnit], od.amt)
		m.evolved = true
		if sup := e.Supply(s.Ctx, t.MinUnit).BigInt(); preOK && sup.Cmp(t.cap()) > 0 {
			fs = append(fs, mc.F("C09/supply-exceeds-max/burn", "%s: %s %s circulate, maximum %s", op.Name, sup, t.MinUnit, t.cap()))
		}
		return fs

	case "bind":
		t := m.toks[od.sym]
		out := s.Deliver(e, op.Name, &v1.MsgDeployERC20{Symbol: t.Symbol, Name: t.Name, Scale: t.Scale, MinUnit: t.MinUnit, Authority: mc.Authority().String()})
		if out.OK {
			if m.bound == nil {
				m.bound, m.erc = map[string]bool{}, map[string]*big.Int{}
			}
			m.bound[od.sym], m.erc[od.sym] = true, new(big.Int)
		}
		return nil
	case "to-erc20", "from-erc20":
		// a conversion is no burn: the tally stays, the native circulating amount moves by exactly the amount.
		// All converted units are held by one contract-side account (A's), whoever converted them.
		t := m.toks[od.sym]
		one := sdk.NewCoin(t.MinUnit, sdkmath.OneInt())
		holder := common.BytesToAddress(mc.Addr("A").Bytes())
		if od.kind == "to-erc20" {
			if out := s.Deliver(e, op.Name, &v1.MsgSwapToERC20{Amount: one, Sender: addrOf(od.actor), Receiver: holder.Hex()}); out.OK {
				t.Supply.Sub(t.Supply, big.NewInt(1))
				m.erc[od.sym].Add(m.erc[od.sym], big.NewInt(1))
			}
			return nil
		}
		if out := s.Deliver(e, op.Name, &v1.MsgSwapFromERC20{WantedAmount: one, Sender: addrOf("A"), Receiver: addrOf("A")}); out.OK {
			t.Supply.Add(t.Supply, big.NewInt(1))
			m.erc[od.sym].Sub(m.erc[od.sym], big.NewInt(1))
		}
		return nil
	case "deploy":
		out := s.Deliver(e, op.Name, &v1.MsgDeployERC20{Symbol: od.sym, Name: "ibc asset", Scale: 6, MinUnit: ibcUnit, Authority: mc.Authority().String()})
		if !out.OK {
			return nil
		}
		if m.toks[od.sym] != nil {
			m.identityBroken = true
			return append(fs, mc.F("C09/identity-reused/deploy-erc20/symbol", "%s succeeded although symbol %s already names a token", op.Name, od.sym))
		}
		m.toks[od.sym] = &tok{Symbol: od.sym, MinUnit: ibcUnit, Name: "ibc asset", Scale: 6, Mintable: true, Owner: "module", Supply: new(big.Int), IssueFee: new(big.Int)}
		return fs
	case "transfer":
		t := m.toks[od.sym]
		out := s.Deliver(e, op.Name, &v1.MsgTransferTokenOwner{SrcOwner: addrOf(od.actor), DstOwner: addrOf(other(od.actor)), Symbol: od.sym})
		if !out.OK {
			return nil
		}
		if t.Owner != od.actor {
			fs = append(fs, mc.F("C09/authority/transfer-owner-by-non-owner", "%s succeeded but the owner is %s", op.Name, t.Owner))
		}
		t.Owner = other(od.actor)
		m.evolved = true
		return fs
	}
	panic("unknown op " + op.Name)
}

// Check: state invariants, evaluated on every newly discovered state.
func (d *Driver) Check(e *mc.Env, s *mc.State) []mc.Finding {
	m := s.Model.(*model)
	var fs []mc.Finding
	s.Nontrivial = m.evolved && len(m.toks) > 0
	if m.identityBroken {
		return nil
	}

	// 1. the full token list: every symbol and every min unit occurs once; the set is native + issued
	all, err := e.Token.Tokens(s.Ctx, &v1.QueryTokensRequest{})
	if err != nil {
		return append(fs, mc.F("C09/tokens-query-failed", "%v", err))
	}
	symSeen, unitSeen := map[string]int{}, map[string]int{}
	for _, a := range all.Tokens {
		t, ok := a.GetCachedValue().(*v1.Token)
		if !ok {
			fs = append(fs, mc.F("C09/tokens-query-failed", "unexpected element %T", a.GetCachedValue()))
			continue
		}
		symSeen[t.Symbol]++
		unitSeen[t.MinUnit]++
	}
	for _, k := range sortedKeys(symSeen) {
		if symSeen[k] > 1 {
			fs = append(fs, mc.F("C09/identity-duplicate/symbol", "symbol %s names %d tokens", k, symSeen[k]))
		}
		if k != nativeSymbol && m.toks[k] == nil {
			fs = append(fs, mc.F("C09/token-set-differs/extra", "token %s exists but was never successfully issued", k))
		}
	}
	for _, k := range sortedKeys(unitSeen) {
		if unitSeen[k] > 1 {
			fs = append(fs, mc.F("C09/identity-duplicate/min-unit", "min unit %s belongs to %d tokens", k, unitSeen[k]))
		}
	}
	if symSeen[nativeSymbol] == 0 {
		fs = append(fs, mc.F("C09/token-set-differs/missing", "native token %s disappeared", nativeSymbol))
	}

	// 2. every issued token is still there, unchanged except by its owners' accepted operations
	for _, sym := range sortedKeys(m.toks) {
		t := m.toks[sym]
		got, ok := d.token(e, s, sym)
		if !ok {
			fs = append(fs, mc.F("C09/token-set-differs/missing", "token %s was issued but the query by symbol finds nothing", sym))
			continue
		}
		cmp := func(field string, g, w interface{}) {
			if fmt.Sprint(g) != fmt.Sprint(w) {
				fs = append(fs, mc.F("C09/token-record-differs/"+field, "token %s: %s is %v, expected %v", sym, field, g, w))
			}
		}
		cmp("symbol", got.Symbol, t.Symbol)
		cmp("min-unit", got.MinUnit, t.MinUnit)
		cmp("scale", got.Scale, t.Scale)
		cmp("name", got.Name, t.Name)
		cmp("initial-supply", got.InitialSupply, t.Initial)
		cmp("max-supply", got.MaxSupply, t.Max)
		cmp("mintable", got.Mintable, t.Mintable)
		wantOwner := ""
		if t.Owner != "" {
			wantOwner = addrOf(t.Owner)
		}
		cmp("owner", got.Owner, wantOwner)
		// the min unit resolves to the same token, unless that string is also some token's symbol (the
		// query resolves symbols first; the property treats the two name spaces separately)
		if m.toks[t.MinUnit] == nil && t.MinUnit != nativeSymbol {
			if byUnit, ok := d.token(e, s, t.MinUnit); !ok || byUnit.Symbol != sym {
				fs = append(fs, mc.F("C09/min-unit-resolves-to-other-token", "min unit %s of %s resolves to %v (found=%v)", t.MinUnit, sym, byUnit.Symbol, ok))
			}
		}
		// 3. circulating amount = exact reference
		if sup := e.Supply(s.Ctx, t.MinUnit).BigInt(); sup.Cmp(t.Supply) != 0 {
			fs = append(fs, mc.F("C09/circulating-differs-from-reference", "%s: bank supply %s, issued+minted-burned = %s", t.MinUnit, sup, t.Supply))
		}
	}

	// 4. the per-owner index lists exactly the tokens of the current owner
	for _, a := range actors {
		r, err := e.Token.Tokens(s.Ctx, &v1.QueryTokensRequest{Owner: addrOf(a)})
		if err != nil {
			fs = append(fs, mc.F("C09/tokens-query-failed", "owner %s: %v", a, err))
			continue
		}
		var got, want []string
		for _, x := range r.Tokens {
			if t, ok := x.GetCachedValue().(*v1.Token); ok {
				got = append(got, t.Symbol)
			}
		}
		for _, sym := range sortedKeys(m.toks) {
			if m.toks[sym].Owner == a {
				want = append(want, sym)
			}
		}
		sort.Strings(got)
		if strings.Join(got, ",") != strings.Join(want, ",") {
			fs = append(fs, mc.F("C09/owner-index-differs", "tokens listed for owner %s: %v, owned per accepted issues/handovers: %v", a, got, want))
		}
	}

	// 5. burned amounts are tallied exactly
	tb, err := e.Token.TotalBurn(s.Ctx, &v1.QueryTotalBurnRequest{})
	if err != nil {
		fs = append(fs, mc.F("C09/total-burn-query-failed", "%v", err))
	} else {
		got := map[string]*big.Int{}
		for _, c := range tb.BurnedCoins {
			if got[c.Denom] == nil {
				got[c.Denom] = new(big.Int)
			}
			got[c.Denom].Add(got[c.Denom], c.Amount.BigInt())
		}
		var gs, ws []string
		for _, k := range sortedKeys(got) {
			gs = append(gs, got[k].String()+k)
		}
		for _, k := range sortedKeys(m.burned) {
			ws = append(ws, m.burned[k].String()+k)
		}
		if strings.Join(gs, ",") != strings.Join(ws, ",") {
			fs = append(fs, mc.F("C09/burn-tally-differs", "total-burn query %v, sum of successful burns %v", gs, ws))
		}
	}

	// 6. nothing is left in the token module account
	if left := e.AllBal(s.Ctx, mc.ModuleAddr(tokentypes.ModuleName)); !left.IsZero() {
		var dn []string
		for _, c := range left {
			if c.Denom == feeDenom {
				dn = append(dn, "fee-denom")
			} else {
				dn = append(dn, "token-denom")
			}
		}
		sort.Strings(dn)
		fs = append(fs, mc.F("C09/module-account-holds-funds/"+dn[0], "token module account holds %s", left))
	}
	return fs
}

func (d *Driver) token(e *mc.Env, s *mc.State, denom string) (v1.Token, bool) {
	r, err := e.Token.Token(s.Ctx, &v1.QueryTokenRequest{Denom: denom})
	if err != nil || r.Token == nil {
		return v1.Token{}, false
	}
	t, ok := r.Token.GetCachedValue().(*v1.Token)
	if !ok {
		return v1.Token{}, false
	}
	return *t, true
}
