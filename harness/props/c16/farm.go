package c16

import (
	"math"

	sdkmath "cosmossdk.io/math"
	sdk "github.com/cosmos/cosmos-sdk/types"
	distrtypes "github.com/cosmos/cosmos-sdk/x/distribution/types"

	cstypes "mods.irisnet.org/modules/coinswap/types"
	farm "mods.irisnet.org/modules/farm"
	farmtypes "mods.irisnet.org/modules/farm/types"

	"verif/harness/mc"
)

func farmSpec() *spec[farmtypes.Params] {
	type P = farmtypes.Params
	const lpt = "lpt-1"
	const pool1, pool2 = "farm-1", "farm-2"
	addr := func(n string) string { return mc.Addr(n).String() }
	one := func(m sdk.Msg) func(e *mc.Env, s *mc.State) []sdk.Msg {
		return func(e *mc.Env, s *mc.State) []sdk.Msg { return []sdk.Msg{m} }
	}
	gs := func(p P) *farmtypes.GenesisState {
		g := farmtypes.DefaultGenesisState()
		g.Params = p
		return g
	}
	return &spec[P]{
		module:   "farm",
		baseNote: "module defaults: pool_creation_fee 5000stake, max_reward_categories 2, tax_rate 0.4",
		base:     farmtypes.DefaultParams,
		product:  true,
		fields: []field[P]{
			coinField[P]("pool_creation_fee", true, std, 5000, func(p *P, c sdk.Coin) { p.PoolCreationFee = c }),
			listField[P, uint32]("max_reward_categories", false, func(p *P, v uint32) { p.MaxRewardCategories = v },
				[]lv[uint32]{{"0", 0}, {"1", 1}, {"max-uint32", math.MaxUint32}}, []lv[uint32]{{"3", 3}}),
			decField[P]("tax_rate", true, func(p *P, d sdkmath.LegacyDec) { p.TaxRate = d }),
		},
		validate: func(p P) error { return p.Validate() },
		msg:      func(a string, p P) sdk.Msg { return &farmtypes.MsgUpdateParams{Authority: a, Params: p} },
		query: func(e *mc.Env, ctx sdk.Context) P {
			r, err := e.Farm.Params(ctx, &farmtypes.QueryParamsRequest{})
			if err != nil {
				panic(err)
			}
			return r.Params
		},
		marshal:         func(e *mc.Env, p P) []byte { return e.Cdc.MustMarshal(&p) },
		validateGenesis: func(p P) error { return farmtypes.ValidateGenesis(*gs(p)) },
		initGenesis:     func(e *mc.Env, ctx sdk.Context, p P) { farm.InitGenesis(ctx, e.Farm, *gs(p)) },
		genesisJSON:     func(e *mc.Env, p P) []byte { return e.Cdc.MustMarshalJSON(gs(p)) },
		newEnv: func() *mc.Env {
			rich := mc.Big(135)
			coins := sdk.NewCoins(mc.CI(std, rich), mc.CI("btc", rich), mc.CI("eth", rich))
			return mc.NewEnv(mc.EnvOptions{Balances: map[string]sdk.Coins{"C": coins, "K": coins, "F1": sdk.NewCoins(mc.C(std, 1000)), "F2": sdk.NewCoins(mc.C(std, 1000)), "X": coins}})
		},
		fixture: func(e *mc.Env) *mc.State {
			s := &mc.State{Ctx: mc.Branch(e.Root)}
			dl := s.Ctx.BlockTime().Unix() + 1_000_000
			must(s.Deliver(e, "fx-addliq", &cstypes.MsgAddLiquidity{MaxToken: mc.C("btc", 1_000_000), ExactStandardAmt: sdkmath.NewInt(1_000_000),
				MinLiquidity: sdkmath.OneInt(), Deadline: dl, Sender: addr("C")}), "coinswap pool")
			for _, f := range []string{"F1", "F2"} {
				must(s.Deliver(e, "fx-fund-"+f, mc.Send(mc.Addr("C"), mc.Addr(f), mc.C(lpt, 100_000))), "fund "+f)
			}
			must(s.Deliver(e, "fx-community", &distrtypes.MsgFundCommunityPool{Amount: sdk.NewCoins(mc.C(std, 1_000_000)), Depositor: addr("C")}), "fund community pool")
			h := s.Ctx.BlockHeight()
			must(s.Deliver(e, "fx-pool1", &farmtypes.MsgCreatePool{Description: "long", LptDenom: lpt, StartHeight: h,
				RewardPerBlock: sdk.NewCoins(mc.C(std, 10)), TotalReward: sdk.NewCoins(mc.C(std, 100_000)), Editable: true, Creator: addr("K")}), "farm pool 1")
			// a pool that ends inside the two blocks run after each operation (its refund is end-block work)
			must(s.Deliver(e, "fx-pool2", &farmtypes.MsgCreatePool{Description: "short", LptDenom: lpt, StartHeight: h,
				RewardPerBlock: sdk.NewCoins(mc.C(std, 10)), TotalReward: sdk.NewCoins(mc.C(std, 20)), Editable: true, Creator: addr("K")}), "farm pool 2")
			must(s.Deliver(e, "fx-stake1", &farmtypes.MsgStake{PoolId: pool1, Amount: mc.C(lpt, 1000), Sender: addr("F1")}), "stake F1")
			must(s.Deliver(e, "fx-stake2", &farmtypes.MsgStake{PoolId: pool2, Amount: mc.C(lpt, 500), Sender: addr("F1")}), "stake F1 pool 2")
			s.NextBlock(e, blockDT)
			return s
		},
		menu: []op{
			{"create-pool(1 reward)", "MsgCreatePool", func(e *mc.Env, s *mc.State) []sdk.Msg {
				return []sdk.Msg{&farmtypes.MsgCreatePool{Description: "n1", LptDenom: lpt, StartHeight: s.Ctx.BlockHeight() + 1,
					RewardPerBlock: sdk.NewCoins(mc.C(std, 5)), TotalReward: sdk.NewCoins(mc.C(std, 500)), Editable: true, Creator: addr("K")}}
			}},
			{"create-pool(2 rewards)", "MsgCreatePool", func(e *mc.Env, s *mc.State) []sdk.Msg {
				return []sdk.Msg{&farmtypes.MsgCreatePool{Description: "n2", LptDenom: lpt, StartHeight: s.Ctx.BlockHeight() + 1,
					RewardPerBlock: sdk.NewCoins(mc.C("btc", 3), mc.C(std, 5)), TotalReward: sdk.NewCoins(mc.C("btc", 300), mc.C(std, 500)), Editable: false, Creator: addr("K")}}
			}},
			{"create-pool-with-community-pool", "MsgCreatePoolWithCommunityPool", func(e *mc.Env, s *mc.State) []sdk.Msg {
				return []sdk.Msg{&farmtypes.MsgCreatePoolWithCommunityPool{
					Content: farmtypes.CommunityPoolCreateFarmProposal{Title: "t", Description: "d", PoolDescription: "pd", LptDenom: lpt,
						RewardPerBlock: sdk.NewCoins(mc.C("btc", 10), mc.C(std, 10)), FundApplied: sdk.NewCoins(mc.C(std, 1000)), FundSelfBond: sdk.NewCoins(mc.C("btc", 1000))},
					InitialDeposit: sdk.NewCoins(mc.C(std, 10_000_000)), Proposer: addr("K")}}
			}},
			{"stake(F2,100)", "MsgStake", one(&farmtypes.MsgStake{PoolId: pool1, Amount: mc.C(lpt, 100), Sender: addr("F2")})},
			{"unstake(F1,10)", "MsgUnstake", one(&farmtypes.MsgUnstake{PoolId: pool1, Amount: mc.C(lpt, 10), Sender: addr("F1")})},
			{"unstake(F1,all)", "MsgUnstake", one(&farmtypes.MsgUnstake{PoolId: pool1, Amount: mc.C(lpt, 1000), Sender: addr("F1")})},
			{"harvest(F1)", "MsgHarvest", one(&farmtypes.MsgHarvest{PoolId: pool1, Sender: addr("F1")})},
			{"adjust-pool", "MsgAdjustPool", one(&farmtypes.MsgAdjustPool{PoolId: pool1, AdditionalReward: sdk.NewCoins(mc.C(std, 1000)),
				RewardPerBlock: sdk.NewCoins(mc.C(std, 20)), Creator: addr("K")})},
			{"destroy-pool", "MsgDestroyPool", one(&farmtypes.MsgDestroyPool{PoolId: pool1, Creator: addr("K")})},
			{"idle", "blocks-only", func(e *mc.Env, s *mc.State) []sdk.Msg { return nil }},
		},
	}
}
