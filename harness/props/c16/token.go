package c16

import (
	"strings"

	sdkmath "cosmossdk.io/math"
	sdk "github.com/cosmos/cosmos-sdk/types"

	token "mods.irisnet.org/modules/token"
	tokentypes "mods.irisnet.org/modules/token/types"
	v1 "mods.irisnet.org/modules/token/types/v1"

	"verif/harness/mc"
)

func tokenSpec() *spec[v1.Params] {
	type P = v1.Params
	addr := func(n string) string { return mc.Addr(n).String() }
	one := func(m sdk.Msg) func(e *mc.Env, s *mc.State) []sdk.Msg {
		return func(e *mc.Env, s *mc.State) []sdk.Msg { return []sdk.Msg{m} }
	}
	gs := func(p P) *v1.GenesisState {
		// the native token already exists on the chain the genesis is applied to; only the parameters vary
		return &v1.GenesisState{Params: p}
	}
	const beacon = "0x00000000000000000000000000000000000000b1"
	return &spec[P]{
		module:   "token",
		baseNote: "module defaults (token_tax_rate 0.4, issue_token_base_fee 60000stake, mint_token_fee_ratio 0.1, enable_erc20 true) with the beacon set to a 0x-prefixed address, so that the ERC20 operations succeed under the base set",
		base: func() P {
			p := v1.DefaultParams()
			p.Beacon = beacon
			return p
		},
		productThorough: true,
		fields: []field[P]{
			decField[P]("token_tax_rate", true, func(p *P, d sdkmath.LegacyDec) { p.TokenTaxRate = d }),
			coinField[P]("issue_token_base_fee", true, std, 60000, func(p *P, c sdk.Coin) { p.IssueTokenBaseFee = c }),
			decField[P]("mint_token_fee_ratio", true, func(p *P, d sdkmath.LegacyDec) { p.MintTokenFeeRatio = d }),
			listField[P, bool]("enable_erc20", false, func(p *P, v bool) { p.EnableErc20 = v }, []lv[bool]{{"false", false}}, nil),
			listField[P, string]("beacon", false, func(p *P, v string) { p.Beacon = v },
				[]lv[string]{{"unset", ""}, {"hex-address-without-0x", beacon[2:]}, {"hex-address-upper-case", "0X" + strings.ToUpper(beacon[2:])},
					{"not-hex", "0xzz"}, {"too-short", "0x1234"}}, nil),
		},
		validate: func(p P) error { return p.Validate() },
		msg:      func(a string, p P) sdk.Msg { return &v1.MsgUpdateParams{Authority: a, Params: p} },
		query: func(e *mc.Env, ctx sdk.Context) P {
			r, err := e.Token.Params(ctx, &v1.QueryParamsRequest{})
			if err != nil {
				panic(err)
			}
			return r.Params
		},
		marshal:         func(e *mc.Env, p P) []byte { return e.Cdc.MustMarshal(&p) },
		validateGenesis: func(p P) error { return v1.ValidateGenesis(*gs(p)) },
		initGenesis:     func(e *mc.Env, ctx sdk.Context, p P) { token.InitGenesis(ctx, e.Token, *gs(p)) },
		genesisJSON:     func(e *mc.Env, p P) []byte { return e.Cdc.MustMarshalJSON(gs(p)) },
		newEnv: func() *mc.Env {
			coins := sdk.NewCoins(mc.C(std, 1_000_000_000))
			return mc.NewEnv(mc.EnvOptions{Balances: map[string]sdk.Coins{"A": coins, "B": coins, "X": coins}})
		},
		fixture: func(e *mc.Env) *mc.State {
			s := &mc.State{Ctx: mc.Branch(e.Root)}
			bp := v1.DefaultParams()
			bp.Beacon = beacon
			must(s.Deliver(e, "fx-params", &v1.MsgUpdateParams{Authority: mc.Authority().String(), Params: bp}), "base params")
			must(s.Deliver(e, "fx-issue", &v1.MsgIssueToken{Symbol: "tka", Name: "token a", MinUnit: "utka", Scale: 6, InitialSupply: 1000,
				MaxSupply: 1_000_000, Mintable: true, Owner: addr("A")}), "issue tka")
			s.NextBlock(e, blockDT)
			return s
		},
		menu: []op{
			{"issue-token(3 letters)", "MsgIssueToken", one(&v1.MsgIssueToken{Symbol: "tkb", Name: "token b", MinUnit: "utkb", Scale: 0, InitialSupply: 10,
				MaxSupply: 1000, Mintable: true, Owner: addr("B")})},
			{"issue-token(long symbol)", "MsgIssueToken", one(&v1.MsgIssueToken{Symbol: "averylongsymbol", Name: "token c", MinUnit: "uaverylong", Scale: 18, InitialSupply: 1,
				MaxSupply: 1000, Mintable: false, Owner: addr("B")})},
			{"edit-token(name,max)", "MsgEditToken", one(&v1.MsgEditToken{Symbol: "tka", Name: "renamed", MaxSupply: 500_000, Mintable: tokentypes.Nil, Owner: addr("A")})},
			{"mint-token(self)", "MsgMintToken", one(&v1.MsgMintToken{Coin: mc.C("utka", 1_000_000), Owner: addr("A")})},
			{"mint-token(to B)", "MsgMintToken", one(&v1.MsgMintToken{Coin: mc.C("utka", 1), Receiver: addr("B"), Owner: addr("A")})},
			{"burn-token", "MsgBurnToken", one(&v1.MsgBurnToken{Coin: mc.C("utka", 10), Sender: addr("A")})},
			{"transfer-token-owner", "MsgTransferTokenOwner", one(&v1.MsgTransferTokenOwner{SrcOwner: addr("A"), DstOwner: addr("B"), Symbol: "tka"})},
			{"swap-fee-token", "MsgSwapFeeToken", one(&v1.MsgSwapFeeToken{FeePaid: mc.C("utka", 10), Sender: addr("A")})},
			{"deploy-erc20", "MsgDeployERC20", one(&v1.MsgDeployERC20{Symbol: "tka", Name: "token a", Scale: 6, MinUnit: "utka", Authority: mc.Authority().String()})},
			{"upgrade-erc20", "MsgUpgradeERC20", one(&v1.MsgUpgradeERC20{Implementation: "0x00000000000000000000000000000000000000c2", Authority: mc.Authority().String()})},
			{"swap-to-erc20", "MsgSwapToERC20", one(&v1.MsgSwapToERC20{Amount: mc.C("utka", 10), Sender: addr("A"), Receiver: beacon})},
			{"idle", "blocks-only", func(e *mc.Env, s *mc.State) []sdk.Msg { return nil }},
		},
	}
}
