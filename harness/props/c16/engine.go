// Package c16 checks property C16 (module parameters: changed only by the authority, stay valid, never
// break handlers) for coinswap, farm, htlc, service and token.
//
// It is not a path search but an exhaustive enumeration, on the real code, of a finite lattice of parameter
// sets ("configurations") crossed with a finite menu of operations ("inputs"):
//
//  1. per module a boundary domain per parameter field; the sets are the defaults, every single-field deviation,
//     all pairs among the fee / tax / fraction fields and (modules with <= 4 fields) the full product;
//  2. every set is submitted as MsgUpdateParams by the authority and by a stranger through Deliver (ValidateBasic,
//     router, atomicity, panic capture) and pushed through the module's genesis validation / InitGenesis; the
//     oracle is the module's own Params.Validate() evaluated separately (panic = reject): stored iff sender is
//     the authority and Validate() accepts, never stored through genesis when Validate() refuses;
//  3. under every accepted set, from a prepared state of the module, each operation of the module's menu that
//     succeeds under the default parameters (differential baseline) is executed on its own fork, followed by two
//     blocks; a panic in the handler or in a begin/end blocker is a violation.
//
// Signatures discriminate by module, rule, message type / phase and the deviating FIELD(s) - never by value. The
// fields blamed are the smallest subset of a set's deviations that reproduces the finding on its own.
package c16

import (
	"fmt"
	"os"
	"runtime"
	"sort"
	"strconv"
	"strings"
	"sync"
	"time"

	sdk "github.com/cosmos/cosmos-sdk/types"
	"github.com/cosmos/cosmos-sdk/types/module"

	"verif/harness/mc"
)

// value is one element of a field's boundary domain.
type value[P any] struct {
	label string
	set   func(p *P) // nil for the default (base) value
}

// field is one parameter field with its domain; vals[0] is the default.
type field[P any] struct {
	name string // proto field name (signature discriminator)
	fee  bool   // member of the fee / tax / fraction group (all pairs are enumerated)
	vals []value[P]
	more []value[P] // additional values of the thorough tier
}

func (f field[P]) domain(tier string) []value[P] {
	if tier == "thorough" {
		return append(append([]value[P]{}, f.vals...), f.more...)
	}
	return f.vals
}

// op is one entry of a module's operation menu.
type op struct {
	name    string
	msgType string
	// build constructs the message(s) on the fork the op will run on (it may query the state). A nil result
	// means "nothing to deliver" (the idle op: blocks only).
	build func(e *mc.Env, s *mc.State) []sdk.Msg
}

// spec describes one module.
type spec[P any] struct {
	module   string
	baseNote string
	base     func() P
	fields   []field[P]
	// product: enumerate the full product of the field domains (modules with <= 4 fields); productThorough: only
	// in the thorough tier.
	product, productThorough bool

	validate func(p P) error
	msg      func(authority string, p P) sdk.Msg
	query    func(e *mc.Env, ctx sdk.Context) P
	marshal  func(e *mc.Env, p P) []byte

	// genesis: ValidateGenesis of the module on a genesis state carrying p; InitGenesis (package level, struct
	// argument) on ctx; JSON of the same genesis state for the AppModule route.
	validateGenesis func(p P) error
	initGenesis     func(e *mc.Env, ctx sdk.Context, p P)
	genesisJSON     func(e *mc.Env, p P) []byte

	newEnv  func() *mc.Env
	fixture func(e *mc.Env) *mc.State
	menu    []op
}

// ---------------------------------------------------------------- sets

type pset []int // index into the domain of each field; 0 = default

func (sp *spec[P]) key(tier string, s pset) string {
	var parts []string
	for i, ix := range s {
		if ix != 0 {
			parts = append(parts, sp.fields[i].name+"="+sp.fields[i].domain(tier)[ix].label)
		}
	}
	if len(parts) == 0 {
		return "default"
	}
	return strings.Join(parts, ",")
}

func (sp *spec[P]) build(tier string, s pset) P {
	p := sp.base()
	for i, ix := range s {
		if ix != 0 {
			sp.fields[i].domain(tier)[ix].set(&p)
		}
	}
	return p
}

func (s pset) devs() []int {
	var d []int
	for i, ix := range s {
		if ix != 0 {
			d = append(d, i)
		}
	}
	return d
}

// enumerate lists the parameter sets of the tier, deduplicated, in a deterministic order.
func (sp *spec[P]) enumerate(tier string) (sets []pset, counts map[string]int) {
	n := len(sp.fields)
	seen := map[string]bool{}
	counts = map[string]int{}
	add := func(s pset, class string) {
		k := fmt.Sprint([]int(s))
		if seen[k] {
			return
		}
		seen[k] = true
		sets = append(sets, append(pset{}, s...))
		counts[class]++
	}
	add(make(pset, n), "default")
	for i := range sp.fields {
		for v := 1; v < len(sp.fields[i].domain(tier)); v++ {
			s := make(pset, n)
			s[i] = v
			add(s, "single-field")
		}
	}
	for i := 0; i < n; i++ {
		for j := i + 1; j < n; j++ {
			if tier != "thorough" && !(sp.fields[i].fee && sp.fields[j].fee) {
				continue
			}
			for a := 1; a < len(sp.fields[i].domain(tier)); a++ {
				for b := 1; b < len(sp.fields[j].domain(tier)); b++ {
					s := make(pset, n)
					s[i], s[j] = a, b
					add(s, "pair")
				}
			}
		}
	}
	if tier == "thorough" {
		var fee []int
		for i := range sp.fields {
			if sp.fields[i].fee {
				fee = append(fee, i)
			}
		}
		for x := 0; x < len(fee); x++ {
			for y := x + 1; y < len(fee); y++ {
				for z := y + 1; z < len(fee); z++ {
					i, j, k := fee[x], fee[y], fee[z]
					for a := 1; a < len(sp.fields[i].domain(tier)); a++ {
						for b := 1; b < len(sp.fields[j].domain(tier)); b++ {
							for c := 1; c < len(sp.fields[k].domain(tier)); c++ {
								s := make(pset, n)
								s[i], s[j], s[k] = a, b, c
								add(s, "triple")
							}
						}
					}
				}
			}
		}
	}
	if sp.product || (sp.productThorough && tier == "thorough") {
		s := make(pset, n)
		var rec func(i int)
		rec = func(i int) {
			if i == n {
				add(s, "product")
				return
			}
			for v := 0; v < len(sp.fields[i].domain(tier)); v++ {
				s[i] = v
				rec(i + 1)
			}
			s[i] = 0
		}
		rec(0)
	}
	return sets, counts
}

// ---------------------------------------------------------------- evaluation

type opResult struct {
	class       string // ok | err | panic | (skipped)
	text        string
	blockPanics []string
}

type rawFinding struct {
	kind    string // stranger | invalid-msg | invalid-genesis | handler-panic | block-panic
	opIdx   int
	phase   string
	detail  string
	replay2 string // second path element
}

type setResult struct {
	key        string
	valid      bool
	validErr   string
	authClass  string // outcome class of the authority's message
	authText   string
	authStored bool
	strangerOK bool
	// genesis
	vgRefused, initRefused, jsonTried, jsonRefused bool
	genesisStored                                  bool
	accepted                                       bool
	ops                                            []opResult // per baseline op (nil when not accepted)
	raw                                            []rawFinding
}

type worker[P any] struct {
	sp   *spec[P]
	tier string
	e    *mc.Env
	base *mc.State
	// baseline: indices into sp.menu of the ops that succeed under the base parameters, with their results
	baseOps    []int
	baseline   []opResult // per menu entry
	cache      map[string]*setResult
	stranger   sdk.AccAddress
	baseBytes  []byte
	rootBytes  []byte
	internal   string
	extraEvals int64
	curKey     string // the parameter set being evaluated (for abort markers)
}

func safeErr(f func() error) (err error, panicked bool, text string) {
	defer func() {
		if r := recover(); r != nil {
			panicked, text = true, fmt.Sprint(r)
		}
	}()
	return f(), false, ""
}

func (w *worker[P]) bytesOf(p P) (b []byte, ok bool) {
	defer func() {
		if r := recover(); r != nil {
			b, ok = nil, false
		}
	}()
	return w.sp.marshal(w.e, p), true
}

func (w *worker[P]) stored(ctx sdk.Context) []byte {
	b, ok := w.bytesOf(w.sp.query(w.e, ctx))
	if !ok {
		return []byte("<unreadable>")
	}
	return b
}

func newWorker[P any](sp *spec[P], tier string) (w *worker[P]) {
	w = &worker[P]{sp: sp, tier: tier, cache: map[string]*setResult{}, stranger: mc.Addr("X")}
	w.e = sp.newEnv()
	w.base = sp.fixture(w.e)
	w.baseBytes = w.stored(w.base.Ctx)
	w.rootBytes = w.stored(w.e.Root)
	if want, ok := w.bytesOf(sp.base()); !ok || string(want) != string(w.baseBytes) {
		panic(fmt.Sprintf("c16/%s: the prepared state does not carry the base parameter set", sp.module))
	}
	// differential baseline: the menu under the base parameters
	w.baseline = make([]opResult, len(sp.menu))
	for i := range sp.menu {
		w.baseline[i] = w.runOp(w.base, i)
		if w.baseline[i].class == "ok" && len(w.baseline[i].blockPanics) == 0 {
			w.baseOps = append(w.baseOps, i)
		}
	}
	return w
}

const blockDT = 5 * time.Second

// fieldsOfKey: "a=x,b=y" -> "a+b" (the deviating fields of a parameter set, for signatures)
func fieldsOfKey(key string) string {
	var names []string
	for _, kv := range strings.Split(key, ",") {
		names = append(names, strings.SplitN(kv, "=", 2)[0])
	}
	sort.Strings(names)
	return strings.Join(names, "+")
}

// runOp executes menu entry i on a fork of st, then two blocks.
func (w *worker[P]) runOp(st *mc.State, i int) (res opResult) {
	o := w.sp.menu[i]
	fk := st.Fork()
	var msgs []sdk.Msg
	func() {
		defer func() {
			if r := recover(); r != nil {
				res = opResult{class: "skipped", text: fmt.Sprintf("message construction failed: %v", r)}
				msgs = nil
			}
		}()
		msgs = o.build(w.e, fk)
	}()
	if res.class == "skipped" {
		return res
	}
	mark := func(phase string) {
		mc.AbortMark(fmt.Sprintf("C16/%s/process-abort/%s/%s", w.sp.module, phase, fieldsOfKey(w.curKey)),
			fmt.Sprintf("under the accepted parameter set {%s} the operation %s (%s) does not end in success or an ordinary rejection: the process dies while executing it", w.curKey, o.name, phase),
			[]string{"set:" + w.curKey, "op:" + o.name})
	}
	if len(msgs) > 0 {
		mark(o.msgType)
		out := fk.Deliver(w.e, "op-"+o.name, msgs...)
		res.class = out.Class()
		switch {
		case out.Panic:
			res.text = out.PanicText
		case !out.OK:
			res.text = out.Err.Error()
		}
	} else {
		res.class = "ok"
	}
	for b := 0; b < 2; b++ {
		mark("block-after-" + o.msgType)
		bo := fk.NextBlock(w.e, blockDT)
		res.blockPanics = append(res.blockPanics, bo.Panics...)
	}
	return res
}

// eval evaluates one parameter set completely (memoised per worker).
func (w *worker[P]) eval(s pset) *setResult {
	sp := w.sp
	key := sp.key(w.tier, s)
	w.curKey = key
	if r, ok := w.cache[key]; ok {
		return r
	}
	r := &setResult{key: key}
	w.cache[key] = r
	p := sp.build(w.tier, s)
	want, marshalOK := w.bytesOf(p)

	// the module's own verdict
	err, panicked, text := safeErr(func() error { return sp.validate(p) })
	r.valid = err == nil && !panicked
	if panicked {
		r.validErr = "panic: " + text
	} else if err != nil {
		r.validErr = err.Error()
	}

	// (2a) stranger
	{
		fk := w.base.Fork()
		out := fk.Deliver(w.e, "params-stranger", sp.msg(w.stranger.String(), p))
		after := w.stored(fk.Ctx)
		r.strangerOK = out.OK
		if out.OK || string(after) != string(w.baseBytes) {
			r.raw = append(r.raw, rawFinding{kind: "stranger", replay2: "sender:stranger",
				detail: fmt.Sprintf("MsgUpdateParams signed by a non-authority (%s) with set {%s}: outcome %s; params query changed=%v",
					w.stranger, key, out, string(after) != string(w.baseBytes))})
		}
	}
	// (2b) authority
	var accepted *mc.State
	{
		fk := w.base.Fork()
		out := fk.Deliver(w.e, "params-authority", sp.msg(mc.Authority().String(), p))
		after := w.stored(fk.Ctx)
		r.authClass, r.authText = out.Class(), out.String()
		r.authStored = out.OK && marshalOK && string(after) == string(want)
		changed := string(after) != string(w.baseBytes)
		switch {
		case !r.valid && (out.OK || changed):
			r.raw = append(r.raw, rawFinding{kind: "invalid-msg", replay2: "sender:authority",
				detail: fmt.Sprintf("set {%s} is refused by %s Params.Validate() (%s) but MsgUpdateParams from the authority ended %s and the params query now returns %s",
					key, sp.module, r.validErr, out.Class(), sp.render(w.e, fk.Ctx))})
		case r.valid && out.OK && !r.authStored:
			// accepted but the query does not return what was sent: counts as not stored (reported as internal note)
			w.note(fmt.Sprintf("set {%s}: authority message succeeded but the params query returns something else", key))
		}
		if r.valid && r.authStored {
			r.accepted = true
			accepted = fk
		}
	}
	// (2c) genesis, on throw-away branches of the fresh chain state
	{
		verr, vpan, _ := safeErr(func() error { return sp.validateGenesis(p) })
		r.vgRefused = verr != nil || vpan
		ctx := mc.Branch(w.e.Root)
		_, ipan, _ := safeErr(func() error { sp.initGenesis(w.e, ctx, p); return nil })
		r.initRefused = ipan
		after := w.stored(ctx)
		structStored := !ipan && marshalOK && string(after) == string(want) && (string(after) != string(w.rootBytes) || len(s.devs()) == 0)
		// JSON route (what a node does at InitChain). The JSON codec may normalise a value (an unset decimal is
		// written as "0"), so this route is judged on what ends up stored: it must satisfy Validate().
		jsonStored, jsonInvalid, jsonErr := false, false, ""
		var js []byte
		_, jpan, _ := safeErr(func() error { js = sp.genesisJSON(w.e, p); return nil })
		if !jpan && js != nil {
			r.jsonTried = true
			ctx2 := mc.Branch(w.e.Root)
			_, ipan2, _ := safeErr(func() error {
				m, ok := w.e.App.ModuleManager.Modules[sp.module].(module.HasABCIGenesis)
				if !ok {
					panic("module has no ABCI genesis")
				}
				m.InitGenesis(ctx2, w.e.Cdc, js)
				return nil
			})
			r.jsonRefused = ipan2
			after2 := w.stored(ctx2)
			jsonStored = !ipan2 && marshalOK && string(after2) == string(want)
			if !ipan2 && string(after2) != string(w.rootBytes) {
				verr2, vpan2, vtext := safeErr(func() error { return sp.validate(sp.query(w.e, ctx2)) })
				if verr2 != nil || vpan2 {
					jsonInvalid = true
					jsonErr = vtext
					if verr2 != nil {
						jsonErr = verr2.Error()
					}
				}
			}
		}
		r.genesisStored = structStored || jsonStored
		switch {
		case !r.valid && structStored:
			r.raw = append(r.raw, rawFinding{kind: "invalid-genesis", replay2: "genesis",
				detail: fmt.Sprintf("set {%s} is refused by %s Params.Validate() (%s) but InitGenesis stored it (ValidateGenesis refused=%v)",
					key, sp.module, r.validErr, r.vgRefused)})
		case jsonInvalid:
			r.raw = append(r.raw, rawFinding{kind: "invalid-genesis", replay2: "genesis",
				detail: fmt.Sprintf("genesis JSON carrying set {%s}: AppModule.InitGenesis stored parameters that %s Params.Validate() refuses (%s)",
					key, sp.module, jsonErr)})
		}
	}
	// (3) operations under the accepted set
	if accepted != nil {
		r.ops = make([]opResult, len(w.baseOps))
		for n, i := range w.baseOps {
			res := w.runOp(accepted, i)
			r.ops[n] = res
			o := sp.menu[i]
			if res.class == "skipped" {
				w.note(fmt.Sprintf("set {%s} op %s: %s", key, o.name, res.text))
			}
			if res.class == "panic" {
				r.raw = append(r.raw, rawFinding{kind: "handler-panic", opIdx: n, replay2: "op:" + o.name,
					detail: fmt.Sprintf("under accepted set {%s} operation %s (%s) panicked: %s; under the defaults it succeeds", key, o.name, o.msgType, res.text)})
			}
			for _, bp := range res.blockPanics {
				r.raw = append(r.raw, rawFinding{kind: "block-panic", opIdx: n, phase: phaseOf(sp.module, bp), replay2: "op:" + o.name,
					detail: fmt.Sprintf("under accepted set {%s}, after operation %s (%s), a blocker aborted: %s; under the defaults the same two blocks run clean", key, o.name, res.class, bp)})
			}
		}
	}
	return r
}

func (w *worker[P]) note(s string) {
	if w.internal == "" {
		w.internal = s
	}
}

// phaseOf turns "<module>/<phase>: text" into the signature discriminator.
func phaseOf(mod, bp string) string {
	head := bp
	if i := strings.Index(bp, ":"); i > 0 {
		head = bp[:i]
	}
	parts := strings.SplitN(head, "/", 2)
	if len(parts) != 2 {
		return "unknown"
	}
	if parts[0] == mod {
		return parts[1]
	}
	return parts[0] + "-" + parts[1]
}

func (sp *spec[P]) render(e *mc.Env, ctx sdk.Context) (s string) {
	defer func() {
		if r := recover(); r != nil {
			s = "<unprintable>"
		}
	}()
	s = fmt.Sprintf("%+v", sp.query(e, ctx))
	if len(s) > 300 {
		s = s[:300] + "..."
	}
	return s
}

// matches reports whether result r shows the same finding as f (same kind / op / phase).
func matches(r *setResult, f rawFinding) bool {
	for _, g := range r.raw {
		if g.kind == f.kind && g.opIdx == f.opIdx && g.phase == f.phase {
			return true
		}
	}
	return false
}

// blame returns the smallest subset of the deviations of s that shows finding f on its own.
func (w *worker[P]) blame(s pset, f rawFinding) []int {
	d := s.devs()
	if len(d) <= 1 {
		return d
	}
	n := len(d)
	for size := 1; size < n; size++ {
		var found []int
		var rec func(start int, chosen []int) bool
		rec = func(start int, chosen []int) bool {
			if len(chosen) == size {
				sub := make(pset, len(s))
				for _, i := range chosen {
					sub[i] = s[i]
				}
				w.extraEvals++
				if matches(w.eval(sub), f) {
					found = append([]int{}, chosen...)
					return true
				}
				return false
			}
			for k := start; k < n; k++ {
				if rec(k+1, append(chosen, d[k])) {
					return true
				}
			}
			return false
		}
		if rec(0, nil) {
			return found
		}
	}
	return d
}

// found is one finding with its structured signature: prefix + blamed fields.
type found struct {
	prefix string   // C16/<module>/<rule>[/<msg type or phase>]
	fields []string // blamed fields, sorted (nil for rules without a field discriminator)
	detail string
	path   []string
}

func (f found) sig() string {
	if f.fields == nil {
		return f.prefix
	}
	return f.prefix + "/" + strings.Join(f.fields, "+")
}

func (w *worker[P]) findings(s pset, r *setResult) []found {
	var out []found
	sp := w.sp
	names := func(idx []int) []string {
		n := []string{}
		for _, i := range idx {
			n = append(n, sp.fields[i].name)
		}
		sort.Strings(n)
		if len(n) == 0 {
			n = []string{"defaults"}
		}
		return n
	}
	for _, f := range r.raw {
		fd := found{detail: f.detail, path: []string{"set:" + r.key, f.replay2}}
		switch f.kind {
		case "stranger":
			fd.prefix = fmt.Sprintf("C16/%s/stored-by-non-authority", sp.module)
		case "invalid-msg":
			fd.prefix, fd.fields = fmt.Sprintf("C16/%s/invalid-params-stored/msg", sp.module), names(w.blame(s, f))
		case "invalid-genesis":
			fd.prefix, fd.fields = fmt.Sprintf("C16/%s/invalid-params-stored/genesis", sp.module), names(w.blame(s, f))
		case "handler-panic":
			fd.prefix, fd.fields = fmt.Sprintf("C16/%s/handler-panic/%s", sp.module, sp.menu[w.baseOps[f.opIdx]].msgType), names(w.blame(s, f))
		case "block-panic":
			fd.prefix, fd.fields = fmt.Sprintf("C16/%s/block-panic/%s", sp.module, f.phase), names(w.blame(s, f))
		}
		out = append(out, fd)
	}
	return out
}

// fold maps every finding to its final signature: a finding blamed on several fields is the same defect as a
// finding of the same rule / message type blamed on a proper subset of those fields (a field whose deviation
// alone already breaks the handler is what is wrong; a second deviating field only changes the magnitudes).
func fold(all []found) map[string]string {
	have := map[string]bool{}
	for _, f := range all {
		have[f.sig()] = true
	}
	final := map[string]string{}
	for _, f := range all {
		sg := f.sig()
		if _, ok := final[sg]; ok {
			continue
		}
		final[sg] = sg
		n := len(f.fields)
		if n < 2 {
			continue
		}
		best := ""
		for size := 1; size < n && best == ""; size++ {
			for mask := 1; mask < 1<<n; mask++ {
				var sub []string
				for b := 0; b < n; b++ {
					if mask&(1<<b) != 0 {
						sub = append(sub, f.fields[b])
					}
				}
				if len(sub) != size {
					continue
				}
				cand := f.prefix + "/" + strings.Join(sub, "+")
				if have[cand] {
					best = cand
					break
				}
			}
		}
		if best != "" {
			final[sg] = best
		}
	}
	return final
}

// ---------------------------------------------------------------- part

func workers() int {
	n := runtime.NumCPU()
	if n > 12 {
		n = 12
	}
	if v := os.Getenv("VERIF_WORKERS"); v != "" {
		if k, err := strconv.Atoi(v); err == nil && k > 0 {
			n = k
		}
	}
	return n
}

type sample struct {
	Set     string `json:"set"`
	Op      string `json:"op"`
	Outcome string `json:"outcome"`
}

func part[P any](sp *spec[P]) mc.Part {
	return mc.Part{
		Name: sp.module,
		Run: func(tier string, known []mc.KnownFinding, deadline time.Time) (rep mc.PartReport) {
			start := time.Now()
			rep = mc.PartReport{Name: sp.module, Exhaustive: true}
			defer func() {
				if r := recover(); r != nil {
					rep.Internal = fmt.Sprintf("c16/%s: %v", sp.module, r)
					rep.Exhaustive = false
				}
				rep.WallS = time.Since(start).Seconds()
			}()
			sets, counts := sp.enumerate(tier)
			nw := workers()
			if nw > len(sets) {
				nw = len(sets)
			}
			results := make([]*setResult, len(sets))
			viols := make([][]found, len(sets))
			ws := make([]*worker[P], nw)
			var wg sync.WaitGroup
			var mu sync.Mutex
			next := 0
			capped := false
			var perr interface{}
			for k := 0; k < nw; k++ {
				wg.Add(1)
				go func(k int) {
					defer wg.Done()
					defer func() {
						if r := recover(); r != nil {
							mu.Lock()
							if perr == nil {
								perr = r
							}
							mu.Unlock()
						}
					}()
					w := newWorker(sp, tier)
					ws[k] = w
					for {
						mu.Lock()
						i := next
						next++
						stop := perr != nil
						mu.Unlock()
						if i >= len(sets) || stop {
							return
						}
						if !deadline.IsZero() && time.Now().After(deadline) {
							mu.Lock()
							capped = true
							mu.Unlock()
							return
						}
						r := w.eval(sets[i])
						results[i] = r
						if len(r.raw) > 0 {
							viols[i] = w.findings(sets[i], r)
						}
					}
				}(k)
			}
			wg.Wait()
			if perr != nil {
				panic(perr)
			}
			w0 := ws[0]

			// aggregate deterministically (set order)
			var nAccepted, nNontrivial, opRuns, validRefusedMsg, validRefusedGenesis, invalid int64
			hist := map[string]map[string]int64{}
			note := func(kind, class string) {
				if hist[kind] == nil {
					hist[kind] = map[string]int64{}
				}
				hist[kind][class]++
			}
			seen := map[string]bool{}
			var samples []interface{}
			wantSample := map[string]bool{}
			for _, r := range results {
				if r == nil {
					rep.Exhaustive = false
					continue
				}
				note("MsgUpdateParams(authority)", r.authClass)
				if r.strangerOK {
					note("MsgUpdateParams(stranger)", "ok")
				} else {
					note("MsgUpdateParams(stranger)", "err")
				}
				switch {
				case r.genesisStored:
					note("InitGenesis", "ok")
				default:
					note("InitGenesis", "err")
				}
				if !r.valid {
					invalid++
				}
				if r.valid && !r.accepted {
					validRefusedMsg++
				}
				if r.valid && !r.genesisStored {
					validRefusedGenesis++
				}
				if r.accepted {
					nAccepted++
					ran := false
					for n, o := range r.ops {
						opRuns++
						name := sp.menu[w0.baseOps[n]].name
						note(name, o.class)
						if o.class != "skipped" {
							ran = true
						}
						// samples: the first non-default occurrence of each (op, class) pair, a few in total
						sk := name + "/" + o.class
						if r.key != "default" && !wantSample[sk] && len(samples) < 6 && (o.class != "ok" || len(samples) < 2) {
							wantSample[sk] = true
							out := o.class
							if o.text != "" {
								out += ": " + mc.Normalize(o.text)
							}
							samples = append(samples, sample{Set: r.key, Op: name, Outcome: out})
						}
					}
					if ran && r.key != "default" {
						nNontrivial++
					}
				}
			}
			var all []found
			for i := range results {
				all = append(all, viols[i]...)
			}
			final := fold(all)
			type inst struct {
				Count    int      `json:"instances"`
				Sets     []string `json:"example_sets"`
				Outcomes []string `json:"distinct_texts"`
			}
			instances := map[string]*inst{}
			for _, f := range all {
				sg := final[f.sig()]
				in := instances[sg]
				if in == nil {
					in = &inst{}
					instances[sg] = in
				}
				in.Count++
				if len(in.Sets) < 12 {
					in.Sets = append(in.Sets, strings.TrimPrefix(f.path[0], "set:")+" @ "+f.path[1])
				}
				if !seen[sg] {
					seen[sg] = true
					rep.Violations = append(rep.Violations, mc.Violation{Finding: mc.Finding{Sig: sg, Detail: f.detail}, Path: f.path})
				}
			}
			if capped {
				rep.Exhaustive = false
			}
			sort.Slice(rep.Violations, func(a, b int) bool { return rep.Violations[a].Sig < rep.Violations[b].Sig })
			var extra int64
			for _, w := range ws {
				if w != nil {
					extra += w.extraEvals
					if w.internal != "" && rep.Internal == "" {
						rep.Internal = w.internal
					}
				}
			}
			rep.Evaluations = int64(len(sets))*3 + opRuns
			rep.Nontrivial = nNontrivial
			rep.OpHist = hist
			rep.Samples = samples
			rep.Rule = "non-trivial = accepted (Validate() ok and stored through the authority's MsgUpdateParams) non-default parameter set under which at least one menu operation was executed"

			var baseNames, excluded []string
			inBase := map[int]bool{}
			for _, i := range w0.baseOps {
				inBase[i] = true
				baseNames = append(baseNames, sp.menu[i].name)
			}
			for i, o := range sp.menu {
				if !inBase[i] {
					excluded = append(excluded, fmt.Sprintf("%s (%s under defaults: %s)", o.name, w0.baseline[i].class, mc.Normalize(w0.baseline[i].text)))
				}
			}
			for _, o := range sp.menu {
				if h, ok := hist[o.name]; ok && h["ok"] == 0 {
					rep.NeverOK = append(rep.NeverOK, o.name)
				}
			}
			doms := map[string]interface{}{}
			for _, f := range sp.fields {
				var ls []string
				for _, v := range f.domain(tier) {
					ls = append(ls, v.label)
				}
				tag := f.name
				if f.fee {
					tag += " [fee/tax/fraction group]"
				}
				doms[tag] = strings.Join(ls, " | ")
			}
			rep.Bounds = map[string]interface{}{
				"tier":                               tier,
				"base_parameter_set":                 sp.baseNote,
				"field_domains (first = default)":    doms,
				"parameter_sets":                     len(sets),
				"parameter_sets_by_class":            counts,
				"sets_refused_by_Validate":           invalid,
				"sets_accepted_and_stored":           nAccepted,
				"valid_sets_refused_by_message_path": validRefusedMsg,
				"valid_sets_refused_by_genesis_path": validRefusedGenesis,
				"senders":                            "authority (gov module account), stranger X; plus ValidateGenesis + InitGenesis (struct and JSON routes)",
				"menu_run_under_every_accepted_set":  baseNames,
				"menu_entries_outside_the_baseline":  excluded,
				"blocks_after_each_operation":        2,
				"operation_runs":                     opRuns,
				"blame_re_evaluations":               extra,
				"workers":                            nw,
			}
			if len(instances) > 0 {
				rep.Bounds["finding_instances"] = instances
			}
			return rep
		},
		Replay: func(path []string) ([]mc.Finding, error) {
			if len(path) == 0 || !strings.HasPrefix(path[0], "set:") {
				return nil, fmt.Errorf("replay path must start with set:<key>")
			}
			want := strings.TrimPrefix(path[0], "set:")
			tier := "thorough"
			sets, _ := sp.enumerate(tier)
			for _, s := range sets {
				if sp.key(tier, s) != want {
					continue
				}
				w := newWorker(sp, tier)
				r := w.eval(s)
				var fs []mc.Finding
				for _, v := range w.findings(s, r) {
					fs = append(fs, mc.Finding{Sig: v.sig(), Detail: v.detail})
				}
				return fs, nil
			}
			return nil, fmt.Errorf("no parameter set %q in the lattice of %s", want, sp.module)
		},
	}
}
