package c16

import (
	"fmt"
	"math"
	"math/big"
	"time"

	sdkmath "cosmossdk.io/math"
	sdk "github.com/cosmos/cosmos-sdk/types"

	"verif/harness/mc"
)

func must(out mc.Outcome, what string) mc.Outcome {
	if !out.OK {
		panic(fmt.Sprintf("c16 fixture step %s failed: %s", what, out))
	}
	return out
}

func dec(s string) sdkmath.LegacyDec { return sdkmath.LegacyMustNewDecFromStr(s) }

func pow2dec(k uint) sdkmath.LegacyDec {
	return sdkmath.LegacyNewDecFromBigInt(new(big.Int).Lsh(big.NewInt(1), k))
}

type lv[T any] struct {
	label string
	v     T
}

// decDomain: {default, unset (nil), 0, 10^-18, 1-10^-18, 1, 2, -1, 2^128}; thorough adds 0.5, 1+10^-18, -10^-18, 2^255.
func decDomain() (quick, more []lv[sdkmath.LegacyDec]) {
	one := sdkmath.LegacyOneDec()
	eps := sdkmath.LegacySmallestDec()
	quick = []lv[sdkmath.LegacyDec]{
		{"unset", sdkmath.LegacyDec{}},
		{"0", sdkmath.LegacyZeroDec()},
		{"1e-18", eps},
		{"1-1e-18", one.Sub(eps)},
		{"1", one},
		{"2", sdkmath.LegacyNewDec(2)},
		{"-1", sdkmath.LegacyNewDec(-1)},
		{"2^128", pow2dec(128)},
	}
	more = []lv[sdkmath.LegacyDec]{
		{"0.5", dec("0.5")},
		{"1+1e-18", one.Add(eps)},
		{"-1e-18", eps.Neg()},
		{"2^255", pow2dec(255)},
	}
	return
}

// decField builds a decimal field from a setter.
func decField[P any](name string, fee bool, set func(p *P, d sdkmath.LegacyDec)) field[P] {
	q, m := decDomain()
	f := field[P]{name: name, fee: fee, vals: []value[P]{{label: "default"}}}
	for _, x := range q {
		x := x
		f.vals = append(f.vals, value[P]{x.label, func(p *P) { set(p, x.v) }})
	}
	for _, x := range m {
		x := x
		f.more = append(f.more, value[P]{x.label, func(p *P) { set(p, x.v) }})
	}
	return f
}

func negCoin(denom string, n int64) sdk.Coin {
	return sdk.Coin{Denom: denom, Amount: sdkmath.NewInt(n)}
}

// coinDomain: {default, unset (empty denom, nil amount), zero amount, 1, unknown denom, empty denom, malformed denom,
// negative (struct built directly), 2^128}; thorough adds 2^255 and an upper-case denom.
func coinDomain(denom string, amt int64) (quick, more []lv[sdk.Coin]) {
	quick = []lv[sdk.Coin]{
		{"unset", sdk.Coin{}},
		{"zero-amount", sdk.Coin{Denom: denom, Amount: sdkmath.ZeroInt()}},
		{"1", sdk.Coin{Denom: denom, Amount: sdkmath.OneInt()}},
		{"unknown-denom", sdk.Coin{Denom: "nosuchdenom", Amount: sdkmath.NewInt(amt)}},
		{"empty-denom", sdk.Coin{Denom: "", Amount: sdkmath.NewInt(amt)}},
		{"malformed-denom", sdk.Coin{Denom: "1 bad!", Amount: sdkmath.NewInt(amt)}},
		{"negative", negCoin(denom, -1)},
		{"2^128", sdk.Coin{Denom: denom, Amount: mc.Big(128)}},
		{"2^255", sdk.Coin{Denom: denom, Amount: mc.Big(255)}},
	}
	more = []lv[sdk.Coin]{
		{"nil-amount", sdk.Coin{Denom: denom}},
		{"other-existing-denom", sdk.Coin{Denom: "btc", Amount: sdkmath.NewInt(amt)}},
	}
	return
}

func coinField[P any](name string, fee bool, denom string, amt int64, set func(p *P, c sdk.Coin)) field[P] {
	q, m := coinDomain(denom, amt)
	f := field[P]{name: name, fee: fee, vals: []value[P]{{label: "default"}}}
	for _, x := range q {
		x := x
		f.vals = append(f.vals, value[P]{x.label, func(p *P) { set(p, x.v) }})
	}
	for _, x := range m {
		x := x
		f.more = append(f.more, value[P]{x.label, func(p *P) { set(p, x.v) }})
	}
	return f
}

// listField builds a field from explicit labelled values.
func listField[P any, T any](name string, fee bool, set func(p *P, v T), quick []lv[T], more []lv[T]) field[P] {
	f := field[P]{name: name, fee: fee, vals: []value[P]{{label: "default"}}}
	for _, x := range quick {
		x := x
		f.vals = append(f.vals, value[P]{x.label, func(p *P) { set(p, x.v) }})
	}
	for _, x := range more {
		x := x
		f.more = append(f.more, value[P]{x.label, func(p *P) { set(p, x.v) }})
	}
	return f
}

var (
	int64Quick = []lv[int64]{{"0", 0}, {"1", 1}, {"-1", -1}, {"max-int64", math.MaxInt64}}
	int64More  = []lv[int64]{{"min-int64", math.MinInt64}, {"2", 2}}

	durQuick = []lv[time.Duration]{{"0", 0}, {"-1ns", -1}, {"1ns", 1}}
	durMore  = []lv[time.Duration]{{"max-duration", math.MaxInt64}, {"min-duration", math.MinInt64}}
)

// intDomain for sdk Int fields: {default, unset (nil), 0, 1, -1, 2^128}; extra values are appended by the caller.
func intDomain(extra ...lv[sdkmath.Int]) []lv[sdkmath.Int] {
	d := []lv[sdkmath.Int]{
		{"unset", sdkmath.Int{}},
		{"0", sdkmath.ZeroInt()},
		{"1", sdkmath.OneInt()},
		{"-1", sdkmath.NewInt(-1)},
		{"2^128", mc.Big(128)},
	}
	return append(d, extra...)
}
