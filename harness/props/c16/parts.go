package c16

import "verif/harness/mc"

// Parts: one exhaustive enumeration per module.
func Parts() []mc.Part {
	return []mc.Part{
		part(coinswapSpec()),
		part(farmSpec()),
		part(htlcSpec()),
		part(serviceSpec()),
		part(tokenSpec()),
	}
}
