package c16

import "verif/harness/mc"

// Parts: one exhaustive enumeration per module.
// Parts: every module's evaluation runs in a child process under an address-space limit (a parameter-sized
// allocation is an abort no recover() catches).
func Parts() []mc.Part {
	var ps []mc.Part
	for _, p := range InnerParts() {
		ps = append(ps, mc.GuardedSubprocessPart("C16", p.Name))
	}
	return ps
}

// InnerParts are the in-process evaluations the child processes run.
func InnerParts() []mc.Part {
	return []mc.Part{
		part(coinswapSpec()),
		part(farmSpec()),
		part(htlcSpec()),
		part(serviceSpec()),
		part(tokenSpec()),
	}
}
