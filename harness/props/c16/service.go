package c16

import (
	"math"
	"strings"
	"sync"
	"time"

	sdkmath "cosmossdk.io/math"
	tmbytes "github.com/cometbft/cometbft/libs/bytes"
	sdk "github.com/cosmos/cosmos-sdk/types"

	service "mods.irisnet.org/modules/service"
	svctypes "mods.irisnet.org/modules/service/types"

	"verif/harness/mc"
)

const (
	svcName    = "svc"
	svcSchemas = `{"input":{"type":"object"},"output":{"type":"object"}}`
	svcInput   = `{"header":{},"body":{}}`
	svcResOK   = `{"code":200,"message":""}`
	svcOutput  = `{"header":{},"body":{}}`
	svcPricing = `{"price":"100stake"}`
)

type svcFixture struct{ ctx1, ctx2 string }

// activeRequest returns the id of the active request of context ctxID addressed to provider.
func activeRequest(e *mc.Env, s *mc.State, ctxID, provider string) string {
	found := ""
	e.Service.IterateRequests(s.Ctx, func(id tmbytes.HexBytes, cr svctypes.CompactRequest) bool {
		if strings.EqualFold(cr.RequestContextId, ctxID) && cr.Provider == provider && e.Service.IsRequestActive(s.Ctx, id) {
			found = id.String()
			return true
		}
		return false
	})
	if found == "" {
		panic("no active request of " + ctxID + " for " + provider)
	}
	return found
}

func serviceSpec() *spec[svctypes.Params] {
	type P = svctypes.Params
	addr := func(n string) string { return mc.Addr(n).String() }
	one := func(m sdk.Msg) func(e *mc.Env, s *mc.State) []sdk.Msg {
		return func(e *mc.Env, s *mc.State) []sdk.Msg { return []sdk.Msg{m} }
	}
	var mu sync.Mutex
	fx := map[*mc.Env]*svcFixture{}
	get := func(e *mc.Env) *svcFixture {
		mu.Lock()
		defer mu.Unlock()
		return fx[e]
	}
	bind := func(p, owner string, deposit int64) *svctypes.MsgBindService {
		return &svctypes.MsgBindService{ServiceName: svcName, Provider: addr(p), Deposit: sdk.NewCoins(mc.C(std, deposit)), Pricing: svcPricing,
			QoS: 2, Options: "{}", Owner: addr(owner)}
	}
	call := func(providers []string, repeated bool) *svctypes.MsgCallService {
		var pds []string
		for _, p := range providers {
			pds = append(pds, addr(p))
		}
		m := &svctypes.MsgCallService{ServiceName: svcName, Providers: pds, Consumer: addr("U"), Input: svcInput,
			ServiceFeeCap: sdk.NewCoins(mc.C(std, 100)), Timeout: 2}
		if repeated {
			m.Repeated, m.RepeatedFrequency, m.RepeatedTotal = true, 2, 3
		}
		return m
	}
	gs := func(p P) *svctypes.GenesisState {
		g := svctypes.DefaultGenesisState()
		g.Params = p
		return g
	}
	coinsDomain := []lv[sdk.Coins]{
		{"empty", sdk.Coins{}},
		{"zero-amount", sdk.Coins{sdk.Coin{Denom: std, Amount: sdkmath.ZeroInt()}}},
		{"1", sdk.Coins{mc.C(std, 1)}},
		{"unknown-denom", sdk.Coins{mc.C("nosuchdenom", 5000)}},
		{"two-denoms", sdk.Coins{mc.C("btc", 7), mc.C(std, 5000)}},
		{"unsorted", sdk.Coins{mc.C(std, 5000), mc.C("btc", 7)}},
		{"duplicate-denom", sdk.Coins{mc.C(std, 5000), mc.C(std, 1)}},
		{"negative", sdk.Coins{negCoin(std, -1)}},
		{"malformed-denom", sdk.Coins{sdk.Coin{Denom: "1 bad!", Amount: sdkmath.NewInt(5000)}}},
		{"2^128", sdk.Coins{mc.CI(std, mc.Big(128))}},
	}
	return &spec[P]{
		module: "service",
		baseNote: "module defaults: max_request_timeout 100, min_deposit_multiple 1000, min_deposit 5000stake, service_fee_tax 0.05, slash_fraction 0.001, " +
			"complaint_retrospect 15d, arbitration_time_limit 5d, tx_size_limit 4000, base_denom stake, restricted_service_fee_denom false",
		base: svctypes.DefaultParams,
		fields: []field[P]{
			listField[P, int64]("max_request_timeout", false, func(p *P, v int64) { p.MaxRequestTimeout = v }, int64Quick, int64More),
			listField[P, int64]("min_deposit_multiple", true, func(p *P, v int64) { p.MinDepositMultiple = v }, int64Quick, int64More),
			listField[P, sdk.Coins]("min_deposit", true, func(p *P, v sdk.Coins) { p.MinDeposit = v }, coinsDomain, nil),
			decField[P]("service_fee_tax", true, func(p *P, d sdkmath.LegacyDec) { p.ServiceFeeTax = d }),
			decField[P]("slash_fraction", true, func(p *P, d sdkmath.LegacyDec) { p.SlashFraction = d }),
			listField[P, time.Duration]("complaint_retrospect", false, func(p *P, v time.Duration) { p.ComplaintRetrospect = v }, durQuick, durMore),
			listField[P, time.Duration]("arbitration_time_limit", false, func(p *P, v time.Duration) { p.ArbitrationTimeLimit = v }, durQuick, durMore),
			listField[P, uint64]("tx_size_limit", false, func(p *P, v uint64) { p.TxSizeLimit = v },
				[]lv[uint64]{{"0", 0}, {"1", 1}, {"max-uint64", math.MaxUint64}}, nil),
			listField[P, string]("base_denom", false, func(p *P, v string) { p.BaseDenom = v },
				[]lv[string]{{"empty", ""}, {"unknown-denom", "nosuchdenom"}, {"other-existing-denom", "btc"}, {"malformed", "1 bad!"}}, nil),
			listField[P, bool]("restricted_service_fee_denom", false, func(p *P, v bool) { p.RestrictedServiceFeeDenom = v }, []lv[bool]{{"true", true}}, nil),
		},
		validate: func(p P) error { return p.Validate() },
		msg:      func(a string, p P) sdk.Msg { return &svctypes.MsgUpdateParams{Authority: a, Params: p} },
		query: func(e *mc.Env, ctx sdk.Context) P {
			r, err := e.Service.Params(ctx, &svctypes.QueryParamsRequest{})
			if err != nil {
				panic(err)
			}
			return r.Params
		},
		marshal:         func(e *mc.Env, p P) []byte { return e.Cdc.MustMarshal(&p) },
		validateGenesis: func(p P) error { return svctypes.ValidateGenesis(*gs(p)) },
		initGenesis:     func(e *mc.Env, ctx sdk.Context, p P) { service.InitGenesis(ctx, e.Service, *gs(p)) },
		genesisJSON:     func(e *mc.Env, p P) []byte { return e.Cdc.MustMarshalJSON(gs(p)) },
		newEnv: func() *mc.Env {
			rich := sdk.NewCoins(mc.C(std, 100_000_000), mc.C("btc", 100_000_000))
			return mc.NewEnv(mc.EnvOptions{Balances: map[string]sdk.Coins{"U": rich, "O1": rich, "O2": rich, "X": rich,
				"P1": nil, "P2": nil, "P3": nil, "P4": nil, "P5": nil, "W": nil}})
		},
		fixture: func(e *mc.Env) *mc.State {
			s := &mc.State{Ctx: mc.Branch(e.Root)}
			must(s.Deliver(e, "fx-define", &svctypes.MsgDefineService{Name: svcName, Description: "d", Tags: []string{"t"}, Author: addr("U"),
				AuthorDescription: "a", Schemas: svcSchemas}), "define")
			must(s.Deliver(e, "fx-bind1", bind("P1", "O1", 200_000)), "bind P1")
			must(s.Deliver(e, "fx-bind2", bind("P2", "O1", 200_000)), "bind P2")
			must(s.Deliver(e, "fx-bind4", bind("P4", "O2", 100_000)), "bind P4")
			must(s.Deliver(e, "fx-disable4", &svctypes.MsgDisableServiceBinding{ServiceName: svcName, Provider: addr("P4"), Owner: addr("O2")}), "disable P4")
			must(s.Deliver(e, "fx-withdraw-addr", &svctypes.MsgSetWithdrawAddress{Owner: addr("O1"), WithdrawAddress: addr("W")}), "withdraw address")
			// P4's deposit becomes refundable after arbitration_time_limit + complaint_retrospect (20 days by default)
			s.NextBlock(e, 21*24*time.Hour)
			must(s.Deliver(e, "fx-bind5", bind("P5", "O2", 100_000)), "bind P5")
			must(s.Deliver(e, "fx-disable5", &svctypes.MsgDisableServiceBinding{ServiceName: svcName, Provider: addr("P5"), Owner: addr("O2")}), "disable P5")
			// an answered request: earned fees for P2 / owner O1
			out := must(s.Deliver(e, "fx-call0", call([]string{"P2"}, false)), "call 0")
			ctx0 := out.Responses[0].(*svctypes.MsgCallServiceResponse).RequestContextId
			s.NextBlock(e, blockDT)
			must(s.Deliver(e, "fx-respond0", &svctypes.MsgRespondService{RequestId: activeRequest(e, s, ctx0, addr("P2")), Provider: addr("P2"),
				Result: svcResOK, Output: svcOutput}), "respond 0")
			// two repeated contexts whose running batch expires in the second block after the prepared state
			f := &svcFixture{}
			f.ctx1 = must(s.Deliver(e, "fx-call1", call([]string{"P1", "P2"}, true)), "call 1").Responses[0].(*svctypes.MsgCallServiceResponse).RequestContextId
			f.ctx2 = must(s.Deliver(e, "fx-call2", call([]string{"P1"}, true)), "call 2").Responses[0].(*svctypes.MsgCallServiceResponse).RequestContextId
			s.NextBlock(e, blockDT)
			must(s.Deliver(e, "fx-pause2", &svctypes.MsgPauseRequestContext{RequestContextId: f.ctx2, Consumer: addr("U")}), "pause 2")
			mu.Lock()
			fx[e] = f
			mu.Unlock()
			return s
		},
		menu: []op{
			{"define-service", "MsgDefineService", one(&svctypes.MsgDefineService{Name: "svc2", Description: "d", Tags: []string{"t"}, Author: addr("U"),
				AuthorDescription: "a", Schemas: svcSchemas})},
			{"bind-service(P3)", "MsgBindService", one(bind("P3", "O2", 100_000))},
			{"update-binding(P1)", "MsgUpdateServiceBinding", one(&svctypes.MsgUpdateServiceBinding{ServiceName: svcName, Provider: addr("P1"),
				Deposit: sdk.NewCoins(mc.C(std, 1000)), Pricing: `{"price":"150stake"}`, QoS: 2, Options: "{}", Owner: addr("O1")})},
			{"set-withdraw-address", "MsgSetWithdrawAddress", one(&svctypes.MsgSetWithdrawAddress{Owner: addr("O2"), WithdrawAddress: addr("W")})},
			{"disable-binding(P1)", "MsgDisableServiceBinding", one(&svctypes.MsgDisableServiceBinding{ServiceName: svcName, Provider: addr("P1"), Owner: addr("O1")})},
			{"enable-binding(P5)", "MsgEnableServiceBinding", one(&svctypes.MsgEnableServiceBinding{ServiceName: svcName, Provider: addr("P5"),
				Deposit: sdk.NewCoins(mc.C(std, 10)), Owner: addr("O2")})},
			{"refund-deposit(P4)", "MsgRefundServiceDeposit", one(&svctypes.MsgRefundServiceDeposit{ServiceName: svcName, Provider: addr("P4"), Owner: addr("O2")})},
			{"call-service(once)", "MsgCallService", one(call([]string{"P1", "P2"}, false))},
			{"call-service(repeated)", "MsgCallService", one(call([]string{"P2"}, true))},
			{"respond-service(P1)", "MsgRespondService", func(e *mc.Env, s *mc.State) []sdk.Msg {
				return []sdk.Msg{&svctypes.MsgRespondService{RequestId: activeRequest(e, s, get(e).ctx1, addr("P1")), Provider: addr("P1"), Result: svcResOK, Output: svcOutput}}
			}},
			{"pause-context", "MsgPauseRequestContext", func(e *mc.Env, s *mc.State) []sdk.Msg {
				return []sdk.Msg{&svctypes.MsgPauseRequestContext{RequestContextId: get(e).ctx1, Consumer: addr("U")}}
			}},
			{"start-context", "MsgStartRequestContext", func(e *mc.Env, s *mc.State) []sdk.Msg {
				return []sdk.Msg{&svctypes.MsgStartRequestContext{RequestContextId: get(e).ctx2, Consumer: addr("U")}}
			}},
			{"kill-context", "MsgKillRequestContext", func(e *mc.Env, s *mc.State) []sdk.Msg {
				return []sdk.Msg{&svctypes.MsgKillRequestContext{RequestContextId: get(e).ctx1, Consumer: addr("U")}}
			}},
			{"update-context", "MsgUpdateRequestContext", func(e *mc.Env, s *mc.State) []sdk.Msg {
				return []sdk.Msg{&svctypes.MsgUpdateRequestContext{RequestContextId: get(e).ctx1, Consumer: addr("U"), Providers: []string{addr("P1")},
					ServiceFeeCap: sdk.NewCoins(mc.C(std, 200)), Timeout: 3, RepeatedFrequency: 4, RepeatedTotal: 5}}
			}},
			{"withdraw-earned-fees", "MsgWithdrawEarnedFees", one(&svctypes.MsgWithdrawEarnedFees{Owner: addr("O1"), Provider: addr("P2")})},
			{"idle(batch expiry, slash, next batch)", "blocks-only", func(e *mc.Env, s *mc.State) []sdk.Msg { return nil }},
		},
	}
}
