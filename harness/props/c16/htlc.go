package c16

import (
	"bytes"
	"encoding/hex"
	"math"
	"sync"
	"time"

	sdkmath "cosmossdk.io/math"
	"github.com/cometbft/cometbft/crypto/tmhash"
	sdk "github.com/cosmos/cosmos-sdk/types"

	htlc "mods.irisnet.org/modules/htlc"
	htlctypes "mods.irisnet.org/modules/htlc/types"

	"verif/harness/mc"
)

const bnb = "htltbnb"

func htlcBaseAsset() htlctypes.AssetParam {
	return htlctypes.AssetParam{
		Denom: bnb,
		SupplyLimit: htlctypes.SupplyLimit{Limit: sdkmath.NewInt(100), TimeLimited: true, TimePeriod: 60 * time.Second,
			TimeBasedLimit: sdkmath.NewInt(50)},
		Active: true, DeputyAddress: mc.Addr("D").String(), FixedFee: sdkmath.NewInt(2), MinSwapAmount: sdkmath.NewInt(3),
		MaxSwapAmount: sdkmath.NewInt(10), MinBlockLock: 50, MaxBlockLock: 60,
	}
}

func hashLock(secret []byte, ts uint64) []byte {
	if ts > 0 {
		return tmhash.Sum(append(append([]byte{}, secret...), sdk.Uint64ToBigEndian(ts)...))
	}
	return tmhash.Sum(secret)
}

var htlcSecret = bytes.Repeat([]byte{0x5a}, 32)

type htlcFixture struct{ plain, incoming, outgoing string }

func htlcSpec() *spec[htlctypes.Params] {
	type P = htlctypes.Params
	addr := func(n string) string { return mc.Addr(n).String() }
	// asset-level setter: applies to the first asset of the list (if any)
	a0 := func(f func(a *htlctypes.AssetParam)) func(p *P) {
		return func(p *P) {
			if len(p.AssetParams) > 0 {
				f(&p.AssetParams[0])
			}
		}
	}
	intField := func(name string, fee bool, set func(a *htlctypes.AssetParam, v sdkmath.Int), extra ...lv[sdkmath.Int]) field[P] {
		return listField[P, sdkmath.Int](name, fee, func(p *P, v sdkmath.Int) { a0(func(a *htlctypes.AssetParam) { set(a, v) })(p) }, intDomain(extra...), nil)
	}
	second := htlcBaseAsset()
	second.Denom = "htlteth"
	second.SupplyLimit.TimeLimited = false
	badSecond := second
	badSecond.MinSwapAmount = sdkmath.ZeroInt()
	other := htlcBaseAsset()
	other.Denom = "htltxyz"
	create := func(sender, to string, amt sdk.Coin, lock uint64, transfer bool, ts uint64) *htlctypes.MsgCreateHTLC {
		return &htlctypes.MsgCreateHTLC{Sender: addr(sender), To: addr(to), ReceiverOnOtherChain: "r", SenderOnOtherChain: "s",
			Amount: sdk.NewCoins(amt), HashLock: hex.EncodeToString(hashLock(htlcSecret, ts)), Timestamp: ts, TimeLock: lock, Transfer: transfer}
	}
	var fxMu sync.Mutex
	fx := map[*mc.Env]*htlcFixture{}
	getFx := func(e *mc.Env) *htlcFixture {
		fxMu.Lock()
		defer fxMu.Unlock()
		return fx[e]
	}
	claim := func(which func(f *htlcFixture) string) func(e *mc.Env, s *mc.State) []sdk.Msg {
		return func(e *mc.Env, s *mc.State) []sdk.Msg {
			return []sdk.Msg{&htlctypes.MsgClaimHTLC{Sender: addr("B"), Id: which(getFx(e)), Secret: hex.EncodeToString(htlcSecret)}}
		}
	}
	gs := func(p P) *htlctypes.GenesisState {
		return &htlctypes.GenesisState{Params: p, Htlcs: []htlctypes.HTLC{}, Supplies: []htlctypes.AssetSupply{}, PreviousBlockTime: mc.GenesisTime}
	}
	return &spec[P]{
		module: "htlc",
		baseNote: "module default is an empty asset list (no cross-chain operation possible); the lattice is centred on the fixture's one-asset list " +
			"{htltbnb: limit 100, time-limited 50 per 60s, active, deputy D, fixed fee 2, swap amount 3..10, block lock 50..60}; the empty list is one of the list-shape values",
		base: func() P { return P{AssetParams: []htlctypes.AssetParam{htlcBaseAsset()}} },
		fields: []field[P]{
			listField[P, []htlctypes.AssetParam]("asset_params", false, func(p *P, v []htlctypes.AssetParam) {
				p.AssetParams = append([]htlctypes.AssetParam{}, v...)
			}, []lv[[]htlctypes.AssetParam]{
				{"empty-list", nil},
				{"two-assets", []htlctypes.AssetParam{htlcBaseAsset(), second}},
				{"duplicate-denoms", []htlctypes.AssetParam{htlcBaseAsset(), htlcBaseAsset()}},
				{"asset-replaced-by-other-denom", []htlctypes.AssetParam{other}},
				{"second-asset-invalid", []htlctypes.AssetParam{htlcBaseAsset(), badSecond}},
			}, nil),
			listField[P, string]("asset_params.denom", false, func(p *P, v string) { a0(func(a *htlctypes.AssetParam) { a.Denom = v })(p) },
				[]lv[string]{{"empty", ""}, {"too-short", "htlt"}, {"no-prefix", "bnbcoin"}, {"upper-case", "HTLTBNB"}, {"malformed", "htlt bnb!"}}, nil),
			intField("asset_params.supply_limit.limit", true, func(a *htlctypes.AssetParam, v sdkmath.Int) { a.SupplyLimit.Limit = v },
				lv[sdkmath.Int]{"below-current-supply", sdkmath.NewInt(4)}, lv[sdkmath.Int]{"equal-time-based-limit", sdkmath.NewInt(50)}, lv[sdkmath.Int]{"time-based-limit-minus-1", sdkmath.NewInt(49)}),
			listField[P, bool]("asset_params.supply_limit.time_limited", false, func(p *P, v bool) { a0(func(a *htlctypes.AssetParam) { a.SupplyLimit.TimeLimited = v })(p) },
				[]lv[bool]{{"false", false}}, nil),
			listField[P, time.Duration]("asset_params.supply_limit.time_period", false, func(p *P, v time.Duration) {
				a0(func(a *htlctypes.AssetParam) { a.SupplyLimit.TimePeriod = v })(p)
			}, durQuick, durMore),
			intField("asset_params.supply_limit.time_based_limit", true, func(a *htlctypes.AssetParam, v sdkmath.Int) { a.SupplyLimit.TimeBasedLimit = v },
				lv[sdkmath.Int]{"equal-limit", sdkmath.NewInt(100)}, lv[sdkmath.Int]{"limit-plus-1", sdkmath.NewInt(101)}),
			listField[P, bool]("asset_params.active", false, func(p *P, v bool) { a0(func(a *htlctypes.AssetParam) { a.Active = v })(p) },
				[]lv[bool]{{"false", false}}, nil),
			listField[P, string]("asset_params.deputy_address", false, func(p *P, v string) { a0(func(a *htlctypes.AssetParam) { a.DeputyAddress = v })(p) },
				[]lv[string]{{"empty", ""}, {"not-bech32", "deputy"}, {"other-account", mc.Addr("X").String()}, {"htlc-module-account", mc.ModuleAddr(htlctypes.ModuleName).String()}}, nil),
			intField("asset_params.fixed_fee", true, func(a *htlctypes.AssetParam, v sdkmath.Int) { a.FixedFee = v }),
			intField("asset_params.min_swap_amount", true, func(a *htlctypes.AssetParam, v sdkmath.Int) { a.MinSwapAmount = v },
				lv[sdkmath.Int]{"equal-max", sdkmath.NewInt(10)}, lv[sdkmath.Int]{"max-plus-1", sdkmath.NewInt(11)}),
			intField("asset_params.max_swap_amount", true, func(a *htlctypes.AssetParam, v sdkmath.Int) { a.MaxSwapAmount = v },
				lv[sdkmath.Int]{"equal-min", sdkmath.NewInt(3)}, lv[sdkmath.Int]{"min-minus-1", sdkmath.NewInt(2)}),
			listField[P, uint64]("asset_params.min_block_lock", false, func(p *P, v uint64) { a0(func(a *htlctypes.AssetParam) { a.MinBlockLock = v })(p) },
				[]lv[uint64]{{"0", 0}, {"49", 49}, {"equal-max", 60}, {"max-plus-1", 61}, {"max-uint64", math.MaxUint64}}, nil),
			listField[P, uint64]("asset_params.max_block_lock", false, func(p *P, v uint64) { a0(func(a *htlctypes.AssetParam) { a.MaxBlockLock = v })(p) },
				[]lv[uint64]{{"0", 0}, {"min-minus-1", 49}, {"equal-min", 50}, {"34560", 34560}, {"34561", 34561}, {"max-uint64", math.MaxUint64}}, nil),
		},
		validate: func(p P) error { return p.Validate() },
		msg:      func(a string, p P) sdk.Msg { return &htlctypes.MsgUpdateParams{Authority: a, Params: p} },
		query: func(e *mc.Env, ctx sdk.Context) P {
			r, err := e.HTLC.Params(ctx, &htlctypes.QueryParamsRequest{})
			if err != nil {
				panic(err)
			}
			return r.Params
		},
		marshal:         func(e *mc.Env, p P) []byte { return e.Cdc.MustMarshal(&p) },
		validateGenesis: func(p P) error { return htlctypes.ValidateGenesis(*gs(p)) },
		initGenesis:     func(e *mc.Env, ctx sdk.Context, p P) { htlc.InitGenesis(ctx, e.HTLC, *gs(p)) },
		genesisJSON:     func(e *mc.Env, p P) []byte { return e.Cdc.MustMarshalJSON(gs(p)) },
		newEnv: func() *mc.Env {
			coins := sdk.NewCoins(mc.C("btc", 1000), mc.C("eth", 1000), mc.C(std, 1000))
			return mc.NewEnv(mc.EnvOptions{Balances: map[string]sdk.Coins{"A": coins, "B": coins, "D": sdk.NewCoins(mc.C(std, 10)), "X": coins}})
		},
		fixture: func(e *mc.Env) *mc.State {
			s := &mc.State{Ctx: mc.Branch(e.Root)}
			must(s.Deliver(e, "fx-params", &htlctypes.MsgUpdateParams{Authority: mc.Authority().String(), Params: P{AssetParams: []htlctypes.AssetParam{htlcBaseAsset()}}}), "asset params")
			s.NextBlock(e, time.Second) // the begin-blocker creates the supply record of the new asset
			ts := uint64(s.Ctx.BlockTime().Unix())
			idOf := func(out mc.Outcome) string { return out.Responses[0].(*htlctypes.MsgCreateHTLCResponse).Id }
			// bring 10 htltbnb into circulation (incoming swap claimed) so that outgoing swaps are possible
			in0 := idOf(must(s.Deliver(e, "fx-in0", create("D", "A", mc.C(bnb, 10), 50, true, ts)), "incoming 0"))
			must(s.Deliver(e, "fx-claim0", &htlctypes.MsgClaimHTLC{Sender: addr("B"), Id: in0, Secret: hex.EncodeToString(htlcSecret)}), "claim incoming 0")
			f := &htlcFixture{}
			f.plain = idOf(must(s.Deliver(e, "fx-plain", create("A", "B", mc.C("btc", 5), 50, false, 0)), "plain htlc"))
			f.incoming = idOf(must(s.Deliver(e, "fx-in1", create("D", "B", mc.C(bnb, 5), 50, true, ts)), "incoming 1"))
			f.outgoing = idOf(must(s.Deliver(e, "fx-out1", create("A", "D", mc.C(bnb, 5), 50, true, ts)), "outgoing 1"))
			fxMu.Lock()
			fx[e] = f
			fxMu.Unlock()
			// all three expire in the begin-block of the next height: the two blocks run after every operation refund them
			for i := 0; i < 49; i++ {
				s.NextBlock(e, time.Second)
			}
			return s
		},
		menu: []op{
			{"create-htlc(plain)", "MsgCreateHTLC", func(e *mc.Env, s *mc.State) []sdk.Msg {
				return []sdk.Msg{create("A", "B", mc.C("btc", 7), 50, false, 0)}
			}},
			{"create-htlt(incoming)", "MsgCreateHTLC", func(e *mc.Env, s *mc.State) []sdk.Msg {
				return []sdk.Msg{create("D", "A", mc.C(bnb, 4), 50, true, uint64(s.Ctx.BlockTime().Unix()))}
			}},
			{"create-htlt(outgoing)", "MsgCreateHTLC", func(e *mc.Env, s *mc.State) []sdk.Msg {
				return []sdk.Msg{create("A", "D", mc.C(bnb, 5), 55, true, uint64(s.Ctx.BlockTime().Unix()))}
			}},
			{"claim(plain)", "MsgClaimHTLC", claim(func(f *htlcFixture) string { return f.plain })},
			{"claim(incoming)", "MsgClaimHTLC", claim(func(f *htlcFixture) string { return f.incoming })},
			{"claim(outgoing)", "MsgClaimHTLC", claim(func(f *htlcFixture) string { return f.outgoing })},
			{"idle(expiry)", "blocks-only", func(e *mc.Env, s *mc.State) []sdk.Msg { return nil }},
		},
	}
}
