package c16

import (
	sdkmath "cosmossdk.io/math"
	sdk "github.com/cosmos/cosmos-sdk/types"

	cstypes "mods.irisnet.org/modules/coinswap/types"

	"verif/harness/mc"
)

const std = "stake"

func lptOf(e *mc.Env, s *mc.State, counterparty string) string {
	p, ok := e.Coinswap.GetPool(s.Ctx, cstypes.GetPoolId(counterparty))
	if !ok {
		panic("no pool for " + counterparty)
	}
	return p.LptDenom
}

func coinswapSpec() *spec[cstypes.Params] {
	type P = cstypes.Params
	huge := mc.Big(200)
	dl := func(s *mc.State) int64 { return s.Ctx.BlockTime().Unix() + 1_000_000 }
	addr := func(n string) string { return mc.Addr(n).String() }
	sell := func(in, out string, amt int64) func(e *mc.Env, s *mc.State) []sdk.Msg {
		return func(e *mc.Env, s *mc.State) []sdk.Msg {
			return []sdk.Msg{&cstypes.MsgSwapOrder{Input: cstypes.Input{Address: addr("C"), Coin: mc.C(in, amt)},
				Output: cstypes.Output{Address: addr("C"), Coin: mc.C(out, 1)}, Deadline: dl(s)}}
		}
	}
	buy := func(in, out string, amt int64) func(e *mc.Env, s *mc.State) []sdk.Msg {
		return func(e *mc.Env, s *mc.State) []sdk.Msg {
			return []sdk.Msg{&cstypes.MsgSwapOrder{Input: cstypes.Input{Address: addr("C"), Coin: mc.CI(in, huge)},
				Output: cstypes.Output{Address: addr("C"), Coin: mc.C(out, amt)}, Deadline: dl(s), IsBuyOrder: true}}
		}
	}
	return &spec[P]{
		module:   "coinswap",
		baseNote: "module defaults: fee 0.003, pool_creation_fee 5000stake, tax_rate 0.4, unilateral_liquidity_fee 0.002",
		base:     cstypes.DefaultParams,
		product:  true,
		fields: []field[P]{
			decField[P]("fee", true, func(p *P, d sdkmath.LegacyDec) { p.Fee = d }),
			coinField[P]("pool_creation_fee", true, std, 5000, func(p *P, c sdk.Coin) { p.PoolCreationFee = c }),
			decField[P]("tax_rate", true, func(p *P, d sdkmath.LegacyDec) { p.TaxRate = d }),
			decField[P]("unilateral_liquidity_fee", true, func(p *P, d sdkmath.LegacyDec) { p.UnilateralLiquidityFee = d }),
		},
		validate: func(p P) error { return p.Validate() },
		msg: func(a string, p P) sdk.Msg {
			return &cstypes.MsgUpdateParams{Authority: a, Params: p}
		},
		query: func(e *mc.Env, ctx sdk.Context) P {
			r, err := e.Coinswap.Params(ctx, &cstypes.QueryParamsRequest{})
			if err != nil {
				panic(err)
			}
			return r.Params
		},
		marshal: func(e *mc.Env, p P) []byte { return e.Cdc.MustMarshal(&p) },
		validateGenesis: func(p P) error {
			gs := cstypes.DefaultGenesisState()
			gs.Params = p
			return cstypes.ValidateGenesis(*gs)
		},
		initGenesis: func(e *mc.Env, ctx sdk.Context, p P) {
			gs := cstypes.DefaultGenesisState()
			gs.Params = p
			e.Coinswap.InitGenesis(ctx, *gs)
		},
		genesisJSON: func(e *mc.Env, p P) []byte {
			gs := cstypes.DefaultGenesisState()
			gs.Params = p
			return e.Cdc.MustMarshalJSON(gs)
		},
		newEnv: func() *mc.Env {
			rich := mc.Big(135)
			coins := sdk.NewCoins(mc.CI(std, rich), mc.CI("btc", rich), mc.CI("eth", rich), mc.CI("usdt", rich))
			return mc.NewEnv(mc.EnvOptions{Balances: map[string]sdk.Coins{"A": coins, "B": coins, "C": coins, "X": coins}})
		},
		fixture: func(e *mc.Env) *mc.State {
			s := &mc.State{Ctx: mc.Branch(e.Root)}
			must(s.Deliver(e, "fx-pool1", &cstypes.MsgAddLiquidity{MaxToken: mc.C("btc", 500_003), ExactStandardAmt: sdkmath.NewInt(1_000_007),
				MinLiquidity: sdkmath.OneInt(), Deadline: dl(s), Sender: addr("A")}), "pool btc")
			must(s.Deliver(e, "fx-pool2", &cstypes.MsgAddLiquidity{MaxToken: mc.C("eth", 700_001), ExactStandardAmt: sdkmath.NewInt(900_001),
				MinLiquidity: sdkmath.OneInt(), Deadline: dl(s), Sender: addr("B")}), "pool eth")
			s.NextBlock(e, blockDT)
			return s
		},
		menu: []op{
			{"sell(btc->stake,1)", "MsgSwapOrder", sell("btc", std, 1)},
			{"sell(btc->stake,1000)", "MsgSwapOrder", sell("btc", std, 1000)},
			{"sell(stake->btc,1000)", "MsgSwapOrder", sell(std, "btc", 1000)},
			{"sell(btc->eth,1000)", "MsgSwapOrder", sell("btc", "eth", 1000)},
			{"buy(stake->btc,1000)", "MsgSwapOrder", buy(std, "btc", 1000)},
			{"buy(btc->stake,1)", "MsgSwapOrder", buy("btc", std, 1)},
			{"buy(btc->eth,1000)", "MsgSwapOrder", buy("btc", "eth", 1000)},
			{"add-liquidity(btc)", "MsgAddLiquidity", func(e *mc.Env, s *mc.State) []sdk.Msg {
				return []sdk.Msg{&cstypes.MsgAddLiquidity{MaxToken: mc.CI("btc", huge), ExactStandardAmt: sdkmath.NewInt(1000),
					MinLiquidity: sdkmath.OneInt(), Deadline: dl(s), Sender: addr("C")}}
			}},
			{"add-liquidity(usdt,new-pool)", "MsgAddLiquidity", func(e *mc.Env, s *mc.State) []sdk.Msg {
				return []sdk.Msg{&cstypes.MsgAddLiquidity{MaxToken: mc.C("usdt", 3000), ExactStandardAmt: sdkmath.NewInt(1000),
					MinLiquidity: sdkmath.OneInt(), Deadline: dl(s), Sender: addr("C")}}
			}},
			{"remove-liquidity(A,1000)", "MsgRemoveLiquidity", func(e *mc.Env, s *mc.State) []sdk.Msg {
				return []sdk.Msg{&cstypes.MsgRemoveLiquidity{WithdrawLiquidity: mc.C(lptOf(e, s, "btc"), 1000), MinToken: sdkmath.ZeroInt(),
					MinStandardAmt: sdkmath.ZeroInt(), Deadline: dl(s), Sender: addr("A")}}
			}},
			{"remove-liquidity(A,all)", "MsgRemoveLiquidity", func(e *mc.Env, s *mc.State) []sdk.Msg {
				lpt := lptOf(e, s, "btc")
				return []sdk.Msg{&cstypes.MsgRemoveLiquidity{WithdrawLiquidity: mc.CI(lpt, e.Bal(s.Ctx, mc.Addr("A"), lpt)), MinToken: sdkmath.ZeroInt(),
					MinStandardAmt: sdkmath.ZeroInt(), Deadline: dl(s), Sender: addr("A")}}
			}},
			{"add-unilateral(btc side)", "MsgAddUnilateralLiquidity", func(e *mc.Env, s *mc.State) []sdk.Msg {
				return []sdk.Msg{&cstypes.MsgAddUnilateralLiquidity{CounterpartyDenom: "btc", ExactToken: mc.C("btc", 1000), MinLiquidity: sdkmath.ZeroInt(), Deadline: dl(s), Sender: addr("C")}}
			}},
			{"add-unilateral(stake side)", "MsgAddUnilateralLiquidity", func(e *mc.Env, s *mc.State) []sdk.Msg {
				return []sdk.Msg{&cstypes.MsgAddUnilateralLiquidity{CounterpartyDenom: "btc", ExactToken: mc.C(std, 1000), MinLiquidity: sdkmath.ZeroInt(), Deadline: dl(s), Sender: addr("C")}}
			}},
			{"remove-unilateral(btc side)", "MsgRemoveUnilateralLiquidity", func(e *mc.Env, s *mc.State) []sdk.Msg {
				return []sdk.Msg{&cstypes.MsgRemoveUnilateralLiquidity{CounterpartyDenom: "btc", MinToken: mc.C("btc", 1), ExactLiquidity: sdkmath.NewInt(1000), Deadline: dl(s), Sender: addr("A")}}
			}},
			{"remove-unilateral(stake side)", "MsgRemoveUnilateralLiquidity", func(e *mc.Env, s *mc.State) []sdk.Msg {
				return []sdk.Msg{&cstypes.MsgRemoveUnilateralLiquidity{CounterpartyDenom: "btc", MinToken: mc.C(std, 1), ExactLiquidity: sdkmath.NewInt(1000), Deadline: dl(s), Sender: addr("A")}}
			}},
			{"idle", "blocks-only", func(e *mc.Env, s *mc.State) []sdk.Msg { return nil }},
		},
	}
}
