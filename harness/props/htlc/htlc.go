// Package htlc drives the HTLC module for C03 (funds leave escrow exactly once) and C04 (escrow and
// cross-chain supply counters match the open contracts).
package htlc

import (
	"bytes"
	"encoding/hex"
	"encoding/json"
	"fmt"
	"github.com/cosmos/cosmos-sdk/codec"
	banktypes "github.com/cosmos/cosmos-sdk/x/bank/types"
	"math/big"
	"sort"
	"strings"
	"time"

	sdkmath "cosmossdk.io/math"
	"github.com/cometbft/cometbft/crypto/tmhash"
	tmbytes "github.com/cometbft/cometbft/libs/bytes"
	sdk "github.com/cosmos/cosmos-sdk/types"

	htlctypes "mods.irisnet.org/modules/htlc/types"

	"verif/harness/mc"
)

const (
	bnb = "htltbnb"
	eth = "htlteth"
)

// Variant selects the alphabet.
type Variant struct {
	Name  string
	Mode  string // "C03" or "C04"
	Cross bool   // include cross-chain (HTLT) contracts
	// InitialHeight of the chain (0 = 1): 204 puts the expiry heights (lock 50 / 51) on the byte boundary 255 / 256
	InitialHeight int64
	// UnsetPreviousBlockTime starts the chain from an htlc genesis without previous_block_time (valid)
	UnsetPreviousBlockTime bool
	// Relist: governance may remove the second asset from the parameters and list it again (same settings)
	Relist bool
	// BankSend: governance may switch the bank module's SendEnabled flag of the locked denomination off and on
	// (a transfer freeze between accounts; it does not concern what the module owes at an expiry)
	BankSend bool
	// Only restricts the contract templates offered (nil = all of the variant's)
	Only []string
}

type contract struct {
	ID        string
	Sender    string
	To        string
	Amount    sdk.Coins
	Secret    int
	Timestamp uint64
	Expiry    int64
	Transfer  bool
	Dir       int // 0 none, 1 incoming, 2 outgoing
	State     int // 0 open, 1 completed, 2 refunded
	Tmpl      string
	// Gone: closed before a restart from genesis; the export carries open contracts only, so the record of a
	// closed one does not exist any more (its id is free again)
	Gone bool
}

type window struct {
	elapsed time.Duration
	done    *big.Int // amount completed (incoming claims) in the current window
}

type model struct {
	cs     []contract
	minted map[string]*big.Int
	burned map[string]*big.Int
	win    map[string]*window
	// delisted / relisted: assets governance removed from the parameters (and listed again)
	delisted map[string]bool
	relisted map[string]bool
}

func (m *model) Clone() mc.Model {
	c := &model{cs: append([]contract{}, m.cs...), minted: map[string]*big.Int{}, burned: map[string]*big.Int{}, win: map[string]*window{}}
	for k, v := range m.minted {
		c.minted[k] = new(big.Int).Set(v)
	}
	for k, v := range m.burned {
		c.burned[k] = new(big.Int).Set(v)
	}
	for k, v := range m.win {
		c.win[k] = &window{elapsed: v.elapsed, done: new(big.Int).Set(v.done)}
	}
	for k := range m.delisted {
		if c.delisted == nil {
			c.delisted = map[string]bool{}
		}
		c.delisted[k] = true
	}
	for k := range m.relisted {
		if c.relisted == nil {
			c.relisted = map[string]bool{}
		}
		c.relisted[k] = true
	}
	return c
}

func (m *model) Canon() []byte {
	var b bytes.Buffer
	cs := append([]contract{}, m.cs...)
	sort.Slice(cs, func(i, j int) bool { return cs[i].ID < cs[j].ID })
	for _, c := range cs {
		fmt.Fprintf(&b, "%s:%d%v;", c.ID, c.State, c.Gone)
	}
	for _, k := range []string{bnb, eth} {
		fmt.Fprintf(&b, "%v%v", m.delisted[k], m.relisted[k])
		fmt.Fprintf(&b, "%s:%s/%s/", k, m.minted[k], m.burned[k])
		if w := m.win[k]; w != nil {
			fmt.Fprintf(&b, "%d/%s;", w.elapsed, w.done)
		}
	}
	return b.Bytes()
}

var secrets = [][]byte{bytes.Repeat([]byte{0x11}, 32), bytes.Repeat([]byte{0x22}, 32)}

func hashLock(secret []byte, ts uint64) []byte {
	if ts > 0 {
		return tmhash.Sum(append(append([]byte{}, secret...), sdk.Uint64ToBigEndian(ts)...))
	}
	return tmhash.Sum(secret)
}

type tmpl struct {
	name     string
	sender   string
	to       string
	amount   sdk.Coins
	secret   int
	stamped  bool // timestamp = fixture time (else 0)
	lock     uint64
	transfer bool
	dir      int
}

var plainTmpls = []tmpl{
	{name: "c1", sender: "A", to: "B", amount: sdk.NewCoins(mc.C("btc", 5)), secret: 0, lock: 50},
	{name: "c2", sender: "A", to: "B", amount: sdk.NewCoins(mc.C("btc", 5)), secret: 0, stamped: true, lock: 50},
	{name: "c3", sender: "B", to: "C", amount: sdk.NewCoins(mc.C("btc", 3), mc.C("eth", 2)), secret: 1, lock: 51},
}

var crossTmpls = []tmpl{
	{name: "in1", sender: "D", to: "A", amount: sdk.NewCoins(mc.C(bnb, 3)), secret: 0, stamped: true, lock: 50, transfer: true, dir: 1},
	{name: "in2", sender: "D", to: "B", amount: sdk.NewCoins(mc.C(bnb, 2)), secret: 1, stamped: true, lock: 50, transfer: true, dir: 1},
	{name: "in3", sender: "D", to: "A", amount: sdk.NewCoins(mc.C(eth, 3)), secret: 1, stamped: true, lock: 50, transfer: true, dir: 1},
	{name: "in4", sender: "D", to: "B", amount: sdk.NewCoins(mc.C(eth, 2)), secret: 0, stamped: true, lock: 50, transfer: true, dir: 1},
	{name: "out1", sender: "A", to: "D", amount: sdk.NewCoins(mc.C(bnb, 2)), secret: 1, stamped: true, lock: 50, transfer: true, dir: 2},
	{name: "p1", sender: "A", to: "B", amount: sdk.NewCoins(mc.C("btc", 5)), secret: 0, lock: 50},
}

type opData struct {
	kind   string
	t      tmpl
	idx    int
	secret []byte
	why    string
	dt     time.Duration
}

// Driver implements mc.Driver.
type Driver struct {
	V   Variant
	fxT uint64
}

func New(v Variant) func() (*mc.Env, mc.Driver) {
	return func() (*mc.Env, mc.Driver) {
		coins := sdk.NewCoins(mc.C("btc", 1000), mc.C("eth", 1000), mc.C("stake", 1000))
		opts := mc.EnvOptions{
			Balances:      map[string]sdk.Coins{"A": coins, "B": coins, "C": coins, "D": sdk.NewCoins(mc.C("stake", 10))},
			BlockModules:  []string{"htlc"},
			InitialHeight: v.InitialHeight,
		}
		if v.UnsetPreviousBlockTime {
			opts.GenesisMutators = map[string]func(cdc codec.Codec, raw json.RawMessage) json.RawMessage{
				htlctypes.ModuleName: func(cdc codec.Codec, raw json.RawMessage) json.RawMessage {
					var gs htlctypes.GenesisState
					cdc.MustUnmarshalJSON(raw, &gs)
					gs.PreviousBlockTime = time.Time{}
					return cdc.MustMarshalJSON(&gs)
				},
			}
		}
		e := mc.NewEnv(opts)
		return e, &Driver{V: v}
	}
}

func (d *Driver) ID() string       { return d.V.Mode + "/" + d.V.Name }
func (d *Driver) Stores() []string { return []string{"htlc", "bank"} }

func assetParams() htlctypes.Params {
	dep := mc.Addr("D").String()
	one, five := sdkmath.NewInt(1), sdkmath.NewInt(5)
	return htlctypes.Params{AssetParams: []htlctypes.AssetParam{
		// bnb: the total limit binds (in1 3 + in2 2 > 4) while the per-period limit alone would admit both;
		// eth: the per-period limit binds (3 + 2 > 3) while the total limit is far
		{Denom: bnb, SupplyLimit: htlctypes.SupplyLimit{Limit: sdkmath.NewInt(4), TimeLimited: true, TimePeriod: 60 * time.Second, TimeBasedLimit: sdkmath.NewInt(4)},
			Active: true, DeputyAddress: dep, FixedFee: one, MinSwapAmount: one, MaxSwapAmount: five, MinBlockLock: 50, MaxBlockLock: 60},
		{Denom: eth, SupplyLimit: htlctypes.SupplyLimit{Limit: sdkmath.NewInt(8), TimeLimited: true, TimePeriod: 90 * time.Second, TimeBasedLimit: sdkmath.NewInt(3)},
			Active: true, DeputyAddress: dep, FixedFee: one, MinSwapAmount: one, MaxSwapAmount: five, MinBlockLock: 50, MaxBlockLock: 60},
	}}
}

func (d *Driver) Init(e *mc.Env) *mc.State {
	s := &mc.State{Ctx: mc.Branch(e.Root)}
	m := &model{minted: map[string]*big.Int{bnb: new(big.Int), eth: new(big.Int)}, burned: map[string]*big.Int{bnb: new(big.Int), eth: new(big.Int)},
		win: map[string]*window{bnb: {done: new(big.Int)}, eth: {done: new(big.Int)}}}
	s.Model = m
	if d.V.Cross {
		out := s.Deliver(e, "fx-params", &htlctypes.MsgUpdateParams{Authority: mc.Authority().String(), Params: assetParams()})
		if !out.OK {
			panic("fixture params: " + out.String())
		}
		// the next begin-block creates the asset supply records; the module starts a new asset's first
		// limit window at the previous block's time, i.e. the creating block's own time step already counts
		s.NextBlock(e, 30*time.Second)
		for _, a := range assetParams().AssetParams {
			if a.SupplyLimit.TimeLimited && 30*time.Second < a.SupplyLimit.TimePeriod {
				m.win[a.Denom].elapsed = 30 * time.Second
			}
		}
	}
	d.fxT = uint64(s.Ctx.BlockTime().Unix())
	return s
}

func (d *Driver) tmpls() []tmpl {
	all := plainTmpls
	if d.V.Cross {
		all = crossTmpls
	}
	if d.V.Only == nil {
		return all
	}
	var out []tmpl
	for _, t := range all {
		for _, n := range d.V.Only {
			if t.name == n {
				out = append(out, t)
			}
		}
	}
	return out
}

func (d *Driver) ts(t tmpl) uint64 {
	if t.stamped {
		return d.fxT
	}
	return 0
}

func (d *Driver) Enabled(e *mc.Env, s *mc.State) []mc.Op {
	m := s.Model.(*model)
	var ops []mc.Op
	for _, t := range d.tmpls() {
		ops = append(ops, mc.Op{Name: "create(" + t.name + ")", Data: opData{kind: "create", t: t}})
	}
	if d.V.Cross && d.V.Relist {
		if m.delisted[eth] {
			ops = append(ops, mc.Op{Name: "gov:relist(eth)", Data: opData{kind: "relist"}})
		} else {
			ops = append(ops, mc.Op{Name: "gov:delist(eth)", Data: opData{kind: "delist"}})
		}
	}
	if d.V.BankSend {
		dn := "btc"
		if d.V.Cross {
			dn = bnb
		}
		if e.App.BankKeeper.IsSendEnabledDenom(s.Ctx, dn) {
			ops = append(ops, mc.Op{Name: "gov:bank-send-enabled(" + dn + ",off)", Data: opData{kind: "banksend", why: dn, idx: 0}})
		} else {
			ops = append(ops, mc.Op{Name: "gov:bank-send-enabled(" + dn + ",on)", Data: opData{kind: "banksend", why: dn, idx: 1}})
		}
	}
	minExp := int64(0)
	for i, c := range m.cs {
		if c.Gone {
			continue
		}
		other := secrets[1-c.Secret]
		ops = append(ops, mc.Op{Name: fmt.Sprintf("claim(%s,right)", c.Tmpl), Data: opData{kind: "claim", idx: i, secret: secrets[c.Secret], why: "right"}})
		ops = append(ops, mc.Op{Name: fmt.Sprintf("claim(%s,wrong)", c.Tmpl), Data: opData{kind: "claim", idx: i, secret: other, why: "wrong-secret"}})
		if c.State == 0 && (minExp == 0 || c.Expiry < minExp) {
			minExp = c.Expiry
		}
	}
	ops = append(ops, mc.Op{Name: "block(30s)", Data: opData{kind: "block", dt: 30 * time.Second}})
	if d.V.Cross {
		ops = append(ops, mc.Op{Name: "block(60s)", Data: opData{kind: "block", dt: 60 * time.Second}})
	}
	if minExp > s.Ctx.BlockHeight()+1 {
		ops = append(ops, mc.Op{Name: "to-expiry-1", Data: opData{kind: "jump", idx: int(minExp - 1 - s.Ctx.BlockHeight())}})
	}
	return ops
}

// Restarted (mc.RestartAware): the chain was restarted from its own exported genesis, which carries the open
// contracts only.
func (d *Driver) Restarted(e *mc.Env, s *mc.State) {
	m := s.Model.(*model)
	for i := range m.cs {
		if m.cs[i].State != 0 {
			m.cs[i].Gone = true
		}
	}
}

func (d *Driver) universe() mc.Universe {
	return mc.Universe{"A": mc.Addr("A"), "B": mc.Addr("B"), "C": mc.Addr("C"), "D": mc.Addr("D"), "escrow": mc.ModuleAddr(htlctypes.ModuleName)}
}

var adoptC13 = map[string]string{"C03/refund-": "C13/htlc/due-processing/refund-", "C03/escrow-differs": "C13/htlc/due-processing/escrow-differs"}

func (d *Driver) sel(fs []mc.Finding) []mc.Finding {
	if d.V.Mode == "C13" {
		return mc.Select(fs, "C13", adoptC13)
	}
	return mc.Select(fs, d.V.Mode, nil)
}

func (d *Driver) Apply(e *mc.Env, s *mc.State, op mc.Op) []mc.Finding {
	return d.sel(d.apply(e, s, op))
}

func class(c contract) string {
	switch {
	case !c.Transfer:
		return "plain"
	case c.Dir == 1:
		return "incoming"
	default:
		return "outgoing"
	}
}

func neg(x sdk.Coins) (sdk.Coins, int64) { return x, -1 }

// oneBlock advances one block and checks the refunds due in the begin-block of the new height.
func (d *Driver) oneBlock(e *mc.Env, s *mc.State, dt time.Duration) []mc.Finding {
	m := s.Model.(*model)
	var fs []mc.Finding
	u := d.universe()
	before := e.Snapshot(s.Ctx, u)
	bo := s.NextBlock(e, dt)
	fs = append(fs, mc.BlockPanicFindings(d.V.Mode, bo)...)
	h := s.Ctx.BlockHeight()
	exp := mc.Expect()
	due := 0
	for i := range m.cs {
		c := &m.cs[i]
		if c.State == 0 && c.Expiry == h {
			due++
			c.State = 2
			if !c.Transfer || c.Dir == 2 {
				exp.AddCoins(c.Sender, c.Amount, 1).AddCoins("escrow", c.Amount, -1)
			}
		}
	}
	got := mc.Diff(before, e.Snapshot(s.Ctx, u))
	if !got.Equal(exp) {
		fs = append(fs, mc.F("C03/refund-at-expiry-differs", "begin-block %d moved [%s]; contracts expiring at this height require exactly [%s]", h, got, exp))
	}
	n := 0
	for _, ev := range bo.Events {
		if ev.Type == htlctypes.EventTypeRefundHTLC {
			n++
		}
	}
	if n != due {
		fs = append(fs, mc.F("C03/refund-events-differ", "begin-block %d emitted %d refund events, %d contracts were due", h, n, due))
	}
	// reference of the tumbling limit window (accumulated block time since the last reset reaching the period)
	if d.V.Cross {
		for _, a := range assetParams().AssetParams {
			w := m.win[a.Denom]
			ne := w.elapsed + dt
			if a.SupplyLimit.TimeLimited && ne < a.SupplyLimit.TimePeriod {
				w.elapsed = ne
			} else {
				w.elapsed = 0
				w.done = new(big.Int)
			}
		}
	}
	return fs
}

func (d *Driver) apply(e *mc.Env, s *mc.State, op mc.Op) []mc.Finding {
	od := op.Data.(opData)
	m := s.Model.(*model)
	var fs []mc.Finding
	u := d.universe()
	switch od.kind {
	case "block":
		return d.oneBlock(e, s, od.dt)
	case "jump":
		for i := 0; i < od.idx; i++ {
			fs = append(fs, d.oneBlock(e, s, time.Second)...)
		}
		return fs
	case "create":
		t := od.t
		ts := d.ts(t)
		hl := hashLock(secrets[t.secret], ts)
		id := hex.EncodeToString(tmhash.Sum(append(append(append(append([]byte{}, hl...), mc.Addr(t.sender)...), mc.Addr(t.to)...), []byte(t.amount.Sort().String())...)))
		exists := false
		for _, c := range m.cs {
			if c.ID == id && !c.Gone {
				exists = true
			}
		}
		before := e.Snapshot(s.Ctx, u)
		out := s.Deliver(e, op.Name, &htlctypes.MsgCreateHTLC{Sender: mc.Addr(t.sender).String(), To: mc.Addr(t.to).String(),
			ReceiverOnOtherChain: "r", SenderOnOtherChain: "s", Amount: append(sdk.Coins{}, t.amount...), HashLock: hex.EncodeToString(hl), Timestamp: ts, TimeLock: t.lock, Transfer: t.transfer})
		if !out.OK {
			return fs
		}
		got := mc.Diff(before, e.Snapshot(s.Ctx, u))
		if exists {
			fs = append(fs, mc.F("C03/duplicate-id-accepted", "%s created although contract %s already exists; moved [%s]", op.Name, id, got))
			return fs
		}
		resp, _ := out.Responses[0].(*htlctypes.MsgCreateHTLCResponse)
		if resp == nil || resp.Id == "" {
			fs = append(fs, mc.F("C03/no-id-returned", "%s: response %v", op.Name, resp))
			return fs
		}
		// the id is a function of hash lock, parties and amount (so that a duplicate can be recognised)
		if !bytes.EqualFold([]byte(resp.Id), []byte(id)) {
			fs = append(fs, mc.F("C03/id-not-content-derived", "%s: returned id %s, expected sha256(hashlock|sender|to|amount) = %s", op.Name, resp.Id, id))
		}
		exp := mc.Expect()
		if !t.transfer || t.dir == 2 {
			exp.AddCoins(t.sender, t.amount, -1).AddCoins("escrow", t.amount, 1)
		}
		if !got.Equal(exp) {
			fs = append(fs, mc.F("C03/create-moves-differ/"+class(contract{Transfer: t.transfer, Dir: t.dir}), "%s moved [%s], expected [%s]", op.Name, got, exp))
		}
		m.cs = append(m.cs, contract{ID: resp.Id, Sender: t.sender, To: t.to, Amount: t.amount, Secret: t.secret, Timestamp: ts,
			Expiry: s.Ctx.BlockHeight() + int64(t.lock), Transfer: t.transfer, Dir: t.dir, Tmpl: t.name})
		return fs
	case "banksend":
		s.Deliver(e, op.Name, &banktypes.MsgSetSendEnabled{Authority: mc.Authority().String(), SendEnabled: []*banktypes.SendEnabled{{Denom: od.why, Enabled: od.idx == 1}}})
		return fs
	case "delist", "relist":
		p := assetParams()
		if od.kind == "delist" {
			p.AssetParams = p.AssetParams[:1]
		}
		out := s.Deliver(e, op.Name, &htlctypes.MsgUpdateParams{Authority: mc.Authority().String(), Params: p})
		if out.OK {
			if m.delisted == nil {
				m.delisted = map[string]bool{}
			}
			if m.relisted == nil {
				m.relisted = map[string]bool{}
			}
			if od.kind == "delist" {
				m.delisted[eth] = true
			} else {
				delete(m.delisted, eth)
				m.relisted[eth] = true
			}
		}
		return fs
	case "claim":
		c := &m.cs[od.idx]
		before := e.Snapshot(s.Ctx, u)
		out := s.Deliver(e, op.Name, &htlctypes.MsgClaimHTLC{Sender: mc.Addr("C").String(), Id: c.ID, Secret: hex.EncodeToString(od.secret)})
		got := mc.Diff(before, e.Snapshot(s.Ctx, u))
		right := od.why == "right"
		if !out.OK {
			if right && c.State == 0 && !c.Transfer {
				fs = append(fs, mc.F("C03/valid-claim-rejected/plain", "%s on an open contract with the preimage was rejected: %s", op.Name, out))
			}
			return fs
		}
		if !right || c.State != 0 {
			reason := od.why
			if c.State == 1 {
				reason = "already-completed"
			} else if c.State == 2 {
				reason = "already-refunded"
			}
			fs = append(fs, mc.F("C03/invalid-claim-accepted/"+reason+"/"+class(*c), "%s succeeded (model state %d); moved [%s]", op.Name, c.State, got))
			return fs
		}
		exp := mc.Expect()
		switch {
		case !c.Transfer:
			exp.AddCoins(c.To, c.Amount, 1).AddCoins("escrow", c.Amount, -1)
		case c.Dir == 1:
			exp.AddCoins(c.To, c.Amount, 1).AddCoins("supply", c.Amount, 1)
			dn := c.Amount[0].Denom
			m.minted[dn].Add(m.minted[dn], c.Amount[0].Amount.BigInt())
			m.win[dn].done.Add(m.win[dn].done, c.Amount[0].Amount.BigInt())
		default:
			exp.AddCoins("escrow", c.Amount, -1).AddCoins("supply", c.Amount, -1)
			dn := c.Amount[0].Denom
			m.burned[dn].Add(m.burned[dn], c.Amount[0].Amount.BigInt())
		}
		if !got.Equal(exp) {
			fs = append(fs, mc.F("C03/claim-moves-differ/"+class(*c), "%s moved [%s], expected [%s]", op.Name, got, exp))
		}
		c.State = 1
		return fs
	}
	panic("unknown op")
}

func (d *Driver) Check(e *mc.Env, s *mc.State) []mc.Finding {
	fs := d.check(e, s)
	if d.V.Mode == "C13" {
		fs = append(fs, Hygiene(e, s)...)
	}
	return d.sel(fs)
}

// Hygiene compares the raw expiration queue with the contracts: every entry refers to an existing open
// contract expiring at the entry's height; every open contract has exactly one entry, at its expiration
// height; no entry is at a height whose begin-block has already run.
func Hygiene(e *mc.Env, s *mc.State) []mc.Finding {
	var fs []mc.Finding
	h := s.Ctx.BlockHeight()
	entries := map[string]int{}
	for _, q := range mc.QueueEntries(s.Ctx, e, "htlc", 0x02) {
		id := strings.ToUpper(hex.EncodeToString(q.Rest))
		entries[id]++
		c, found := e.HTLC.GetHTLC(s.Ctx, q.Rest)
		switch {
		case !found:
			fs = append(fs, mc.F("C13/queue/htlc/entry-without-contract", "queue entry at height %d for unknown contract %s", q.Height, id))
		case c.State != htlctypes.Open:
			fs = append(fs, mc.F("C13/queue/htlc/entry-for-closed-contract", "queue entry at height %d for contract in state %s", q.Height, c.State))
		case int64(c.ExpirationHeight) != q.Height:
			fs = append(fs, mc.F("C13/queue/htlc/entry-height-differs", "queue entry at height %d, contract expires at %d", q.Height, c.ExpirationHeight))
		}
		if q.Height <= h {
			fs = append(fs, mc.F("C13/queue/htlc/entry-in-the-past", "queue entry at height %d still present in block %d (begin-block of that height has run)", q.Height, h))
		}
	}
	e.HTLC.IterateHTLCs(s.Ctx, func(id tmbytes.HexBytes, c htlctypes.HTLC) bool {
		if c.State == htlctypes.Open {
			if n := entries[strings.ToUpper(hex.EncodeToString(id))]; n != 1 {
				fs = append(fs, mc.F("C13/queue/htlc/open-contract-entry-count", "open contract expiring at %d has %d queue entries", c.ExpirationHeight, n))
			}
		}
		return false
	})
	return fs
}

func (d *Driver) check(e *mc.Env, s *mc.State) []mc.Finding {
	m := s.Model.(*model)
	var fs []mc.Finding
	openEscrow := sdk.NewCoins()
	incoming := map[string]*big.Int{bnb: new(big.Int), eth: new(big.Int)}
	outgoing := map[string]*big.Int{bnb: new(big.Int), eth: new(big.Int)}
	nOpen := 0
	for _, c := range m.cs {
		if c.Gone {
			continue
		}
		r, err := e.HTLC.HTLC(s.Ctx, &htlctypes.QueryHTLCRequest{Id: c.ID})
		if err != nil || r.Htlc == nil {
			fs = append(fs, mc.F("C03/contract-vanished", "contract %s (%s): %v", c.Tmpl, c.ID, err))
			continue
		}
		if int(r.Htlc.State) != c.State {
			fs = append(fs, mc.F("C03/state-differs", "contract %s: query says %s, reference says %d (0 open,1 completed,2 refunded)", c.Tmpl, r.Htlc.State, c.State))
		}
		if c.State == 0 {
			nOpen++
			if !c.Transfer || c.Dir == 2 {
				openEscrow = openEscrow.Add(c.Amount...)
			}
			if c.Transfer && c.Dir == 1 {
				incoming[c.Amount[0].Denom].Add(incoming[c.Amount[0].Denom], c.Amount[0].Amount.BigInt())
			}
			if c.Transfer && c.Dir == 2 {
				outgoing[c.Amount[0].Denom].Add(outgoing[c.Amount[0].Denom], c.Amount[0].Amount.BigInt())
			}
		}
	}
	s.Nontrivial = nOpen >= 1 && len(m.cs) >= 2
	esc := e.AllBal(s.Ctx, mc.ModuleAddr(htlctypes.ModuleName))
	if !esc.Equal(openEscrow) {
		sig := "C03/escrow-differs-from-open-contracts"
		if d.V.Mode == "C04" {
			sig = "C04/escrow-differs-from-open-contracts"
		}
		fs = append(fs, mc.F(sig, "escrow holds %s, open ordinary + open outgoing contracts sum to %s", esc, openEscrow))
	}
	if d.V.Cross {
		for _, a := range assetParams().AssetParams {
			if m.delisted[a.Denom] {
				continue // not an asset of the module at the moment
			}
			r, err := e.HTLC.AssetSupply(s.Ctx, &htlctypes.QueryAssetSupplyRequest{Denom: a.Denom})
			if err != nil {
				fs = append(fs, mc.F("C04/asset-supply-missing", "%s: %v", a.Denom, err))
				continue
			}
			sup := r.AssetSupply
			if sup.IncomingSupply.Amount.BigInt().Cmp(incoming[a.Denom]) != 0 {
				fs = append(fs, mc.F("C04/incoming-counter-differs", "%s: recorded incoming %s, open incoming transfers sum to %s", a.Denom, sup.IncomingSupply.Amount, incoming[a.Denom]))
			}
			if sup.OutgoingSupply.Amount.BigInt().Cmp(outgoing[a.Denom]) != 0 {
				fs = append(fs, mc.F("C04/outgoing-counter-differs", "%s: recorded outgoing %s, open outgoing transfers sum to %s", a.Denom, sup.OutgoingSupply.Amount, outgoing[a.Denom]))
			}
			cur := new(big.Int).Sub(m.minted[a.Denom], m.burned[a.Denom])
			if sup.CurrentSupply.Amount.BigInt().Cmp(cur) != 0 {
				fs = append(fs, mc.F("C04/current-counter-differs", "%s: recorded current %s, minted-burned = %s", a.Denom, sup.CurrentSupply.Amount, cur))
			}
			if bs := e.Supply(s.Ctx, a.Denom).BigInt(); bs.Cmp(cur) != 0 {
				fs = append(fs, mc.F("C04/bank-supply-differs", "%s: bank supply %s, minted-burned = %s", a.Denom, bs, cur))
			}
			tot := new(big.Int).Add(sup.CurrentSupply.Amount.BigInt(), sup.IncomingSupply.Amount.BigInt())
			if tot.Cmp(a.SupplyLimit.Limit.BigInt()) > 0 {
				fs = append(fs, mc.F("C04/total-limit-exceeded", "%s: current %s + incoming %s > limit %s", a.Denom, sup.CurrentSupply.Amount, sup.IncomingSupply.Amount, a.SupplyLimit.Limit))
			}
			if a.SupplyLimit.TimeLimited && !m.relisted[a.Denom] && m.win[a.Denom].done.Cmp(a.SupplyLimit.TimeBasedLimit.BigInt()) > 0 {
				fs = append(fs, mc.F("C04/time-based-limit-exceeded", "%s: %s completed within one limit period (%s into it), time-based limit %s", a.Denom, m.win[a.Denom].done, m.win[a.Denom].elapsed, a.SupplyLimit.TimeBasedLimit))
			}
		}
	}
	return fs
}

const rule = "state with >= 2 contracts created of which >= 1 still open; distinct by canonical hash of htlc+bank stores, header and contract-status model"

// Parts for mode C03 / C04.
func Parts(mode string) func() []mc.Part {
	return func() []mc.Part {
		// thorough depths: C13 runs these next to eight other explorations inside one time budget
		tp, tc := 9, 8
		if mode == "C13" {
			tp, tc = 8, 7
		}
		ps := []mc.Part{
			mc.ExplorePartC("plain", New(Variant{Name: "plain", Mode: mode}), 7, tp, false, rule,
				&mc.ConfOpts{Stores: []string{"htlc"}, SkipDenoms: map[string]bool{"stake": true}, MaxPaths: 60}),
			mc.ExplorePart("cross-chain", New(Variant{Name: "cross-chain", Mode: mode, Cross: true}), 6, tc, false, rule),
			// heights are the keys of the expiry queue: this chain starts at 204, so contracts expire at 254..257
			mc.ExplorePart("plain-at-height-204", New(Variant{Name: "plain-at-height-204", Mode: mode, InitialHeight: 204}), 6, 8, false, rule),
		}
		// a history may contain a restart of the chain from its own exported genesis: open contracts must still
		// expire, be claimable and be counted afterwards (closed ones are dropped by the export, by design)
		// the restart is offered inside a block (the state as it is) and where it really happens, between two blocks
		// (InitGenesis under the next block's height); outside C13 also with an initial height 51 above the export's:
		// a contract whose expiration height falls into the gap is overdue on the new chain - no block has that
		// height, so it stays open (claimable), and whatever happens its funds may leave escrow at most once
		skip := int64(51)
		if mode == "C13" {
			skip = 0 // an overdue contract's queue entry is not "awaiting processing": outside the hygiene rules
		}
		ps = append(ps,
			mc.ExplorePart("plain-restarting", mc.WithBoundaryRestart(New(Variant{Name: "plain-restarting", Mode: mode}), skip, "htlc"), 6, 8, false, rule),
			mc.ExplorePart("cross-chain-restarting", mc.WithBoundaryRestart(New(Variant{Name: "cross-chain-restarting", Mode: mode, Cross: true}), skip, "htlc"), 5, 6, false, rule))
		// governance freezes transfers of the locked denomination between accounts (bank SendEnabled) around the expiry
		ps = append(ps,
			mc.ExplorePart("plain-send-disabled", New(Variant{Name: "plain-send-disabled", Mode: mode, BankSend: true}), 5, 7, false, rule),
			mc.ExplorePart("cross-chain-send-disabled", New(Variant{Name: "cross-chain-send-disabled", Mode: mode, Cross: true, BankSend: true, Only: []string{"in1", "out1"}}), 6, 8, false, rule))
		// two hundred and sixty contracts due at one height
		ps = append(ps, BurstPart(mode))
		if mode == "C04" {
			ps = append(ps, GenesisAssertionPart())
		}
		{
			// governance removes an asset from the parameters and lists it again: its supply records must survive
			ps = append(ps, mc.ExplorePart("cross-chain-relisting", New(Variant{Name: "cross-chain-relisting", Mode: mode, Cross: true, Relist: true}), 5, 6, false, rule))
		}
		// the three large explorations run last: on a slow machine the time budget then cuts into them (exit 0,
		// exhaustive:false), not into the small parts that each cover something nothing else does
		return append(append([]mc.Part{}, ps[3:]...), ps[:3]...)
	}
}
