package htlc

import (
	"encoding/hex"
	"fmt"
	"time"

	"github.com/cometbft/cometbft/crypto/tmhash"
	sdk "github.com/cosmos/cosmos-sdk/types"

	htlctypes "mods.irisnet.org/modules/htlc/types"

	"verif/harness/mc"
)

// BurstPart: "every time-bound object is processed exactly at its due height and exactly once" has no bound on how
// many objects fall due together. A scripted history creates 260 plain contracts that all expire at one height,
// claims two of them (one early, one in the last block before the expiry), walks to the expiration height and two
// blocks beyond, and judges every block: refunds exactly in the begin-block of the expiration height, one event
// each, escrow = open contracts, the queue-hygiene rules, no second payment for anybody.
func BurstPart(mode string) mc.Part {
	const n = 260
	return mc.Part{Name: "expiry-burst-260", Run: func(tier string, known []mc.KnownFinding, dl time.Time) mc.PartReport {
		start := time.Now()
		rep := mc.PartReport{Exhaustive: true, Rule: "scripted history: 260 contracts due at one height; every block judged"}
		coins := sdk.NewCoins(mc.C("btc", 1_000_000), mc.C("stake", 1000))
		e := mc.NewEnv(mc.EnvOptions{Balances: map[string]sdk.Coins{"A": coins, "B": sdk.NewCoins(mc.C("stake", 1000))}, BlockModules: []string{"htlc"}})
		s := &mc.State{Ctx: mc.Branch(e.Root)}
		type con struct {
			id     string
			secret []byte
			amt    int64
			state  int // 0 open 1 completed 2 refunded
		}
		var cs []*con
		var path []string
		var viol []mc.Violation
		report := func(fs []mc.Finding) {
			for _, f := range fs {
				v := mc.Violation{Finding: f, Path: append([]string{}, path...), PreConfirmed: true}
				if mc.MatchKnown(known, v.Sig) != nil {
					if rep.KnownSeen == nil {
						rep.KnownSeen = map[string]mc.Violation{}
					}
					rep.KnownSeen[v.Sig] = v
					continue
				}
				dup := false
				for _, o := range viol {
					dup = dup || o.Sig == v.Sig
				}
				if !dup {
					viol = append(viol, v)
				}
			}
		}
		sel := func(fs []mc.Finding) []mc.Finding {
			if mode == "C13" {
				return mc.Select(fs, "C13", adoptC13)
			}
			return mc.Select(fs, mode, nil)
		}
		esc := mc.ModuleAddr(htlctypes.ModuleName)
		judge := func(step string) {
			path = append(path, step)
			rep.Evaluations++
			var fs []mc.Finding
			open := int64(0)
			for _, c := range cs {
				idb, _ := hex.DecodeString(c.id)
				h, found := e.HTLC.GetHTLC(s.Ctx, idb)
				if !found {
					fs = append(fs, mc.F("C03/contract-vanished", "contract %s", c.id))
					continue
				}
				if int(h.State) != c.state {
					fs = append(fs, mc.F("C03/state-differs", "contract of %dbtc expiring at %d: stored state %s, reference %d (0 open,1 completed,2 refunded) at height %d", c.amt, h.ExpirationHeight, h.State, c.state, s.Ctx.BlockHeight()))
				}
				if c.state == 0 {
					open += c.amt
				}
			}
			if have := e.Bal(s.Ctx, esc, "btc").Int64(); have != open {
				fs = append(fs, mc.F("C03/escrow-differs-from-open-contracts", "escrow holds %dbtc, open contracts sum to %dbtc", have, open))
			}
			// C04 speaks about the contracts the chain itself reports open
			storedOpen := int64(0)
			for _, c := range cs {
				idb, _ := hex.DecodeString(c.id)
				if h, found := e.HTLC.GetHTLC(s.Ctx, idb); found && h.State == htlctypes.Open {
					storedOpen += c.amt
				}
			}
			if have := e.Bal(s.Ctx, esc, "btc").Int64(); have != storedOpen {
				fs = append(fs, mc.F("C04/escrow-differs-from-open-contracts", "escrow holds %dbtc, the contracts stored as open sum to %dbtc", have, storedOpen))
			}
			fs = sel(fs)
			if mode == "C13" {
				fs = append(fs, Hygiene(e, s)...)
			}
			report(fs)
		}
		expiry := int64(0)
		for i := 0; i < n; i++ {
			secret := tmhash.Sum([]byte(fmt.Sprintf("burst-%d", i)))
			o := s.Deliver(e, fmt.Sprintf("burst-create-%03d", i), &htlctypes.MsgCreateHTLC{Sender: mc.Addr("A").String(), To: mc.Addr("B").String(),
				ReceiverOnOtherChain: "r", SenderOnOtherChain: "s", Amount: sdk.NewCoins(mc.C("btc", int64(i+1))), HashLock: hex.EncodeToString(tmhash.Sum(secret)), TimeLock: 50})
			if !o.OK {
				rep.Internal = "scripted create failed: " + o.String()
				return rep
			}
			id := ""
			for _, ev := range o.Events {
				if ev.Type == htlctypes.EventTypeCreateHTLC {
					for _, a := range ev.Attributes {
						if a.Key == htlctypes.AttributeKeyID {
							id = a.Value
						}
					}
				}
			}
			cs = append(cs, &con{id: id, secret: secret, amt: int64(i + 1)})
		}
		expiry = s.Ctx.BlockHeight() + 50
		judge("create x260")
		claim := func(k int) {
			c := cs[k]
			o := s.Deliver(e, fmt.Sprintf("burst-claim-%d", k), &htlctypes.MsgClaimHTLC{Sender: mc.Addr("B").String(), Id: c.id, Secret: hex.EncodeToString(c.secret)})
			if o.OK {
				if c.state != 0 {
					report(sel([]mc.Finding{mc.F("C03/invalid-claim-accepted/already-closed", "claim of a contract in state %d succeeded", c.state)}))
				}
				c.state = 1
			} else if c.state == 0 {
				report(sel([]mc.Finding{mc.F("C03/valid-claim-rejected/plain", "claim with the right secret at height %d (expiry %d) rejected: %s", s.Ctx.BlockHeight(), expiry, o)}))
			}
		}
		claim(3)
		judge("claim #3")
		block := func() {
			bal := e.Bal(s.Ctx, mc.Addr("A"), "btc").Int64()
			bo := s.NextBlock(e, 5*time.Second)
			report(mc.BlockPanicFindings(mode, bo))
			h := s.Ctx.BlockHeight()
			want, due := int64(0), 0
			if h == expiry {
				for _, c := range cs {
					if c.state == 0 {
						c.state = 2
						want += c.amt
						due++
					}
				}
			}
			if got := e.Bal(s.Ctx, mc.Addr("A"), "btc").Int64() - bal; got != want {
				report(sel([]mc.Finding{mc.F("C03/refund-at-expiry-differs", "begin-block %d paid the sender %dbtc; contracts expiring at this height require exactly %dbtc", h, got, want)}))
			}
			ev := 0
			for _, x := range bo.Events {
				if x.Type == htlctypes.EventTypeRefundHTLC {
					ev++
				}
			}
			if ev != due {
				report(sel([]mc.Finding{mc.F("C03/refund-events-differ", "begin-block %d emitted %d refund events, %d contracts were due", h, ev, due)}))
			}
		}
		for s.Ctx.BlockHeight() < expiry-1 {
			block()
		}
		judge(fmt.Sprintf("blocks to height %d", expiry-1))
		claim(250)
		judge("claim #250 in the last block before the expiry")
		block()
		judge("block: expiration height")
		claim(259) // after the refund: must be rejected
		// ... and so must a claim of any contract the chain still reports open past its expiration height
		for k, c := range cs {
			idb, _ := hex.DecodeString(c.id)
			if h, found := e.HTLC.GetHTLC(s.Ctx, idb); found && h.State == htlctypes.Open && k != 259 {
				claim(k)
				break
			}
		}
		block()
		judge("block: expiration height + 1")
		block()
		judge("block: expiration height + 2")
		rep.Violations = viol
		rep.Nontrivial = rep.Evaluations
		rep.WallS = time.Since(start).Seconds()
		rep.Bounds = map[string]interface{}{"contracts": n}
		return rep
	}, Replay: func(path []string) ([]mc.Finding, error) {
		r := BurstPart(mode).Run(mc.Tier(), nil, time.Now().Add(time.Minute))
		var fs []mc.Finding
		for _, v := range r.Violations {
			fs = append(fs, v.Finding)
		}
		return fs, nil
	}}
}
