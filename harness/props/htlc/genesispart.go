package htlc

import (
	"fmt"
	"os"
	"time"

	sdkmath "cosmossdk.io/math"
	sdk "github.com/cosmos/cosmos-sdk/types"

	htlcmod "mods.irisnet.org/modules/htlc"
	htlctypes "mods.irisnet.org/modules/htlc/types"

	"verif/harness/mc"
)

// GenesisAssertionPart: a chain may also start from an imported genesis; the recorded incoming / outgoing totals
// must equal the sums over the open transfers from the first block on, so the module's import has to refuse
// every genesis in which they do not. Each case takes the exported genesis of a reachable state, breaks the
// equality in one way (all other validity rules still hold) and imports it into emptied stores.
func GenesisAssertionPart() mc.Part {
	return mc.Part{Name: "genesis-import-assertion", Run: func(tier string, known []mc.KnownFinding, dl time.Time) mc.PartReport {
		start := time.Now()
		rep := mc.PartReport{Exhaustive: true, Rule: "one inconsistent genesis imported into emptied stores"}
		mk := New(Variant{Name: "cross-chain", Mode: "C04", Cross: true})
		e, d := mk()
		s, _, err := mc.ReplayPath(e, d, []string{"create(in1)", "claim(in1,right)", "create(out1)", "create(in4)"})
		if err != nil {
			s, _, err = mc.ReplayPath(e, d, []string{"create(in1)"})
		}
		if err != nil {
			rep.Internal = "fixture path: " + err.Error()
			return rep
		}
		base := htlcmod.ExportGenesis(s.Ctx, e.HTLC)
		if os.Getenv("VERIF_DEBUG") != "" {
			fmt.Fprintf(os.Stderr, "fixture err=%v genesis=%s\n", err, e.Cdc.MustMarshalJSON(base))
		}
		type tc struct {
			name string
			mut  func(g *htlctypes.GenesisState) bool
		}
		clone := func() *htlctypes.GenesisState {
			var g htlctypes.GenesisState
			e.Cdc.MustUnmarshalJSON(e.Cdc.MustMarshalJSON(base), &g)
			return &g
		}
		dropOpen := func(dir htlctypes.SwapDirection) func(g *htlctypes.GenesisState) bool {
			return func(g *htlctypes.GenesisState) bool {
				var keep []htlctypes.HTLC
				dropped := false
				for _, h := range g.Htlcs {
					if h.Transfer && h.Direction == dir {
						dropped = true
						continue
					}
					keep = append(keep, h)
				}
				g.Htlcs = keep
				return dropped
			}
		}
		cases := []tc{
			{"incoming-total-without-open-transfer", dropOpen(htlctypes.Incoming)},
			{"outgoing-total-without-open-transfer", dropOpen(htlctypes.Outgoing)},
			{"incoming-total-on-an-asset-without-transfers", func(g *htlctypes.GenesisState) bool {
				for i := range g.Supplies {
					if g.Supplies[i].IncomingSupply.IsZero() {
						g.Supplies[i].IncomingSupply = sdk.NewCoin(g.Supplies[i].IncomingSupply.Denom, sdkmath.OneInt())
						return true
					}
				}
				return false
			}},
			{"incoming-total-differs-from-open-transfers", func(g *htlctypes.GenesisState) bool {
				for i := range g.Supplies {
					if g.Supplies[i].IncomingSupply.IsPositive() {
						g.Supplies[i].IncomingSupply = g.Supplies[i].IncomingSupply.AddAmount(sdkmath.OneInt())
						return true
					}
				}
				return false
			}},
		}
		for _, c := range cases {
			g := clone()
			if !c.mut(g) {
				continue
			}
			rep.Evaluations++
			ictx := mc.Branch(s.Ctx)
			st := ictx.MultiStore().GetKVStore(e.StoreKey("htlc"))
			var keys [][]byte
			it := st.Iterator(nil, nil)
			for ; it.Valid(); it.Next() {
				keys = append(keys, append([]byte{}, it.Key()...))
			}
			it.Close()
			for _, k := range keys {
				st.Delete(k)
			}
			var perr interface{}
			func() {
				defer func() { perr = recover() }()
				htlcmod.InitGenesis(ictx, e.HTLC, *g)
			}()
			if perr == nil {
				v := mc.Violation{Finding: mc.F("C04/inconsistent-genesis-accepted/"+c.name,
					"InitGenesis accepted a genesis whose recorded incoming / outgoing totals do not equal the sums over its open transfers (%s); a chain started from it violates the equality from its first block", c.name),
					Path: []string{"<genesis-import> " + c.name}, PreConfirmed: true}
				if mc.MatchKnown(known, v.Sig) != nil {
					if rep.KnownSeen == nil {
						rep.KnownSeen = map[string]mc.Violation{}
					}
					rep.KnownSeen[v.Sig] = v
				} else {
					rep.Violations = append(rep.Violations, v)
				}
			}
		}
		rep.Nontrivial = rep.Evaluations
		if int(rep.Evaluations) != len(cases) {
			rep.Exhaustive = false // the fixture state no longer offers every case
		}
		rep.WallS = time.Since(start).Seconds()
		rep.Bounds = map[string]interface{}{"cases": fmt.Sprint(len(cases))}
		return rep
	}, Replay: func(path []string) ([]mc.Finding, error) {
		r := GenesisAssertionPart().Run(mc.Tier(), nil, time.Now().Add(time.Minute))
		var fs []mc.Finding
		for _, v := range r.Violations {
			fs = append(fs, v.Finding)
		}
		return fs, nil
	}}
}
