package c15

import (
	"fmt"
	"math"
	"time"

	mtmod "mods.irisnet.org/modules/mt"
	mttypes "mods.irisnet.org/modules/mt/types"

	"verif/harness/mc"
)

// GenesisImportPart: a chain may also start from an imported genesis. "The sum of all holders' balances equals
// the recorded supply ... no balance or supply ever wraps around" then has to hold from the first block on, so
// whatever genesis the module's import *accepts* must leave a state in which the stored balances of every token
// add up — in unbounded integers — to its recorded supply. Each case takes the exported genesis of a reachable
// state (one token held by two accounts), bends it in one way and imports it into emptied stores; a refused
// import is fine, an accepted one is judged by the conservation invariant of Check.
func GenesisImportPart() mc.Part {
	return mc.Part{Name: "genesis-import", Run: func(tier string, known []mc.KnownFinding, dl time.Time) mc.PartReport {
		start := time.Now()
		rep := mc.PartReport{Exhaustive: true, Rule: "one bent genesis imported into emptied stores; accepted imports judged by the conservation invariant"}
		v := Variant{Name: "ledger-boundary-amounts", Boundary: true, MaxClasses: 1, MaxTokens: 2}
		e, d := New(v)()
		s, _, err := mc.ReplayPath(e, d, []string{"mintnew(c1,A>dflt,1)", "mint(c1.t1,A>B,1)"})
		if err != nil {
			rep.Internal = "fixture path: " + err.Error()
			return rep
		}
		drv := d.(*Driver)
		base := mtmod.ExportGenesis(s.Ctx, e.MT)
		clone := func() *mttypes.GenesisState {
			var g mttypes.GenesisState
			e.Cdc.MustUnmarshalJSON(e.Cdc.MustMarshalJSON(base), &g)
			return &g
		}
		// locate the two balance entries of the token and its supply field
		type ref struct{ o, dn, b int }
		find := func(g *mttypes.GenesisState) (refs []ref, ci, mi int, ok bool) {
			ci, mi = -1, -1
			for i, c := range g.Collections {
				if len(c.Mts) > 0 {
					ci, mi = i, 0
					break
				}
			}
			if ci < 0 {
				return nil, 0, 0, false
			}
			id := g.Collections[ci].Mts[mi].Id
			for oi, o := range g.Owners {
				for di, dn := range o.Denoms {
					for bi, b := range dn.Balances {
						if b.MtId == id {
							refs = append(refs, ref{oi, di, bi})
						}
					}
				}
			}
			return refs, ci, mi, len(refs) >= 2
		}
		type tc struct {
			name string
			mut  func(g *mttypes.GenesisState) bool
		}
		set := func(a, b, supply uint64) func(g *mttypes.GenesisState) bool {
			return func(g *mttypes.GenesisState) bool {
				refs, ci, mi, ok := find(g)
				if !ok {
					return false
				}
				g.Owners[refs[0].o].Denoms[refs[0].dn].Balances[refs[0].b].Amount = a
				g.Owners[refs[1].o].Denoms[refs[1].dn].Balances[refs[1].b].Amount = b
				g.Collections[ci].Mts[mi].Supply = supply
				return true
			}
		}
		cases := []tc{
			{"consistent-control", set(3, 4, 7)},
			{"balance-above-supply", set(3, 4, 6)},
			{"supply-above-balances", set(3, 4, 8)},
			// the holders' balances add up to 2^64+1, which is 1 in 64-bit arithmetic
			{"balances-wrap-to-the-supply", set(math.MaxUint64, 2, 1)},
			{"balances-wrap-to-zero", set(math.MaxUint64, 1, 0)},
			{"balances-at-the-maximum", set(math.MaxUint64-1, 1, math.MaxUint64)},
		}
		for _, c := range cases {
			g := clone()
			if !c.mut(g) {
				rep.Exhaustive = false
				continue
			}
			rep.Evaluations++
			ictx := mc.Branch(s.Ctx)
			st := ictx.MultiStore().GetKVStore(e.StoreKey("mt"))
			var keys [][]byte
			it := st.Iterator(nil, nil)
			for ; it.Valid(); it.Next() {
				keys = append(keys, append([]byte{}, it.Key()...))
			}
			it.Close()
			for _, k := range keys {
				st.Delete(k)
			}
			var perr interface{}
			func() {
				defer func() { perr = recover() }()
				mtmod.InitGenesis(ictx, e.MT, *g)
			}()
			var fs []mc.Finding
			if perr != nil {
				if c.name == "consistent-control" || c.name == "balances-at-the-maximum" {
					fs = append(fs, mc.F("C15/genesis-import/consistent-genesis-refused/"+c.name, "InitGenesis refused a genesis whose balances add up to the recorded supply: %v", perr))
				}
			} else {
				is := &mc.State{Ctx: ictx, Model: s.Model.Clone(), Depth: 1}
				for _, f := range drv.Check(e, is) {
					fs = append(fs, mc.F("C15/genesis-import/"+c.name+"/"+trimProp(f.Sig), "InitGenesis accepted the genesis (%s); the chain starts in a state where %s", c.name, f.Detail))
				}
			}
			for _, f := range fs {
				vv := mc.Violation{Finding: f, Path: []string{"<genesis-import> " + c.name}, PreConfirmed: true}
				if mc.MatchKnown(known, vv.Sig) != nil {
					if rep.KnownSeen == nil {
						rep.KnownSeen = map[string]mc.Violation{}
					}
					rep.KnownSeen[vv.Sig] = vv
				} else {
					rep.Violations = append(rep.Violations, vv)
				}
			}
		}
		rep.Nontrivial = rep.Evaluations
		rep.WallS = time.Since(start).Seconds()
		rep.Bounds = map[string]interface{}{"cases": fmt.Sprint(len(cases))}
		return rep
	}, Replay: func(path []string) ([]mc.Finding, error) {
		r := GenesisImportPart().Run(mc.Tier(), nil, time.Now().Add(time.Minute))
		var fs []mc.Finding
		for _, v := range r.Violations {
			fs = append(fs, v.Finding)
		}
		return fs, nil
	}}
}

func trimProp(sig string) string {
	if len(sig) > 4 && sig[:4] == "C15/" {
		return sig[4:]
	}
	return sig
}
