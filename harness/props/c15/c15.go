// Package c15: MT (multi-token) module — balances always add up to the recorded supply, transfers and
// burns move exactly the stated amount and need the funds, nothing ever wraps around the unsigned
// 64-bit range, only the class owner mints / edits / hands the class over, and generated class and
// token ids are never reused.
//
// Reference model: a ledger in math/big (so a wrap-around is visible as a value outside [0, 2^64-1]
// or as a queried value that differs from the exact one): class -> owner, (class, token) -> supply,
// metadata and per-holder balance, plus every class id and token id ever issued along the path
// (classes and tokens are never removed from the model, also not after a burn to zero).
package c15

import (
	"bytes"
	"fmt"
	"github.com/cosmos/cosmos-sdk/types/query"
	"math"
	"math/big"
	"sort"
	"strings"

	sdk "github.com/cosmos/cosmos-sdk/types"
	gogotypes "github.com/cosmos/gogoproto/types"

	mttypes "mods.irisnet.org/modules/mt/types"

	"verif/harness/mc"
)

// the actor universe; every sender and recipient the driver ever names is one of these
var actors = []string{"A", "B", "X"}

var maxU64 = new(big.Int).SetUint64(math.MaxUint64)

const (
	dataMinted = "m1"
	dataEdited = "m2"
)

// Variant fixes the alphabet of one exploration.
type Variant struct {
	Name string
	// Boundary: one class issued by A in the fixture; the alphabet is mint / transfer / burn with
	// boundary amounts ({0, 1, 2^63, 2^64-1, exactly-fill, fill+1} and {0, 1, balance, balance+1, 2^64-1}).
	// Otherwise (authority variant): issue-class, hand-over, mint, edit by every actor with unit amounts,
	// transfers and burns to zero.
	Boundary   bool
	MaxClasses int
	MaxTokens  int // per class
	Rule       string
}

type token struct {
	id     string
	data   string
	supply *big.Int
	bal    []*big.Int // by actor index
}

type class struct {
	id     string
	owner  int
	issuer int
	tokens []*token
}

type model struct {
	classes []*class
	// broken is set once a violation was reported on the path: the reference ledger has no meaning
	// afterwards, so the path ends there (one defect => one signature).
	broken bool
}

func (m *model) Clone() mc.Model {
	c := &model{broken: m.broken}
	for _, cl := range m.classes {
		nc := &class{id: cl.id, owner: cl.owner, issuer: cl.issuer}
		for _, t := range cl.tokens {
			nt := &token{id: t.id, data: t.data, supply: new(big.Int).Set(t.supply)}
			for _, b := range t.bal {
				nt.bal = append(nt.bal, new(big.Int).Set(b))
			}
			nc.tokens = append(nc.tokens, nt)
		}
		c.classes = append(c.classes, nc)
	}
	return c
}

func (m *model) Canon() []byte {
	var b bytes.Buffer
	fmt.Fprintf(&b, "broken=%v;", m.broken)
	for _, cl := range m.classes {
		fmt.Fprintf(&b, "c:%s|o=%d|i=%d{", cl.id, cl.owner, cl.issuer)
		for _, t := range cl.tokens {
			fmt.Fprintf(&b, "t:%s|%s|%s", t.id, t.data, t.supply)
			for _, x := range t.bal {
				fmt.Fprintf(&b, "|%s", x)
			}
			b.WriteByte(';')
		}
		b.WriteByte('}')
	}
	return b.Bytes()
}

func (m *model) classIDs() map[string]int {
	ids := map[string]int{}
	for i, cl := range m.classes {
		ids[cl.id] = i
	}
	return ids
}

// tokenIDs maps every token id ever issued on the path to the index of its class.
func (m *model) tokenIDs() map[string]int {
	ids := map[string]int{}
	for i, cl := range m.classes {
		for _, t := range cl.tokens {
			ids[t.id] = i
		}
	}
	return ids
}

func newToken(id, data string) *token {
	t := &token{id: id, data: data, supply: new(big.Int)}
	for range actors {
		t.bal = append(t.bal, new(big.Int))
	}
	return t
}

type opData struct {
	kind   string // issue | handover | mintnew | mint | edit | transfer | burn
	ci, ti int
	by     int
	to     int // recipient actor; -1 = recipient field left empty (defaults to the sender)
	amt    uint64
	// pad: the token id of the message is the real id with a trailing blank (names no token)
	pad bool
}

// Driver implements mc.Driver.
type Driver struct{ V Variant }

// New returns the constructor for a variant.
func New(v Variant) func() (*mc.Env, mc.Driver) {
	return func() (*mc.Env, mc.Driver) {
		bal := map[string]sdk.Coins{}
		for _, a := range actors {
			bal[a] = nil
		}
		return mc.NewEnv(mc.EnvOptions{Balances: bal}), &Driver{V: v}
	}
}

func (d *Driver) ID() string       { return "C15/" + d.V.Name }
func (d *Driver) Stores() []string { return []string{"mt"} }

func addr(i int) string { return mc.Addr(actors[i]).String() }

func (d *Driver) Init(e *mc.Env) *mc.State {
	s := &mc.State{Ctx: mc.Branch(e.Root), Model: &model{}}
	if d.V.Boundary {
		fs := d.Apply(e, s, mc.Op{Name: "fx-issue(A)", Data: opData{kind: "issue", by: 0}})
		m := s.Model.(*model)
		if len(fs) > 0 || len(m.classes) != 1 {
			panic(fmt.Sprintf("fixture step issue-class failed: %v", fs))
		}
	}
	return s
}

type amt struct {
	label string
	v     uint64
}

// dedupe keeps the first label of every distinct value.
func dedupe(as []amt) []amt {
	seen := map[uint64]bool{}
	var out []amt
	for _, a := range as {
		if !seen[a.v] {
			seen[a.v] = true
			out = append(out, a)
		}
	}
	return out
}

func next(i int) int { return (i + 1) % len(actors) }

func recip(i int) string {
	if i < 0 {
		return "dflt"
	}
	return actors[i]
}

func (d *Driver) Enabled(e *mc.Env, s *mc.State) []mc.Op {
	m := s.Model.(*model)
	if m.broken {
		return nil
	}
	var ops []mc.Op
	add := func(od opData, name string) { ops = append(ops, mc.Op{Name: name, Data: od}) }
	if !d.V.Boundary && len(m.classes) < d.V.MaxClasses {
		add(opData{kind: "issue", by: 0}, "issue(A)")
		add(opData{kind: "issue", by: 1}, "issue(B)")
	}
	if !d.V.Boundary && len(m.classes) > 0 {
		// the chain restarts from its own exported genesis: ids handed out afterwards must still be new
		add(opData{kind: "restart"}, "restart-from-genesis")
	}
	for ci, cl := range m.classes {
		cn := fmt.Sprintf("c%d", ci+1)
		o := cl.owner
		// a non-owner: the last actor unless it owns the class
		stranger := len(actors) - 1
		if stranger == o {
			stranger = 0
		}
		if d.V.Boundary {
			if len(cl.tokens) < d.V.MaxTokens {
				for _, a := range []amt{{"1", 1}, {"2^63", 1 << 63}, {"max", math.MaxUint64}} {
					for _, to := range []int{-1, next(o)} {
						add(opData{kind: "mintnew", ci: ci, by: o, to: to, amt: a.v}, fmt.Sprintf("mintnew(%s,%s>%s,%s)", cn, actors[o], recip(to), a.label))
					}
				}
				add(opData{kind: "mintnew", ci: ci, by: o, to: -1, amt: 0}, fmt.Sprintf("mintnew(%s,%s>dflt,0)", cn, actors[o]))
				add(opData{kind: "mintnew", ci: ci, by: stranger, to: -1, amt: 1}, fmt.Sprintf("mintnew(%s,%s>dflt,1)", cn, actors[stranger]))
				// a non-owner who names the owner as recipient (the two addresses of the message swapped)
				add(opData{kind: "mintnew", ci: ci, by: stranger, to: o, amt: 1}, fmt.Sprintf("mintnew(%s,%s>%s,1)", cn, actors[stranger], actors[o]))
			}
		} else {
			// hand-over: the owner to each other actor, every non-owner to itself
			for a := range actors {
				if a == o {
					for b := range actors {
						if b != o {
							add(opData{kind: "handover", ci: ci, by: a, to: b}, fmt.Sprintf("handover(%s,%s>%s)", cn, actors[a], actors[b]))
						}
					}
				} else {
					add(opData{kind: "handover", ci: ci, by: a, to: a}, fmt.Sprintf("handover(%s,%s>%s)", cn, actors[a], actors[a]))
					add(opData{kind: "handover", ci: ci, by: a, to: o}, fmt.Sprintf("handover(%s,%s>%s)", cn, actors[a], actors[o]))
				}
			}
			if len(cl.tokens) < d.V.MaxTokens {
				for a := range actors {
					add(opData{kind: "mintnew", ci: ci, by: a, to: -1, amt: 1}, fmt.Sprintf("mintnew(%s,%s>dflt,1)", cn, actors[a]))
					if a != o {
						add(opData{kind: "mintnew", ci: ci, by: a, to: o, amt: 1}, fmt.Sprintf("mintnew(%s,%s>%s,1)", cn, actors[a], actors[o]))
					}
				}
			}
		}
		for ti, t := range cl.tokens {
			tn := fmt.Sprintf("%s.t%d", cn, ti+1)
			if d.V.Boundary {
				fill := new(big.Int).Sub(maxU64, t.supply)
				mints := []amt{{"1", 1}, {"2^63", 1 << 63}, {"max", math.MaxUint64}}
				for _, a := range mints {
					for _, to := range []int{-1, next(o)} {
						add(opData{kind: "mint", ci: ci, ti: ti, by: o, to: to, amt: a.v}, fmt.Sprintf("mint(%s,%s>%s,%s)", tn, actors[o], recip(to), a.label))
					}
				}
				// exactly fills the supply to 2^64-1, and one more
				var edge []amt
				if fill.Sign() > 0 {
					edge = append(edge, amt{"fill", fill.Uint64()})
				}
				if fill.Cmp(maxU64) < 0 {
					edge = append(edge, amt{"fill+1", fill.Uint64() + 1})
				}
				for _, a := range edge {
					dup := false
					for _, b := range mints {
						dup = dup || a.v == b.v
					}
					if !dup {
						add(opData{kind: "mint", ci: ci, ti: ti, by: o, to: next(o), amt: a.v}, fmt.Sprintf("mint(%s,%s>%s,%s)", tn, actors[o], actors[next(o)], a.label))
					}
				}
				add(opData{kind: "mint", ci: ci, ti: ti, by: o, to: -1, amt: 0}, fmt.Sprintf("mint(%s,%s>dflt,0)", tn, actors[o]))
				add(opData{kind: "mint", ci: ci, ti: ti, by: stranger, to: -1, amt: 1}, fmt.Sprintf("mint(%s,%s>dflt,1)", tn, actors[stranger]))
				add(opData{kind: "mint", ci: ci, ti: ti, by: stranger, to: o, amt: 1}, fmt.Sprintf("mint(%s,%s>%s,1)", tn, actors[stranger], actors[o]))
				add(opData{kind: "edit", ci: ci, ti: ti, by: o}, fmt.Sprintf("edit(%s,%s)", tn, actors[o]))
				nonHolder := false
				for h := range actors {
					b := t.bal[h]
					if b.Sign() == 0 {
						if !nonHolder {
							nonHolder = true
							add(opData{kind: "transfer", ci: ci, ti: ti, by: h, to: next(h), amt: 1}, fmt.Sprintf("transfer(%s,%s>%s,1)", tn, actors[h], actors[next(h)]))
							add(opData{kind: "burn", ci: ci, ti: ti, by: h, amt: 1}, fmt.Sprintf("burn(%s,%s,1)", tn, actors[h]))
							add(opData{kind: "transfer", ci: ci, ti: ti, by: h, to: next(h), amt: 0}, fmt.Sprintf("transfer(%s,%s>%s,0)", tn, actors[h], actors[next(h)]))
							add(opData{kind: "burn", ci: ci, ti: ti, by: h, amt: 0}, fmt.Sprintf("burn(%s,%s,0)", tn, actors[h]))
						}
						continue
					}
					as := []amt{{"1", 1}, {"bal", b.Uint64()}}
					self := []amt{{"bal", b.Uint64()}}
					if b.Cmp(maxU64) < 0 {
						as = append(as, amt{"bal+1", b.Uint64() + 1})
						self = append(self, amt{"bal+1", b.Uint64() + 1})
					}
					as = dedupe(append(as, amt{"max", math.MaxUint64}))
					for _, a := range as {
						add(opData{kind: "transfer", ci: ci, ti: ti, by: h, to: next(h), amt: a.v}, fmt.Sprintf("transfer(%s,%s>%s,%s)", tn, actors[h], actors[next(h)], a.label))
					}
					for _, a := range self {
						add(opData{kind: "transfer", ci: ci, ti: ti, by: h, to: h, amt: a.v}, fmt.Sprintf("transfer(%s,%s>%s,%s)", tn, actors[h], actors[h], a.label))
					}
					add(opData{kind: "transfer", ci: ci, ti: ti, by: h, to: next(h), amt: 1, pad: true}, fmt.Sprintf("transfer(%s+blank,%s>%s,1)", tn, actors[h], actors[next(h)]))
					for _, a := range as {
						add(opData{kind: "burn", ci: ci, ti: ti, by: h, amt: a.v}, fmt.Sprintf("burn(%s,%s,%s)", tn, actors[h], a.label))
					}
				}
			} else {
				for a := range actors {
					add(opData{kind: "mint", ci: ci, ti: ti, by: a, to: -1, amt: 1}, fmt.Sprintf("mint(%s,%s>dflt,1)", tn, actors[a]))
					if a != o {
						// a non-owner who names the owner as recipient
						add(opData{kind: "mint", ci: ci, ti: ti, by: a, to: o, amt: 1}, fmt.Sprintf("mint(%s,%s>%s,1)", tn, actors[a], actors[o]))
					}
				}
				for a := range actors {
					add(opData{kind: "edit", ci: ci, ti: ti, by: a}, fmt.Sprintf("edit(%s,%s)", tn, actors[a]))
				}
				for h := range actors {
					b := t.bal[h]
					if b.Sign() == 0 {
						continue
					}
					add(opData{kind: "transfer", ci: ci, ti: ti, by: h, to: next(h), amt: 1}, fmt.Sprintf("transfer(%s,%s>%s,1)", tn, actors[h], actors[next(h)]))
					add(opData{kind: "burn", ci: ci, ti: ti, by: h, amt: b.Uint64()}, fmt.Sprintf("burn(%s,%s,bal)", tn, actors[h]))
				}
			}
		}
	}
	return ops
}

func inRange(x *big.Int) bool { return x.Sign() >= 0 && x.Cmp(maxU64) <= 0 }

// role is used in finding details only (signatures say just "not-owner": one defect, one signature).
func role(cl *class, by int) string {
	if by == cl.owner {
		return "owner"
	}
	if by == cl.issuer {
		return "former owner (issuer)"
	}
	return "stranger"
}

func (d *Driver) Apply(e *mc.Env, s *mc.State, op mc.Op) []mc.Finding {
	od := op.Data.(opData)
	m := s.Model.(*model)
	if od.kind == "restart" {
		if err := mc.ReimportModule(e, s.Ctx, "mt"); err != nil {
			m.broken = true
			return []mc.Finding{mc.F("C15/harness/genesis-reimport-failed", "%v", err)}
		}
		s.MarkDirty()
		s.Last = "ok"
		fs := d.compare(e, s, m, nil, "ok")
		if len(fs) > 0 {
			m.broken = true
		}
		return fs
	}
	var cl *class
	var tk *token
	if od.kind != "issue" {
		cl = m.classes[od.ci]
		if od.kind != "mintnew" && od.kind != "handover" {
			tk = cl.tokens[od.ti]
		}
	}
	sender := addr(od.by)
	rcpt := ""
	to := od.to
	if to >= 0 {
		rcpt = addr(to)
	} else {
		to = od.by
	}
	A := new(big.Int).SetUint64(od.amt)

	// what the property statement demands of this message: mustReject != "" names the clause
	var msg sdk.Msg
	mustReject := ""
	switch od.kind {
	case "issue":
		msg = &mttypes.MsgIssueDenom{Name: "class-of-" + actors[od.by], Data: []byte("cd"), Sender: sender}
	case "handover":
		msg = &mttypes.MsgTransferDenom{Id: cl.id, Sender: sender, Recipient: rcpt}
		if od.by != cl.owner {
			mustReject = "not-owner"
		}
	case "mintnew":
		msg = &mttypes.MsgMintMT{Id: "", DenomId: cl.id, Amount: od.amt, Data: []byte(dataMinted), Sender: sender, Recipient: rcpt}
		if od.by != cl.owner {
			mustReject = "not-owner"
		}
	case "mint":
		msg = &mttypes.MsgMintMT{Id: tk.id, DenomId: cl.id, Amount: od.amt, Sender: sender, Recipient: rcpt}
		switch {
		case od.by != cl.owner:
			mustReject = "not-owner"
		case !inRange(new(big.Int).Add(tk.supply, A)):
			mustReject = "supply-overflow"
		case !inRange(new(big.Int).Add(tk.bal[to], A)):
			mustReject = "balance-overflow"
		}
	case "edit":
		msg = &mttypes.MsgEditMT{Id: tk.id, DenomId: cl.id, Data: []byte(dataEdited), Sender: sender}
		if od.by != cl.owner {
			mustReject = "not-owner"
		}
	case "transfer":
		tid := tk.id
		if od.pad {
			tid += " "
		}
		msg = &mttypes.MsgTransferMT{Id: tid, DenomId: cl.id, Amount: od.amt, Sender: sender, Recipient: rcpt}
		switch {
		case od.pad:
			mustReject = "no-token-with-this-id"
		case tk.bal[od.by].Cmp(A) < 0:
			mustReject = "exceeds-balance"
		case to != od.by && !inRange(new(big.Int).Add(tk.bal[to], A)):
			mustReject = "balance-overflow"
		}
	case "burn":
		msg = &mttypes.MsgBurnMT{Id: tk.id, DenomId: cl.id, Amount: od.amt, Sender: sender}
		if tk.bal[od.by].Cmp(A) < 0 {
			mustReject = "exceeds-balance"
		}
	default:
		panic("unknown op " + op.Name)
	}

	out := s.Deliver(e, op.Name, msg)
	var fs []mc.Finding
	if out.OK && mustReject != "" {
		m.broken = true
		return []mc.Finding{mc.F("C15/accepted/"+od.kind+"/"+mustReject,
			"%s was accepted although the property demands its rejection (%s); reference before the message: %s", op.Name, mustReject, d.describe(m, od))}
	}
	if out.OK {
		switch od.kind {
		case "issue":
			id, f := d.freshClass(e, s, m, out)
			if f != nil {
				m.broken = true
				return []mc.Finding{*f}
			}
			m.classes = append(m.classes, &class{id: id, owner: od.by, issuer: od.by})
		case "handover":
			cl.owner = to
		case "mintnew":
			id, f := d.freshToken(e, s, m, od.ci, out)
			if f != nil {
				m.broken = true
				return []mc.Finding{*f}
			}
			nt := newToken(id, dataMinted)
			nt.supply.Set(A)
			nt.bal[to].Set(A)
			cl.tokens = append(cl.tokens, nt)
		case "mint":
			tk.supply.Add(tk.supply, A)
			tk.bal[to].Add(tk.bal[to], A)
		case "edit":
			tk.data = dataEdited
		case "transfer":
			tk.bal[od.by].Sub(tk.bal[od.by], A)
			tk.bal[to].Add(tk.bal[to], A)
		case "burn":
			tk.bal[od.by].Sub(tk.bal[od.by], A)
			tk.supply.Sub(tk.supply, A)
		}
	}
	// every queried value must now equal the exact reference value (exact deltas for the parties,
	// nothing else changes; after a rejection nothing changes at all)
	fs = append(fs, d.compare(e, s, m, &od, out.Class())...)
	if len(fs) > 0 {
		m.broken = true
	}
	return fs
}

func (d *Driver) describe(m *model, od opData) string {
	if od.kind == "issue" {
		return fmt.Sprintf("%d classes", len(m.classes))
	}
	cl := m.classes[od.ci]
	s := fmt.Sprintf("class owner %s (issuer %s), sender %s", actors[cl.owner], actors[cl.issuer], actors[od.by])
	if od.kind != "transfer" && od.kind != "burn" {
		s += " = " + role(cl, od.by)
	}
	if od.kind != "mintnew" && od.kind != "handover" {
		t := cl.tokens[od.ti]
		s += fmt.Sprintf(", supply %s, balances A=%s B=%s X=%s, amount %d", t.supply, t.bal[0], t.bal[1], t.bal[2], od.amt)
	}
	return s
}

func eventAttr(out mc.Outcome, typ, key string) string {
	for _, ev := range out.Events {
		if ev.Type != typ {
			continue
		}
		for _, a := range ev.Attributes {
			if a.Key == key {
				return a.Value
			}
		}
	}
	return "<none>"
}

// freshClass reads the class listing after a successful issue: exactly one id that was never issued
// before on this path must have appeared.
func (d *Driver) freshClass(e *mc.Env, s *mc.State, m *model, out mc.Outcome) (string, *mc.Finding) {
	res, err := e.MT.Denoms(s.Ctx, &mttypes.QueryDenomsRequest{})
	if err != nil {
		panic("Denoms query: " + err.Error())
	}
	known := m.classIDs()
	var fresh []string
	for _, dn := range res.Denoms {
		if _, ok := known[dn.Id]; !ok {
			fresh = append(fresh, dn.Id)
		}
	}
	evID := eventAttr(out, mttypes.EventTypeIssueDenom, mttypes.AttributeKeyDenomID)
	if len(fresh) == 0 {
		f := mc.F("C15/id-reused/class", "issue-class succeeded but no class id that was never issued before appeared: listing has %d classes, %d were issued before; the event names id %s (already issued: %v)",
			len(res.Denoms), len(m.classes), evID, func() bool { _, ok := known[evID]; return ok }())
		return "", &f
	}
	if len(fresh) > 1 {
		f := mc.F("C15/issue-created-several-classes", "one issue-class produced %d new class ids %v", len(fresh), fresh)
		return "", &f
	}
	return fresh[0], nil
}

// freshToken does the same for a successful mint of a new token in class ci. Token ids are compared
// with every token id ever issued in any class.
func (d *Driver) freshToken(e *mc.Env, s *mc.State, m *model, ci int, out mc.Outcome) (string, *mc.Finding) {
	cl := m.classes[ci]
	res, err := e.MT.MTs(s.Ctx, &mttypes.QueryMTsRequest{DenomId: cl.id})
	if err != nil {
		panic("MTs query: " + err.Error())
	}
	known := m.tokenIDs()
	mine := map[string]bool{}
	for _, t := range cl.tokens {
		mine[t.id] = true
	}
	var fresh, reusedElsewhere []string
	for _, t := range res.Mts {
		if mine[t.Id] {
			continue
		}
		if _, ok := known[t.Id]; ok {
			reusedElsewhere = append(reusedElsewhere, t.Id)
		} else {
			fresh = append(fresh, t.Id)
		}
	}
	evID := eventAttr(out, mttypes.EventTypeMintMT, mttypes.AttributeKeyMTID)
	if len(reusedElsewhere) > 0 {
		f := mc.F("C15/id-reused/token/across-classes", "minting a new token in class %d produced token id %s, which was already issued in class %d", ci+1, reusedElsewhere[0], known[reusedElsewhere[0]]+1)
		return "", &f
	}
	if len(fresh) == 0 {
		f := mc.F("C15/id-reused/token/same-class", "mint-new succeeded but no token id that was never issued before appeared in class %d: listing has %d tokens, %d were issued before; the event names id %s",
			ci+1, len(res.Mts), len(cl.tokens), evID)
		return "", &f
	}
	if len(fresh) > 1 {
		f := mc.F("C15/mint-created-several-tokens", "one mint-new produced %d new token ids %v", len(fresh), fresh)
		return "", &f
	}
	return fresh[0], nil
}

// queried returns the balance of actor a per token id in a class, through the Balances query.
func (d *Driver) queried(e *mc.Env, s *mc.State, classID string, a int) map[string]uint64 {
	res, err := e.MT.Balances(s.Ctx, &mttypes.QueryBalancesRequest{Owner: addr(a), DenomId: classID})
	if err != nil {
		panic("Balances query: " + err.Error())
	}
	out := map[string]uint64{}
	for _, b := range res.Balance {
		out[b.MtId] = b.Amount
	}
	return out
}

// compare checks every queried value against the exact reference. od (may be nil) names the message
// just delivered so that the signature says which party's value is off.
func (d *Driver) compare(e *mc.Env, s *mc.State, m *model, od *opData, class string) []mc.Finding {
	var fs []mc.Finding
	ctxt := "state"
	if od != nil {
		ctxt = od.kind + "-" + class
	}
	bad := func(field, format string, a ...interface{}) {
		fs = append(fs, mc.F("C15/differs/"+ctxt+"/"+field, format, a...))
	}
	// class listing = exactly the classes issued on the path
	lst, err := e.MT.Denoms(s.Ctx, &mttypes.QueryDenomsRequest{})
	if err != nil {
		panic("Denoms query: " + err.Error())
	}
	if len(lst.Denoms) != len(m.classes) {
		bad("class-listing", "listing has %d classes, %d were issued", len(lst.Denoms), len(m.classes))
	}
	for ci, cl := range m.classes {
		dr, err := e.MT.Denom(s.Ctx, &mttypes.QueryDenomRequest{DenomId: cl.id})
		if err != nil || dr.Denom == nil {
			bad("class-missing", "class %d (%s): %v", ci+1, cl.id, err)
			continue
		}
		if dr.Denom.Owner != addr(cl.owner) {
			bad("class-owner", "class %d: owner is %s, reference says %s (%s)", ci+1, dr.Denom.Owner, actors[cl.owner], addr(cl.owner))
		}
		ml, err := e.MT.MTs(s.Ctx, &mttypes.QueryMTsRequest{DenomId: cl.id})
		if err != nil {
			panic("MTs query: " + err.Error())
		}
		if len(ml.Mts) != len(cl.tokens) {
			bad("token-listing", "class %d lists %d tokens, %d were issued", ci+1, len(ml.Mts), len(cl.tokens))
		}
		var bals []map[string]uint64
		for a := range actors {
			bals = append(bals, d.queried(e, s, cl.id, a))
			// the same listing read page by page (one entry a page): every token once, same amounts
			paged := map[string]uint64{}
			var key []byte
			for pages := 0; pages < 20; pages++ {
				r, err := e.MT.Balances(s.Ctx, &mttypes.QueryBalancesRequest{Owner: addr(a), DenomId: cl.id, Pagination: &query.PageRequest{Key: key, Limit: 1}})
				if err != nil {
					fs = append(fs, mc.F("C15/query-failed/balances-page", "class c%d holder %s: %v", ci+1, actors[a], err))
					break
				}
				if len(r.Balance) > 1 {
					fs = append(fs, mc.F("C15/balances-pages-differ/page-longer-than-asked", "class c%d holder %s: a page of limit 1 lists %d entries", ci+1, actors[a], len(r.Balance)))
				}
				for _, b := range r.Balance {
					if _, dup := paged[b.MtId]; dup {
						fs = append(fs, mc.F("C15/balances-pages-differ/token-on-two-pages", "class c%d holder %s: token %s appears on two pages", ci+1, actors[a], b.MtId))
					}
					paged[b.MtId] = b.Amount
				}
				if r.Pagination == nil || len(r.Pagination.NextKey) == 0 {
					break
				}
				key = r.Pagination.NextKey
			}
			if fmt.Sprint(paged) != fmt.Sprint(bals[a]) {
				fs = append(fs, mc.F("C15/balances-pages-differ/from-whole-listing", "class c%d holder %s: pages of one entry give %v, the whole listing %v", ci+1, actors[a], paged, bals[a]))
			}
		}
		for ti, t := range cl.tokens {
			target := od != nil && od.kind != "issue" && od.kind != "handover" && od.kind != "mintnew" && od.ci == ci && od.ti == ti
			if od != nil && od.kind == "mintnew" && od.ci == ci && ti == len(cl.tokens)-1 && class == "ok" {
				target = true
			}
			where := "other-token-"
			if target {
				where = ""
			}
			mr, err := e.MT.MT(s.Ctx, &mttypes.QueryMTRequest{DenomId: cl.id, MtId: t.id})
			if err != nil || mr.Mt == nil {
				bad(where+"token-missing", "token c%d.t%d (%s): %v", ci+1, ti+1, t.id, err)
				continue
			}
			sr, err := e.MT.MTSupply(s.Ctx, &mttypes.QueryMTSupplyRequest{DenomId: cl.id, MtId: t.id})
			if err != nil {
				panic("MTSupply query: " + err.Error())
			}
			if new(big.Int).SetUint64(sr.Amount).Cmp(t.supply) != 0 || mr.Mt.Supply != sr.Amount {
				bad(where+"supply", "token c%d.t%d: supply query %d, token query %d, exact reference %s", ci+1, ti+1, sr.Amount, mr.Mt.Supply, t.supply)
			}
			if string(mr.Mt.Data) != t.data {
				bad(where+"metadata", "token c%d.t%d: metadata %q, reference %q", ci+1, ti+1, mr.Mt.Data, t.data)
			}
			for a := range actors {
				got := bals[a][t.id]
				if new(big.Int).SetUint64(got).Cmp(t.bal[a]) == 0 {
					continue
				}
				party := "bystander-balance"
				if target {
					to := od.to
					if to < 0 {
						to = od.by
					}
					switch {
					case a == od.by && (od.kind == "transfer" || od.kind == "burn"):
						party = "sender-balance"
					case a == to && (od.kind == "transfer" || od.kind == "mint" || od.kind == "mintnew"):
						party = "recipient-balance"
					}
				}
				bad(where+party, "token c%d.t%d: balance of %s is %d, exact reference %s", ci+1, ti+1, actors[a], got, t.bal[a])
			}
		}
	}
	return fs
}

func decodeU64(bz []byte) uint64 {
	var v gogotypes.UInt64Value
	if err := v.Unmarshal(bz); err != nil {
		panic("balance value: " + err.Error())
	}
	return v.Value
}

// Check: the conservation invariant, independent of the reference ledger: per token, the balances of
// all holders (the three actors through the Balances query, and every balance entry of the raw
// store so that a credit to an address outside the actor universe is seen) add up to the recorded supply.
func (d *Driver) Check(e *mc.Env, s *mc.State) []mc.Finding {
	m := s.Model.(*model)
	if m.broken {
		return nil
	}
	var fs []mc.Finding
	if s.Depth == 0 {
		fs = append(fs, d.compare(e, s, m, nil, "")...)
	}
	known := map[string]bool{}
	for a := range actors {
		known[addr(a)] = true
	}
	raw := map[string]*big.Int{} // class/token -> sum over all store entries
	for _, kv := range mc.DumpStore(s.Ctx, e, "mt") {
		if len(kv.K) < 2 || kv.K[0] != 0x03 {
			continue
		}
		parts := strings.Split(string(kv.K[2:]), "/")
		if len(parts) != 3 {
			fs = append(fs, mc.F("C15/malformed-balance-key", "%q", kv.K))
			continue
		}
		v := decodeU64(kv.V)
		if !known[parts[0]] && v != 0 {
			fs = append(fs, mc.F("C15/balance-for-unknown-holder", "%s holds %d of %s/%s but was never named in a message", parts[0], v, parts[1], parts[2]))
		}
		k := parts[1] + "/" + parts[2]
		if raw[k] == nil {
			raw[k] = new(big.Int)
		}
		raw[k].Add(raw[k], new(big.Int).SetUint64(v))
	}
	accounted := map[string]bool{}
	multi, handed := false, false
	for ci, cl := range m.classes {
		if cl.owner != cl.issuer {
			handed = true
		}
		var bals []map[string]uint64
		for a := range actors {
			bals = append(bals, d.queried(e, s, cl.id, a))
			// the same listing read page by page (one entry a page): every token once, same amounts
			paged := map[string]uint64{}
			var key []byte
			for pages := 0; pages < 20; pages++ {
				r, err := e.MT.Balances(s.Ctx, &mttypes.QueryBalancesRequest{Owner: addr(a), DenomId: cl.id, Pagination: &query.PageRequest{Key: key, Limit: 1}})
				if err != nil {
					fs = append(fs, mc.F("C15/query-failed/balances-page", "class c%d holder %s: %v", ci+1, actors[a], err))
					break
				}
				if len(r.Balance) > 1 {
					fs = append(fs, mc.F("C15/balances-pages-differ/page-longer-than-asked", "class c%d holder %s: a page of limit 1 lists %d entries", ci+1, actors[a], len(r.Balance)))
				}
				for _, b := range r.Balance {
					if _, dup := paged[b.MtId]; dup {
						fs = append(fs, mc.F("C15/balances-pages-differ/token-on-two-pages", "class c%d holder %s: token %s appears on two pages", ci+1, actors[a], b.MtId))
					}
					paged[b.MtId] = b.Amount
				}
				if r.Pagination == nil || len(r.Pagination.NextKey) == 0 {
					break
				}
				key = r.Pagination.NextKey
			}
			if fmt.Sprint(paged) != fmt.Sprint(bals[a]) {
				fs = append(fs, mc.F("C15/balances-pages-differ/from-whole-listing", "class c%d holder %s: pages of one entry give %v, the whole listing %v", ci+1, actors[a], paged, bals[a]))
			}
		}
		for ti, t := range cl.tokens {
			sr, err := e.MT.MTSupply(s.Ctx, &mttypes.QueryMTSupplyRequest{DenomId: cl.id, MtId: t.id})
			if err != nil {
				panic("MTSupply query: " + err.Error())
			}
			sum := new(big.Int)
			holders := 0
			for a := range actors {
				sum.Add(sum, new(big.Int).SetUint64(bals[a][t.id]))
				if bals[a][t.id] > 0 {
					holders++
				}
			}
			if holders >= 2 {
				multi = true
			}
			sup := new(big.Int).SetUint64(sr.Amount)
			if sum.Cmp(sup) != 0 {
				fs = append(fs, mc.F("C15/balances-sum-differs-from-supply", "token c%d.t%d: holders' balances add up to %s, recorded supply %d", ci+1, ti+1, sum, sr.Amount))
			}
			k := cl.id + "/" + t.id
			accounted[k] = true
			r := raw[k]
			if r == nil {
				r = new(big.Int)
			}
			if r.Cmp(sup) != 0 {
				fs = append(fs, mc.F("C15/stored-balances-sum-differs-from-supply", "token c%d.t%d: all stored balance entries add up to %s, recorded supply %d", ci+1, ti+1, r, sr.Amount))
			}
		}
	}
	var stray []string
	for k, v := range raw {
		if !accounted[k] && v.Sign() != 0 {
			stray = append(stray, k)
		}
	}
	sort.Strings(stray)
	if len(stray) > 0 {
		fs = append(fs, mc.F("C15/balance-of-unissued-token", "stored balances exist for tokens that were never issued: %v", stray))
	}
	if d.V.Boundary {
		s.Nontrivial = multi
	} else {
		s.Nontrivial = handed || len(m.classes) >= 2
	}
	return fs
}

// Variants exposes the explorations for reuse by the cross-cutting checks (C11, C12).
func Variants() []Variant {
	return []Variant{
		{Name: "ledger-boundary-amounts", Boundary: true, MaxClasses: 1, MaxTokens: 2},
		{Name: "authority-and-ids", MaxClasses: 2, MaxTokens: 2},
	}
}

// Parts of the C15 check.
func Parts() []mc.Part {
	ledger := Variant{Name: "ledger-boundary-amounts", Boundary: true, MaxClasses: 1, MaxTokens: 2,
		Rule: "state in which some token has >= 2 holders with a positive balance; distinct by canonical hash of the mt store and the reference ledger"}
	auth := Variant{Name: "authority-and-ids", MaxClasses: 2, MaxTokens: 2,
		Rule: "state with >= 2 classes or a class whose owner is not its issuer; distinct by canonical hash of the mt store and the reference ledger"}
	return []mc.Part{
		mc.ExplorePartC(ledger.Name, New(ledger), 5, 6, false, ledger.Rule, &mc.ConfOpts{Stores: []string{"mt"}, SkipDenoms: map[string]bool{"stake": true}, MaxPaths: 100}),
		mc.ExplorePartC(auth.Name, New(auth), 6, 8, false, auth.Rule, &mc.ConfOpts{Stores: []string{"mt"}, SkipDenoms: map[string]bool{"stake": true}, MaxPaths: 100}),
		GenesisImportPart(),
	}
}
