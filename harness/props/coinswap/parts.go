package coinswap

import (
	sdkmath "cosmossdk.io/math"

	"verif/harness/mc"
)

func i(n int64) sdkmath.Int { return sdkmath.NewInt(n) }

func small(mode string) Variant {
	return Variant{Name: "small-reserves", Mode: mode, Std1: i(10007), Tok1: i(1003), Std2: i(5003), Tok2: i(997),
		Amts: []sdkmath.Int{i(1), i(7), i(640)}, Params: true}
}

// smallCheap adds a third pool whose token is worth a hundredth of the standard coin.
func smallCheap(mode string) Variant {
	v := small(mode)
	v.Name = "small-reserves-cheap-token"
	v.Std3, v.Tok3 = i(1009), i(100003)
	v.Amts = []sdkmath.Int{i(1), i(7), i(64)}
	v.CreationFee = 5001
	return v
}

func bigv(mode string) Variant {
	// reserves near 2^127 / 2^100, trades of 1, 2^64+1 and 2^96-1
	return Variant{Name: "big-reserves", Mode: mode,
		Std1: mc.Big(127).AddRaw(1), Tok1: mc.Big(100).AddRaw(7), Std2: mc.Big(110).SubRaw(1), Tok2: mc.Big(120).AddRaw(3),
		Amts: []sdkmath.Int{i(1), mc.Big(64).AddRaw(1), mc.Big(96).SubRaw(1)}, Params: false, SubSecond: true}
}

func vestingEscrow(mode string) Variant {
	v := small(mode)
	v.Name, v.VestingEscrow, v.Params = "vesting-escrow", true, false
	return v
}

const rule = "state in which both fixture pools are live after at least one operation; distinct by canonical hash of coinswap+bank stores"

// PartsC01: kernel lattice + stateful searches.
func PartsC01() []mc.Part {
	return []mc.Part{
		KernelPart(),
		mc.ExplorePartC("small-reserves", mc.WithRestart(New(small("C01")), "coinswap"), 3, 4, false, rule, &mc.ConfOpts{Stores: []string{"coinswap"}, SkipDenoms: map[string]bool{"stake": true}, MaxPaths: 150}),
		mc.ExplorePart("big-reserves", New(bigv("C01")), 3, 4, false, rule),
		// the first pool's escrow is a vesting account with locked standard coins: they are reserves like any other
		mc.ExplorePart("vesting-escrow", New(vestingEscrow("C01")), 2, 3, false, rule),
	}
}

// PartsC02: settlement searches.
func PartsC02() []mc.Part {
	return []mc.Part{
		mc.ExplorePartC("small-reserves", mc.WithRestart(New(small("C02")), "coinswap"), 4, 5, false, rule, &mc.ConfOpts{Stores: []string{"coinswap"}, SkipDenoms: map[string]bool{"stake": true}, MaxPaths: 150}),
		mc.ExplorePart("small-reserves-cheap-token", New(smallCheap("C02")), 3, 4, false, rule),
		mc.ExplorePart("big-reserves", New(bigv("C02")), 2, 3, false, rule),
	}
}
