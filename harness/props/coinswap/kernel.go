package coinswap

import (
	"fmt"
	"math/big"
	"time"

	sdkmath "cosmossdk.io/math"

	cskeeper "mods.irisnet.org/modules/coinswap/keeper"

	"verif/harness/mc"
)

// KernelPart enumerates GetInputPrice / GetOutputPrice exhaustively over a finite lattice and checks
// the fee-inclusive constant-product rule, maximality (exact input) and minimality+1 (exact output)
// in exact integers.
func KernelPart() mc.Part {
	return mc.Part{Name: "price-kernel", Run: func(tier string, known []mc.KnownFinding, dl time.Time) mc.PartReport {
		start := time.Now()
		N := int64(40)
		if tier == "thorough" {
			N = 90
		}
		fees := []sdkmath.LegacyDec{
			sdkmath.LegacySmallestDec(), sdkmath.LegacyNewDecWithPrec(3, 3), sdkmath.LegacyNewDecWithPrec(1, 1),
			sdkmath.LegacyNewDecWithPrec(5, 1), sdkmath.LegacyOneDec().Sub(sdkmath.LegacySmallestDec()),
		}
		var small []*big.Int
		for v := int64(1); v <= N; v++ {
			small = append(small, big.NewInt(v))
		}
		var lattice []*big.Int
		for _, k := range []uint{63, 64, 96, 127, 128} {
			for _, dd := range []int64{-1, 0, 1} {
				lattice = append(lattice, new(big.Int).Add(new(big.Int).Lsh(big.NewInt(1), k), big.NewInt(dd)))
			}
		}
		mixed := append(append([]*big.Int{}, small[:6]...), lattice...)
		rep := mc.PartReport{Exhaustive: true, Bounds: map[string]interface{}{"small_max": N, "lattice": "2^k+d, k in {63,64,96,127,128}, d in {-1,0,1}", "fees": fmt.Sprint(fees)}}
		seen := map[string]bool{}
		add := func(sig, detail string) {
			if !seen[sig] {
				seen[sig] = true
				rep.Violations = append(rep.Violations, mc.Violation{Finding: mc.Finding{Sig: sig, Detail: detail}})
			}
		}
		var evals, nontriv, overflow int64
		eval := func(x, rin, rout *big.Int, fee sdkmath.LegacyDec) {
			X, RI, RO := sdkmath.NewIntFromBigInt(x), sdkmath.NewIntFromBigInt(rin), sdkmath.NewIntFromBigInt(rout)
			// exact input
			func() {
				defer func() {
					if r := recover(); r != nil {
						overflow++ // 256-bit overflow inside the price function: the tx fails, nothing is priced
					}
				}()
				recv := cskeeper.GetInputPrice(X, RI, RO, fee).BigInt()
				evals++
				if recv.Sign() > 0 {
					nontriv++
				}
				if recv.Sign() < 0 || !ruleHolds(rin, rout, x, recv, fee) {
					add("C01/kernel/fee-rule-violated/exact-input", fmt.Sprintf("GetInputPrice(%s,%s,%s,%s)=%s", x, rin, rout, fee, recv))
				}
				r1 := new(big.Int).Add(recv, big.NewInt(1))
				if r1.Cmp(rout) <= 0 && ruleHolds(rin, rout, x, r1, fee) {
					add("C01/kernel/received-not-maximal", fmt.Sprintf("GetInputPrice(%s,%s,%s,%s)=%s but %s also satisfies the rule", x, rin, rout, fee, recv, r1))
				}
			}()
			// exact output (needs x < rout)
			if x.Cmp(rout) < 0 {
				func() {
					defer func() {
						if r := recover(); r != nil {
							overflow++
						}
					}()
					paid := cskeeper.GetOutputPrice(X, RI, RO, fee).BigInt()
					evals++
					nontriv++
					if !ruleHolds(rin, rout, paid, x, fee) {
						add("C01/kernel/fee-rule-violated/exact-output", fmt.Sprintf("GetOutputPrice(%s,%s,%s,%s)=%s", x, rin, rout, fee, paid))
					}
					p2 := new(big.Int).Sub(paid, big.NewInt(2))
					if p2.Sign() >= 0 && ruleHolds(rin, rout, p2, x, fee) {
						add("C01/kernel/paid-more-than-one-above-minimum", fmt.Sprintf("GetOutputPrice(%s,%s,%s,%s)=%s but %s also satisfies the rule", x, rin, rout, fee, paid, p2))
					}
				}()
			}
		}
		for _, fee := range fees {
			for _, x := range small {
				for _, ri := range small {
					for _, ro := range small {
						eval(x, ri, ro, fee)
					}
				}
			}
			for _, x := range mixed {
				for _, ri := range mixed {
					for _, ro := range mixed {
						eval(x, ri, ro, fee)
					}
				}
			}
		}
		rep.Evaluations = evals
		rep.Nontrivial = nontriv
		rep.Bounds["overflow_rejections"] = overflow
		rep.Samples = []interface{}{"GetInputPrice(7,10007,1003,0.003)", "GetOutputPrice(2^64+1,2^127,2^128-1,0.5)"}
		rep.Rule = "every (amount, reserve_in, reserve_out, fee) in the lattice; non-trivial = priced result > 0"
		rep.WallS = time.Since(start).Seconds()
		return rep
	}}
}
