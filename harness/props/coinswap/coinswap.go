// Package coinswap drives the coinswap AMM for C01 (value per share / fee-inclusive pricing) and
// C02 (settlement moves exactly the traded coins between the right parties).
package coinswap

import (
	"encoding/json"
	"fmt"
	"github.com/cosmos/cosmos-sdk/codec"
	codectypes "github.com/cosmos/cosmos-sdk/codec/types"
	vestingtypes "github.com/cosmos/cosmos-sdk/x/auth/vesting/types"
	banktypes "github.com/cosmos/cosmos-sdk/x/bank/types"
	"math/big"
	"sort"
	"time"

	sdkmath "cosmossdk.io/math"
	sdk "github.com/cosmos/cosmos-sdk/types"
	authtypes "github.com/cosmos/cosmos-sdk/x/auth/types"

	cstypes "mods.irisnet.org/modules/coinswap/types"

	"verif/harness/mc"
)

const std = "stake"

// Variant of the exploration.
type Variant struct {
	Name string
	Mode string // "C01" or "C02"
	// fixture reserves: pool1 = btc/stake, pool2 = eth/stake
	Std1, Tok1, Std2, Tok2 sdkmath.Int
	Amts                   []sdkmath.Int // trade / liquidity amounts
	Params                 bool          // include fee parameter changes (C01)
	SubSecond              bool          // block time with a non-zero sub-second part
	// optional third fixture pool usdt/stake whose token is worth LESS than the standard coin (Tok3 > Std3):
	// on a route that starts with it the intermediate standard amount is smaller than the token amount paid
	Std3, Tok3 sdkmath.Int
	// CreationFee, if positive, replaces the pool creation fee amount (5001 x tax 0.4 has a fractional tax share)
	CreationFee int64
	// VestingEscrow: the address that will be the first pool's escrow account (it is a hash of the liquidity token's
	// name, known before the pool exists) is a vesting account from genesis, with standard coins locked for good
	VestingEscrow bool
}

type poolObs struct {
	S, T, L *big.Int
}

type opData struct {
	kind         string
	who, rcpt    string
	in, out      string // denoms
	amt          sdkmath.Int
	buy          bool
	bound        string // "loose","exact","miss1"
	past         bool
	pool         string // counterparty denom
	side         string
	all, allBut1 bool
	fee          sdkmath.LegacyDec
	which        string
	missWhich    string
	bad          bool // parameter value outside its valid range
	foreign      bool // one-sided message naming a denomination outside the pool's pair
}

// parked: the reference's only state - standard coins users sent to the module's own account by plain transfers
type parked struct{ n *big.Int }

func (p *parked) amount() *big.Int {
	if p == nil || p.n == nil {
		return new(big.Int)
	}
	return p.n
}
func (p *parked) Clone() mc.Model { return &parked{n: new(big.Int).Set(p.amount())} }
func (p *parked) Canon() []byte   { return []byte(p.amount().String()) }

// Driver implements mc.Driver.
type Driver struct{ V Variant }

// lookAlike is an ordinary coin named like a liquidity token of pool 1 (lpt-1) but for its prefix.
const lookAlike = "fake-1"

func New(v Variant) func() (*mc.Env, mc.Driver) {
	return func() (*mc.Env, mc.Driver) {
		rich := mc.Big(135)
		coins := sdk.NewCoins(mc.CI(std, rich), mc.CI("btc", rich), mc.CI("eth", rich), mc.CI("usdt", rich), mc.CI("ada", rich))
		// C also holds a coin whose name merely looks like a liquidity token of the first pool ("<word>-<pool sequence>")
		cCoins := coins.Add(mc.CI(lookAlike, mc.Big(20)))
		opts := mc.EnvOptions{Balances: map[string]sdk.Coins{"A": coins, "B": coins, "C": cCoins, "R": nil}}
		if v.VestingEscrow {
			esc := cstypes.GetReservePoolAddr("lpt-1")
			locked := sdk.NewCoins(mc.C(std, 1000))
			opts.GenesisMutators = map[string]func(cdc codec.Codec, raw json.RawMessage) json.RawMessage{
				authtypes.ModuleName: func(cdc codec.Codec, raw json.RawMessage) json.RawMessage {
					var g authtypes.GenesisState
					cdc.MustUnmarshalJSON(raw, &g)
					bva, err := vestingtypes.NewBaseVestingAccount(authtypes.NewBaseAccountWithAddress(esc), locked, 4102444800) // locked until 2100
					if err != nil {
						panic(err)
					}
					any, err := codectypes.NewAnyWithValue(vestingtypes.NewDelayedVestingAccountRaw(bva))
					if err != nil {
						panic(err)
					}
					g.Accounts = append(g.Accounts, any)
					return cdc.MustMarshalJSON(&g)
				},
				banktypes.ModuleName: func(cdc codec.Codec, raw json.RawMessage) json.RawMessage {
					var g banktypes.GenesisState
					cdc.MustUnmarshalJSON(raw, &g)
					g.Balances = append(g.Balances, banktypes.Balance{Address: esc.String(), Coins: locked})
					g.Supply = g.Supply.Add(locked...)
					return cdc.MustMarshalJSON(&g)
				},
			}
		}
		e := mc.NewEnv(opts)
		return e, &Driver{V: v}
	}
}

func (d *Driver) ID() string       { return d.V.Mode + "/" + d.V.Name }
func (d *Driver) Stores() []string { return []string{"coinswap", "bank"} }

func must(out mc.Outcome, what string) {
	if !out.OK {
		panic(fmt.Sprintf("fixture step %s failed: %s", what, out))
	}
}

// deadline returns the two deadlines (whole unix seconds) that straddle the block time exactly: the smallest
// one that has not passed (its instant is >= the block time) and the largest one that has (its instant is
// before the block time, possibly by less than a second when the block time has a sub-second part).
func deadline(s *mc.State, past bool) int64 {
	bt := s.Ctx.BlockTime()
	t := bt.Unix()
	if bt.Nanosecond() > 0 {
		if past {
			return t
		}
		return t + 1
	}
	if past {
		return t - 1
	}
	return t
}

func (d *Driver) Init(e *mc.Env) *mc.State {
	s := &mc.State{Ctx: mc.Branch(e.Root)}
	if d.V.SubSecond {
		// real block times carry nanoseconds: this variant runs at a block time half-way into a second
		s.Ctx, _ = e.NextBlock(s.Ctx, 1500*time.Millisecond)
	}
	if d.V.CreationFee > 0 {
		p := e.Coinswap.GetParams(s.Ctx)
		p.PoolCreationFee = sdk.NewInt64Coin(p.PoolCreationFee.Denom, d.V.CreationFee)
		must(s.Deliver(e, "fx-params", &cstypes.MsgUpdateParams{Authority: mc.Authority().String(), Params: p}), "params")
	}
	dl := deadline(s, false)
	must(s.Deliver(e, "fx-pool1", &cstypes.MsgAddLiquidity{MaxToken: mc.CI("btc", d.V.Tok1), ExactStandardAmt: d.V.Std1,
		MinLiquidity: sdkmath.OneInt(), Deadline: dl, Sender: mc.Addr("A").String()}), "pool1")
	must(s.Deliver(e, "fx-pool2", &cstypes.MsgAddLiquidity{MaxToken: mc.CI("eth", d.V.Tok2), ExactStandardAmt: d.V.Std2,
		MinLiquidity: sdkmath.OneInt(), Deadline: dl, Sender: mc.Addr("B").String()}), "pool2")
	if !d.V.Std3.IsNil() && d.V.Std3.IsPositive() {
		must(s.Deliver(e, "fx-pool3", &cstypes.MsgAddLiquidity{MaxToken: mc.CI("usdt", d.V.Tok3), ExactStandardAmt: d.V.Std3,
			MinLiquidity: sdkmath.OneInt(), Deadline: dl, Sender: mc.Addr("B").String()}), "pool3")
	}
	return s
}

func (d *Driver) hasPool3() bool { return !d.V.Std3.IsNil() && d.V.Std3.IsPositive() }

func lptOf(e *mc.Env, s *mc.State, counterparty string) (lpt string, escrow sdk.AccAddress, ok bool) {
	p, exists := e.Coinswap.GetPool(s.Ctx, cstypes.GetPoolId(counterparty))
	if !exists {
		return "", nil, false
	}
	a, _ := sdk.AccAddressFromBech32(p.EscrowAddress)
	return p.LptDenom, a, true
}

func (d *Driver) obs(e *mc.Env, s *mc.State, counterparty string) (poolObs, bool) {
	lpt, esc, ok := lptOf(e, s, counterparty)
	if !ok {
		return poolObs{}, false
	}
	return poolObs{S: e.Bal(s.Ctx, esc, std).BigInt(), T: e.Bal(s.Ctx, esc, counterparty).BigInt(), L: e.Supply(s.Ctx, lpt).BigInt()}, true
}

func (d *Driver) Enabled(e *mc.Env, s *mc.State) []mc.Op {
	var ops []mc.Op
	add := func(name string, od opData) { ops = append(ops, mc.Op{Name: name, Data: od}) }
	routes := [][2]string{{"btc", std}, {std, "btc"}, {"btc", "eth"}}
	if d.V.Mode == "C01" {
		for i, a := range d.V.Amts {
			for _, r := range routes {
				add(fmt.Sprintf("sell(C,%s->%s,a%d)", r[0], r[1], i), opData{kind: "swap", who: "C", rcpt: "C", in: r[0], out: r[1], amt: a, bound: "loose"})
			}
		}
		for i, a := range d.V.Amts[:2] {
			for _, r := range routes {
				add(fmt.Sprintf("buy(C,%s->%s,a%d)", r[0], r[1], i), opData{kind: "swap", who: "C", rcpt: "C", in: r[0], out: r[1], amt: a, buy: true, bound: "loose"})
			}
		}
		// an order from a denomination to itself: refused today; were it executed, both legs would run through
		// one pool, and each leg has to obey the rule on the reserves it actually meets (see sameDenomLegs)
		add("sell(C,btc->btc,a0)", opData{kind: "swap", who: "C", rcpt: "C", in: "btc", out: "btc", amt: d.V.Amts[0], bound: "loose"})
		add("buy(C,btc->btc,a0)", opData{kind: "swap", who: "C", rcpt: "C", in: "btc", out: "btc", amt: d.V.Amts[0], buy: true, bound: "loose"})
		for i, a := range d.V.Amts {
			add(fmt.Sprintf("addliq(B,btc,a%d)", i), opData{kind: "addliq", who: "B", pool: "btc", amt: a, bound: "loose"})
		}
		// the user's bounds sit where the rounding happens: the same liquidity messages with the bound exactly met
		// and missed by one (learned on a throw-away branch)
		for _, k := range []string{"addliq", "uniadd", "unirm", "rmliq"} {
			who := "B"
			if k == "rmliq" || k == "unirm" {
				who = "A"
			}
			for _, b := range []string{"exact", "miss1"} {
				add(fmt.Sprintf("%s(%s,btc,a2,bound=%s)", k, who, b), opData{kind: k, who: who, pool: "btc", side: "btc", amt: d.V.Amts[2], bound: b})
			}
		}
		add("rmliq(A,btc,a0)", opData{kind: "rmliq", who: "A", pool: "btc", amt: d.V.Amts[0], bound: "loose"})
		add("rmliq(A,btc,all-1)", opData{kind: "rmliq", who: "A", pool: "btc", allBut1: true, bound: "loose"})
		add("rmliq(A,btc,all)", opData{kind: "rmliq", who: "A", pool: "btc", all: true, bound: "loose"})
		for i, a := range d.V.Amts[:2] {
			for _, side := range []string{"btc", std} {
				add(fmt.Sprintf("uniadd(C,btc,%s,a%d)", side, i), opData{kind: "uniadd", who: "C", pool: "btc", side: side, amt: a, bound: "loose"})
				add(fmt.Sprintf("unirm(A,btc,%s,a%d)", side, i), opData{kind: "unirm", who: "A", pool: "btc", side: side, amt: a, bound: "loose"})
			}
		}
		add("donate(btc)", opData{kind: "donate", who: "C", pool: "btc", side: "btc", amt: d.V.Amts[1]})
		add("donate(stake)", opData{kind: "donate", who: "C", pool: "btc", side: std, amt: d.V.Amts[1]})
		// a denom foreign to the pool: its escrow can receive it, but it must never count as a reserve
		add("donate(eth->btc-pool)", opData{kind: "donate", who: "C", pool: "btc", side: "eth", amt: d.V.Amts[0]})
		add("uniadd(C,btc,eth,a1)", opData{kind: "uniadd", who: "C", pool: "btc", side: "eth", amt: d.V.Amts[1], bound: "loose", foreign: true})
		add("!unirm(A,btc,eth,a1)", opData{kind: "unirm", who: "A", pool: "btc", side: "eth", amt: d.V.Amts[1], bound: "loose", foreign: true})
		// a holder parks some of the pool's own liquidity tokens on the pool's escrow account
		add("donate(lpt->btc-pool)", opData{kind: "donate", who: "A", pool: "btc", side: "lpt", amt: d.V.Amts[1]})
		// a withdrawal that offers a coin which is not a liquidity token at all
		add("!rmliq(C,"+lookAlike+",a1)", opData{kind: "rmliq-foreign", who: "C", pool: "btc", side: lookAlike, amt: d.V.Amts[1], bound: "loose"})
		if d.V.Params {
			add("fee(1e-18)", opData{kind: "param", which: "fee", fee: sdkmath.LegacySmallestDec()})
			add("fee(0.5)", opData{kind: "param", which: "fee", fee: sdkmath.LegacyNewDecWithPrec(5, 1)})
			add("fee(1-1e-18)", opData{kind: "param", which: "fee", fee: sdkmath.LegacyOneDec().Sub(sdkmath.LegacySmallestDec())})
			add("unifee(0)", opData{kind: "param", which: "uni", fee: sdkmath.LegacyZeroDec()})
			add("unifee(0.5)", opData{kind: "param", which: "uni", fee: sdkmath.LegacyNewDecWithPrec(5, 1)})
			// outside the valid ranges (fee in (0,1), one-sided fee in [0,1)): the property is stated for parameters
			// in their valid ranges, so these must never be stored
			add("!fee(0)", opData{kind: "param", which: "fee", fee: sdkmath.LegacyZeroDec(), bad: true})
			add("!fee(1)", opData{kind: "param", which: "fee", fee: sdkmath.LegacyOneDec(), bad: true})
			add("!fee(-0.003)", opData{kind: "param", which: "fee", fee: sdkmath.LegacyNewDecWithPrec(-3, 3), bad: true})
			add("!unifee(1)", opData{kind: "param", which: "uni", fee: sdkmath.LegacyOneDec(), bad: true})
			add("!unifee(-0.5)", opData{kind: "param", which: "uni", fee: sdkmath.LegacyNewDecWithPrec(-5, 1), bad: true})
		}
		return ops
	}
	// ---- C02 alphabet: vary one dimension at a time from the default
	a := d.V.Amts[1]
	if d.hasPool3() {
		// a route that starts with the cheap token: more of it is paid than standard coin passes through the middle
		routes = append(routes, [2]string{"usdt", "btc"})
	}
	for _, buy := range []bool{false, true} {
		kind := "sell"
		if buy {
			kind = "buy"
		}
		for _, r := range routes {
			base := opData{kind: "swap", who: "C", rcpt: "C", in: r[0], out: r[1], amt: a, buy: buy, bound: "loose"}
			v := base
			add(fmt.Sprintf("%s(C,%s->%s)", kind, r[0], r[1]), v)
			v = base
			v.rcpt = "R"
			add(fmt.Sprintf("%s(C,%s->%s,to=R)", kind, r[0], r[1]), v)
			v = base
			v.rcpt = "feecollector"
			add(fmt.Sprintf("%s(C,%s->%s,to=blocked)", kind, r[0], r[1]), v)
			v = base
			v.bound = "exact"
			add(fmt.Sprintf("%s(C,%s->%s,bound=exact)", kind, r[0], r[1]), v)
			v = base
			v.bound = "miss1"
			add(fmt.Sprintf("%s(C,%s->%s,bound=miss1)", kind, r[0], r[1]), v)
			v = base
			v.past = true
			add(fmt.Sprintf("%s(C,%s->%s,deadline=past)", kind, r[0], r[1]), v)
		}
	}
	for _, k := range []string{"addliq", "rmliq", "uniadd", "unirm"} {
		who := "B"
		if k == "rmliq" || k == "unirm" {
			who = "A"
		}
		base := opData{kind: k, who: who, pool: "btc", side: "btc", amt: a, bound: "loose"}
		v := base
		add(fmt.Sprintf("%s(%s,btc)", k, who), v)
		v = base
		v.bound = "exact"
		add(fmt.Sprintf("%s(%s,btc,bound=exact)", k, who), v)
		v = base
		v.bound = "miss1"
		add(fmt.Sprintf("%s(%s,btc,bound=miss1)", k, who), v)
		if k == "addliq" || k == "rmliq" {
			v = base
			v.bound = "miss1"
			v.missWhich = "second"
			add(fmt.Sprintf("%s(%s,btc,bound=miss1b)", k, who), v)
		}
		v = base
		v.past = true
		add(fmt.Sprintf("%s(%s,btc,deadline=past)", k, who), v)
	}
	add("rmliq(A,btc,all)", opData{kind: "rmliq", who: "A", pool: "btc", all: true, bound: "loose"})
	// somebody parks standard coins on the module's own account (it is an ordinary address to the bank): what
	// later messages move and burn is still exactly what the property says
	add("park(C,stake->module-account)", opData{kind: "park", who: "C", amt: a})
	// a third denomination lands on the pool's escrow account by a plain transfer; one-sided messages naming it
	// have nothing to do with the pool's pair and must never succeed
	add("donate(eth->btc-pool)", opData{kind: "donate", who: "C", pool: "btc", side: "eth", amt: a})
	add("!uniadd(C,btc,eth)", opData{kind: "uniadd", who: "C", pool: "btc", side: "eth", amt: a, bound: "loose", foreign: true})
	add("!unirm(A,btc,eth)", opData{kind: "unirm", who: "A", pool: "btc", side: "eth", amt: a, bound: "loose", foreign: true})
	// a withdrawal that offers a coin which is not a liquidity token at all (its name ends in the pool's sequence)
	add("!rmliq(C,"+lookAlike+")", opData{kind: "rmliq-foreign", who: "C", pool: "btc", side: lookAlike, amt: a, bound: "loose"})
	// a denom that sorts BEFORE the fixture pools' (the newest pool is then not the last one in denom order)
	newDenom := "ada"
	add("addliq(C,"+newDenom+",new-pool)", opData{kind: "addliq", who: "C", pool: newDenom, amt: a, bound: "loose"})
	return ops
}

func addrOf(name string) sdk.AccAddress {
	if name == "feecollector" {
		return mc.ModuleAddr(authtypes.FeeCollectorName)
	}
	return mc.Addr(name)
}

func (d *Driver) universe(e *mc.Env, s *mc.State) mc.Universe {
	u := mc.Universe{"A": mc.Addr("A"), "B": mc.Addr("B"), "C": mc.Addr("C"), "R": mc.Addr("R"),
		"feecollector": mc.ModuleAddr(authtypes.FeeCollectorName), "module": mc.ModuleAddr(cstypes.ModuleName)}
	for _, cp := range []string{"btc", "eth", "usdt", "ada"} {
		if _, esc, ok := lptOf(e, s, cp); ok {
			u["pool-"+cp] = esc
		}
	}
	return u
}

var huge = sdkmath.NewIntFromBigInt(new(big.Int).Lsh(big.NewInt(1), 200))

// buildMsg constructs the message for op with the given bounds (b1,b2 meaning depends on kind).
func (d *Driver) buildMsg(e *mc.Env, s *mc.State, od opData, b1, b2 sdkmath.Int) sdk.Msg {
	dl := deadline(s, od.past)
	who := mc.Addr(od.who).String()
	switch od.kind {
	case "swap":
		if od.buy {
			// pay at most b1 of in, receive exactly amt of out
			return &cstypes.MsgSwapOrder{Input: cstypes.Input{Address: who, Coin: mc.CI(od.in, b1)},
				Output: cstypes.Output{Address: addrOf(od.rcpt).String(), Coin: mc.CI(od.out, od.amt)}, Deadline: dl, IsBuyOrder: true}
		}
		return &cstypes.MsgSwapOrder{Input: cstypes.Input{Address: who, Coin: mc.CI(od.in, od.amt)},
			Output: cstypes.Output{Address: addrOf(od.rcpt).String(), Coin: mc.CI(od.out, b1)}, Deadline: dl}
	case "addliq":
		return &cstypes.MsgAddLiquidity{MaxToken: mc.CI(od.pool, b1), ExactStandardAmt: od.amt, MinLiquidity: b2, Deadline: dl, Sender: who}
	case "rmliq":
		lpt, _, _ := lptOf(e, s, od.pool)
		return &cstypes.MsgRemoveLiquidity{WithdrawLiquidity: mc.CI(lpt, od.amt), MinToken: b1, MinStandardAmt: b2, Deadline: dl, Sender: who}
	case "rmliq-foreign":
		return &cstypes.MsgRemoveLiquidity{WithdrawLiquidity: mc.CI(od.side, od.amt), MinToken: b1, MinStandardAmt: b2, Deadline: dl, Sender: who}
	case "uniadd":
		return &cstypes.MsgAddUnilateralLiquidity{CounterpartyDenom: od.pool, ExactToken: mc.CI(od.side, od.amt), MinLiquidity: b1, Deadline: dl, Sender: who}
	case "unirm":
		return &cstypes.MsgRemoveUnilateralLiquidity{CounterpartyDenom: od.pool, MinToken: mc.CI(od.side, b1), ExactLiquidity: od.amt, Deadline: dl, Sender: who}
	}
	panic("buildMsg " + od.kind)
}

func looseBounds(od opData) (sdkmath.Int, sdkmath.Int) {
	switch od.kind {
	case "swap":
		if od.buy {
			return huge, sdkmath.ZeroInt()
		}
		return sdkmath.OneInt(), sdkmath.ZeroInt()
	case "addliq":
		// affordable for every actor: when the pool is empty the whole MaxToken is deposited
		return mc.Big(130), sdkmath.ZeroInt()
	case "rmliq", "rmliq-foreign":
		return sdkmath.ZeroInt(), sdkmath.ZeroInt()
	case "uniadd":
		return sdkmath.ZeroInt(), sdkmath.ZeroInt()
	case "unirm":
		return sdkmath.OneInt(), sdkmath.ZeroInt() // validation requires a positive minimum
	}
	panic("looseBounds")
}

func neg(x *big.Int) *big.Int { return new(big.Int).Neg(x) }

func (d *Driver) Apply(e *mc.Env, s *mc.State, op mc.Op) []mc.Finding {
	var out []mc.Finding
	for _, f := range d.apply(e, s, op) {
		if len(f.Sig) >= 4 && f.Sig[:4] == d.V.Mode+"/" {
			out = append(out, f)
		}
	}
	return out
}

func (d *Driver) apply(e *mc.Env, s *mc.State, op mc.Op) []mc.Finding {
	od := op.Data.(opData)
	var fs []mc.Finding
	switch od.kind {
	case "donate":
		lptDenom, esc, ok := lptOf(e, s, od.pool)
		if !ok {
			return nil
		}
		dn := od.side
		if dn == "lpt" {
			dn = lptDenom
		}
		s.Deliver(e, op.Name, mc.Send(mc.Addr(od.who), esc, mc.CI(dn, od.amt)))
		return nil
	case "park":
		if out := s.Deliver(e, op.Name, mc.Send(mc.Addr(od.who), mc.ModuleAddr(cstypes.ModuleName), mc.CI(std, od.amt))); out.OK {
			pm, _ := s.Model.(*parked)
			if pm == nil {
				pm = &parked{}
			}
			s.Model = &parked{n: new(big.Int).Add(pm.amount(), od.amt.BigInt())}
		}
		return nil
	case "param":
		p := e.Coinswap.GetParams(s.Ctx)
		if od.which == "fee" {
			p.Fee = od.fee
		} else {
			p.UnilateralLiquidityFee = od.fee
		}
		out := s.Deliver(e, op.Name, &cstypes.MsgUpdateParams{Authority: mc.Authority().String(), Params: p})
		if od.bad && out.OK {
			return []mc.Finding{mc.F("C01/out-of-range-fee-accepted/"+od.which, "%s was accepted and stored: %s = %s lies outside the valid range", op.Name, od.which, od.fee)}
		}
		return nil
	}
	// resolve "all" amounts
	if od.kind == "rmliq" && (od.all || od.allBut1) {
		lpt, _, ok := lptOf(e, s, od.pool)
		if !ok {
			return nil
		}
		od.amt = e.Bal(s.Ctx, mc.Addr(od.who), lpt)
		if od.allBut1 {
			od.amt = od.amt.SubRaw(1)
		}
		if !od.amt.IsPositive() {
			s.Last = "err"
			return nil
		}
	}
	params := e.Coinswap.GetParams(s.Ctx)
	b1, b2 := looseBounds(od)

	// learn the actual traded amounts on a throw-away fork with loose bounds (differential oracle for
	// the user's bounds: "exactly met" must succeed with the same amounts, "missed by one" must be rejected)
	u := d.universe(e, s)
	var learned mc.Delta
	learnedOK := false
	if od.bound != "loose" {
		fk := s.Fork()
		before := e.Snapshot(fk.Ctx, u)
		lo := od
		lo.past = false
		o := fk.Deliver(e, op.Name+"/learn", d.buildMsg(e, fk, lo, b1, b2))
		if o.OK {
			learned = mc.Diff(before, e.Snapshot(fk.Ctx, u))
			learnedOK = true
		}
		if !learnedOK {
			// the operation is impossible in this state even with loose bounds; run it loosely
			od.bound = "loose"
		} else {
			x1, x2 := d.tightBounds(e, s, od, learned)
			b1, b2 = x1, x2
			if od.bound == "miss1" {
				switch {
				case od.kind == "swap" && od.buy:
					b1 = b1.SubRaw(1) // max paid one less than needed
				case od.kind == "addliq" && od.missWhich == "second":
					b2 = b2.AddRaw(1)
				case od.kind == "addliq":
					b1 = b1.SubRaw(1) // max token one less than needed
				case od.kind == "rmliq" && od.missWhich == "second":
					b2 = b2.AddRaw(1)
				default:
					b1 = b1.AddRaw(1) // minimum one more than obtainable
				}
				if !b1.IsPositive() && (od.kind == "swap" || od.kind == "addliq") {
					od.bound = "exact"
					b1, b2 = d.tightBounds(e, s, od, learned)
				}
			}
		}
	}

	pre := map[string]poolObs{}
	for _, cp := range []string{"btc", "eth", "usdt", "ada"} {
		if o, ok := d.obs(e, s, cp); ok {
			pre[cp] = o
		}
	}
	before := e.Snapshot(s.Ctx, u)
	msg := d.buildMsg(e, s, od, b1, b2)
	out := s.Deliver(e, op.Name, msg)
	u2 := d.universe(e, s)
	for k, v := range u2 {
		if _, ok := u[k]; !ok {
			before.Bal[k] = nil
			u[k] = v
		}
	}
	after := e.Snapshot(s.Ctx, u)
	got := mc.Diff(before, after)
	mt := od.kind
	if od.kind == "swap" {
		mt = "swap-sell"
		if od.buy {
			mt = "swap-buy"
		}
		if od.in != std && od.out != std {
			mt += "-double"
		}
	}

	if !out.OK {
		if od.past || od.bound == "miss1" {
			return fs // correctly rejected
		}
		// a rejection (even with exactly-met bounds) moves nothing; the property speaks about successful messages
		return fs
	}
	if od.foreign {
		// the pool trades its token against the standard coin; a one-sided message naming any other denomination
		// mints (or burns) liquidity against a coin that is no reserve of the pool
		fs = append(fs, mc.F("C02/one-sided-message-in-foreign-denom-accepted/"+od.kind, "%s succeeded: %s is neither pool %s's token nor the standard coin; moved [%s]", op.Name, od.side, od.pool, got))
		return append(fs, d.shareValue(e, s, op, od, mt, out, pre, params.Fee)...)
	}
	if od.kind == "rmliq-foreign" {
		// "liquidity tokens are ... burned only against withdrawals, and ... no other coin's total supply changes":
		// a withdrawal can only be paid for with the pool's own liquidity token
		fs = append(fs, mc.F("C02/withdrawal-paid-with-foreign-coin/rmliq", "%s succeeded: the offered coin %s is not the liquidity token of any pool; moved [%s]", op.Name, od.side, got))
		mt = "rmliq"
	} else {
		fs = append(fs, d.applyRest(e, s, op, od, mt, got, out, pre, b1, b2, learned, learnedOK)...)
	}
	return append(fs, d.shareValue(e, s, op, od, mt, out, pre, params.Fee)...)
}

func (d *Driver) applyRest(e *mc.Env, s *mc.State, op mc.Op, od opData, mt string, got mc.Delta, out mc.Outcome, pre map[string]poolObs, b1, b2 sdkmath.Int, learned mc.Delta, learnedOK bool) []mc.Finding {
	var fs []mc.Finding
	if od.past {
		fs = append(fs, mc.F("C02/deadline-ignored/"+mt, "%s succeeded although its deadline (unix second %d) is before the block time %s", op.Name, deadline(s, true), s.Ctx.BlockTime().Format(time.RFC3339Nano)))
	}
	// the user's bounds, checked directly on what moved: at most the stated maxima, at least the stated minima
	fs = append(fs, d.boundsRespected(e, s, od, mt, got, b1, b2)...)
	if od.bound == "exact" && learnedOK && !got.Equal(learned) {
		fs = append(fs, mc.F("C02/bounds-change-amounts/"+mt, "%s: with exact bounds moved [%s], with loose bounds [%s]", op.Name, got, learned))
	}

	// ---------- C02: settlement structure ----------
	fs = append(fs, d.settlement(e, s, od, mt, got, out, pre)...)
	return fs
}

// shareValue: C01 - value per share, fee-inclusive pricing
func (d *Driver) shareValue(e *mc.Env, s *mc.State, op mc.Op, od opData, mt string, out mc.Outcome, pre map[string]poolObs, fee sdkmath.LegacyDec) []mc.Finding {
	var fs []mc.Finding
	for cp, p0 := range pre {
		p1, ok := d.obs(e, s, cp)
		if !ok {
			continue
		}
		if p0.L.Sign() > 0 && p1.L.Sign() > 0 {
			// S'T' L^2 >= S T L'^2
			lhs := new(big.Int).Mul(new(big.Int).Mul(p1.S, p1.T), new(big.Int).Mul(p0.L, p0.L))
			rhs := new(big.Int).Mul(new(big.Int).Mul(p0.S, p0.T), new(big.Int).Mul(p1.L, p1.L))
			if lhs.Cmp(rhs) < 0 {
				fs = append(fs, mc.F("C01/share-value-decreased/"+mt, "%s on pool %s: (S=%s,T=%s,L=%s) -> (S=%s,T=%s,L=%s)", op.Name, cp, p0.S, p0.T, p0.L, p1.S, p1.T, p1.L))
			}
		}
		if p0.L.Sign() == 0 && p1.L.Sign() > 0 && (p1.S.Sign() == 0 || p1.T.Sign() == 0) {
			fs = append(fs, mc.F("C01/shares-minted-against-nothing/"+mt, "%s on pool %s: L=%s with S=%s T=%s", op.Name, cp, p1.L, p1.S, p1.T))
		}
		if od.kind == "swap" && od.in == od.out {
			if cp == od.in {
				fs = append(fs, sameDenomLegs(e, s, op.Name, mt, cp, p0, out.Events, fee, od.buy)...)
			}
		} else if od.kind == "swap" {
			fs = append(fs, swapLegCheck(op.Name, mt, cp, p0, p1, fee, od.buy)...)
		}
	}
	return fs
}

// sameDenomLegs judges an executed order whose two legs ran through one pool: the net change of the reserves
// says nothing about the single legs, so they are read from the bank transfer events of the message — a leg is
// a transfer into the pool's escrow account followed by one out of it — and each is checked against the
// reserves as they stood when it ran.
func sameDenomLegs(e *mc.Env, s *mc.State, opName, mt, cp string, p0 poolObs, evs sdk.Events, fee sdkmath.LegacyDec, buy bool) []mc.Finding {
	_, esc, ok := lptOf(e, s, cp)
	if !ok {
		return nil
	}
	cur := poolObs{S: new(big.Int).Set(p0.S), T: new(big.Int).Set(p0.T), L: p0.L}
	move := func(p poolObs, c sdk.Coin, sign int64) poolObs {
		q := poolObs{S: new(big.Int).Set(p.S), T: new(big.Int).Set(p.T), L: p.L}
		d := new(big.Int).Mul(c.Amount.BigInt(), big.NewInt(sign))
		switch c.Denom {
		case std:
			q.S.Add(q.S, d)
		case cp:
			q.T.Add(q.T, d)
		}
		return q
	}
	var fs []mc.Finding
	var legStart *poolObs
	legs := 0
	for _, ev := range evs {
		if ev.Type != "transfer" {
			continue
		}
		var from, to, amt string
		for _, a := range ev.Attributes {
			switch a.Key {
			case "sender":
				from = a.Value
			case "recipient":
				to = a.Value
			case "amount":
				amt = a.Value
			}
		}
		coins, err := sdk.ParseCoinsNormalized(amt)
		if err != nil {
			continue
		}
		for _, c := range coins {
			switch esc.String() {
			case to:
				if legStart == nil {
					st := cur
					legStart = &st
				}
				cur = move(cur, c, 1)
			case from:
				cur = move(cur, c, -1)
				if legStart != nil {
					legs++
					fs = append(fs, swapLegCheck(fmt.Sprintf("%s leg %d", opName, legs), mt, cp, *legStart, cur, fee, buy)...)
					legStart = nil
				}
			}
		}
	}
	if legs == 0 {
		fs = append(fs, mc.F("C01/swap-leg-shape/"+mt, "%s on pool %s succeeded but its transfer events show no leg through the pool", opName, cp))
	}
	return fs
}

// boundsRespected checks the stated maxima / minima of a successful message against the observed deltas.
func (d *Driver) boundsRespected(e *mc.Env, s *mc.State, od opData, mt string, got mc.Delta, b1, b2 sdkmath.Int) []mc.Finding {
	var fs []mc.Finding
	bad := func(what string, moved *big.Int, rel string, bound sdkmath.Int) {
		fs = append(fs, mc.F("C02/bound-ignored/"+mt+"/"+what, "%s %s but the message stated %s %s", what, moved, rel, bound))
	}
	lpt, _, _ := lptOf(e, s, od.pool)
	switch od.kind {
	case "swap":
		if od.buy {
			if paid := neg(got.Get(od.who, od.in)); paid.Cmp(b1.BigInt()) > 0 {
				bad("paid", paid, "at most", b1)
			}
		} else if recv := got.Get(od.rcpt, od.out); recv.Cmp(b1.BigInt()) < 0 {
			bad("received", recv, "at least", b1)
		}
	case "addliq":
		if dep := neg(got.Get(od.who, od.pool)); dep.Cmp(b1.BigInt()) > 0 {
			bad("token-deposit", dep, "at most", b1)
		}
		if minted := got.Get(od.who, lpt); minted.Cmp(b2.BigInt()) < 0 {
			bad("minted-liquidity", minted, "at least", b2)
		}
	case "rmliq":
		if t := got.Get(od.who, od.pool); t.Cmp(b1.BigInt()) < 0 {
			bad("token-withdrawn", t, "at least", b1)
		}
		if st := got.Get(od.who, std); st.Cmp(b2.BigInt()) < 0 {
			bad("standard-withdrawn", st, "at least", b2)
		}
	case "uniadd":
		if minted := got.Get(od.who, lpt); minted.Cmp(b1.BigInt()) < 0 {
			bad("minted-liquidity", minted, "at least", b1)
		}
	case "unirm":
		if t := got.Get(od.who, od.side); t.Cmp(b1.BigInt()) < 0 {
			bad("token-withdrawn", t, "at least", b1)
		}
	}
	return fs
}

// tightBounds derives the exactly-met bounds from the amounts observed on the learning fork.
func (d *Driver) tightBounds(e *mc.Env, s *mc.State, od opData, learned mc.Delta) (sdkmath.Int, sdkmath.Int) {
	abs := func(x *big.Int) sdkmath.Int { return sdkmath.NewIntFromBigInt(new(big.Int).Abs(x)) }
	switch od.kind {
	case "swap":
		if od.buy {
			return abs(learned.Get("C", od.in)), sdkmath.ZeroInt()
		}
		return abs(learned.Get(od.rcpt, od.out)), sdkmath.ZeroInt()
	case "addliq":
		lpt, _, _ := lptOf(e, s, od.pool)
		return abs(learned.Get(od.who, od.pool)), abs(learned.Get(od.who, lpt))
	case "rmliq":
		return abs(learned.Get(od.who, od.pool)), abs(learned.Get(od.who, std))
	case "uniadd":
		lpt, _, _ := lptOf(e, s, od.pool)
		return abs(learned.Get(od.who, lpt)), sdkmath.ZeroInt()
	case "unirm":
		return abs(learned.Get(od.who, od.side)), sdkmath.ZeroInt()
	}
	panic("tightBounds")
}

var e18 = new(big.Int).Exp(big.NewInt(10), big.NewInt(18), nil)

// ruleHolds evaluates (Rin + (1-fee)*paid) * (Rout - recv) >= Rin*Rout in exact integers (scale 1e18).
func ruleHolds(rin, rout, paid, recv *big.Int, fee sdkmath.LegacyDec) bool {
	if recv.Cmp(rout) > 0 {
		return false
	}
	delta := new(big.Int).Sub(e18, fee.BigInt())
	l := new(big.Int).Add(new(big.Int).Mul(rin, e18), new(big.Int).Mul(delta, paid))
	l.Mul(l, new(big.Int).Sub(rout, recv))
	r := new(big.Int).Mul(new(big.Int).Mul(rin, rout), e18)
	return l.Cmp(r) >= 0
}

// swapLegCheck recomputes the fee-inclusive constant-product rule from the observed reserve changes.
func swapLegCheck(opName, mt, cp string, p0, p1 poolObs, fee sdkmath.LegacyDec, buy bool) []mc.Finding {
	dS := new(big.Int).Sub(p1.S, p0.S)
	dT := new(big.Int).Sub(p1.T, p0.T)
	if dS.Sign() == 0 && dT.Sign() == 0 {
		return nil
	}
	var rin, rout, paid, recv *big.Int
	switch {
	case dS.Sign() > 0 && dT.Sign() < 0:
		rin, rout, paid, recv = p0.S, p0.T, dS, new(big.Int).Neg(dT)
	case dT.Sign() > 0 && dS.Sign() < 0:
		rin, rout, paid, recv = p0.T, p0.S, dT, new(big.Int).Neg(dS)
	default:
		return []mc.Finding{mc.F("C01/swap-leg-shape/"+mt, "%s on pool %s: reserves moved dS=%s dT=%s (a swap leg takes one coin and gives the other)", opName, cp, dS, dT)}
	}
	var fs []mc.Finding
	if !ruleHolds(rin, rout, paid, recv, fee) {
		fs = append(fs, mc.F("C01/fee-rule-violated/"+mt, "%s on pool %s: Rin=%s Rout=%s paid=%s received=%s fee=%s", opName, cp, rin, rout, paid, recv, fee))
	}
	if !buy {
		// exact input: received is the largest amount the rule allows
		if ruleHolds(rin, rout, paid, new(big.Int).Add(recv, big.NewInt(1)), fee) && new(big.Int).Add(recv, big.NewInt(1)).Cmp(rout) < 0 {
			fs = append(fs, mc.F("C01/received-not-maximal/"+mt, "%s on pool %s: Rin=%s Rout=%s paid=%s received=%s but %s+1 also satisfies the rule (fee %s)", opName, cp, rin, rout, paid, recv, recv, fee))
		}
	} else {
		// exact output: paid is at most one unit above the smallest amount the rule allows
		p2 := new(big.Int).Sub(paid, big.NewInt(2))
		if p2.Sign() >= 0 && ruleHolds(rin, rout, p2, recv, fee) {
			fs = append(fs, mc.F("C01/paid-more-than-one-above-minimum/"+mt, "%s on pool %s: Rin=%s Rout=%s paid=%s received=%s but paid-2 also satisfies the rule (fee %s)", opName, cp, rin, rout, paid, recv, fee))
		}
	}
	return fs
}

// settlement checks the structure of the balance-sheet delta of one successful coinswap message.
func (d *Driver) settlement(e *mc.Env, s *mc.State, od opData, mt string, got mc.Delta, out mc.Outcome, pre map[string]poolObs) []mc.Finding {
	var fs []mc.Finding
	bad := func(rule, format string, a ...interface{}) {
		fs = append(fs, mc.F("C02/"+rule+"/"+mt, format, a...))
	}
	lptDenoms := map[string]string{}
	for _, cp := range []string{"btc", "eth", "usdt", "ada"} {
		if l, _, ok := lptOf(e, s, cp); ok {
			lptDenoms[cp] = l
		}
	}
	exp := mc.Expect()
	switch od.kind {
	case "swap":
		sold := neg(got.Get(od.who, od.in))
		bought := got.Get(od.rcpt, od.out)
		if od.who == od.rcpt {
			// same account: both entries on one label
		}
		if sold.Sign() <= 0 || bought.Sign() <= 0 {
			bad("balance-delta", "%s: sender %s-delta %s, recipient %s-delta %s; whole sheet [%s]", od.kind, od.in, neg(sold), od.out, bought, got)
			return fs
		}
		if !od.buy && sold.Cmp(od.amt.BigInt()) != 0 {
			bad("sold-differs-from-order", "sell order of %s%s debited %s", od.amt, od.in, sold)
		}
		if od.buy && bought.Cmp(od.amt.BigInt()) != 0 {
			bad("bought-differs-from-order", "buy order of %s%s credited %s", od.amt, od.out, bought)
		}
		exp.Add(od.who, od.in, neg(sold))
		exp.Add(od.rcpt, od.out, bought)
		if od.in != std && od.out != std {
			// routed: the intermediate standard coin passes only through the two pools
			x := neg(got.Get("pool-"+od.in, std))
			exp.Add("pool-"+od.in, od.in, sold).Add("pool-"+od.in, std, neg(x))
			exp.Add("pool-"+od.out, std, x).Add("pool-"+od.out, od.out, neg(bought))
			if x.Sign() <= 0 {
				bad("balance-delta", "routed swap moved no standard coin out of the first pool; sheet [%s]", got)
			}
		} else {
			cp := od.in
			if cp == std {
				cp = od.out
			}
			exp.Add("pool-"+cp, od.in, sold).Add("pool-"+cp, od.out, neg(bought))
		}
	case "addliq":
		lpt := lptDenoms[od.pool]
		minted := got.Get(od.who, lpt)
		dep := neg(got.Get(od.who, od.pool))
		resp, _ := out.Responses[0].(*cstypes.MsgAddLiquidityResponse)
		if resp == nil || resp.MintToken == nil || resp.MintToken.Amount.BigInt().Cmp(minted) != 0 || resp.MintToken.Denom != lpt {
			bad("response-differs", "response %v, minted to sender %s%s", resp, minted, lpt)
		}
		if minted.Sign() <= 0 || dep.Sign() <= 0 {
			bad("balance-delta", "add-liquidity minted %s for a token deposit of %s; sheet [%s]", minted, dep, got)
			return fs
		}
		fee := new(big.Int)
		if _, existed := pre[od.pool]; !existed {
			// pool creation fee: tax to the fee collector, the rest burned, nothing stays in the module account
			p := e.Coinswap.GetParams(s.Ctx)
			fee = p.PoolCreationFee.Amount.BigInt()
			tax := sdkmath.LegacyNewDecFromInt(p.PoolCreationFee.Amount).Mul(p.TaxRate).TruncateInt().BigInt()
			exp.Add("feecollector", p.PoolCreationFee.Denom, tax)
			exp.Add("supply", p.PoolCreationFee.Denom, neg(new(big.Int).Sub(fee, tax)))
			exp.Add(od.who, p.PoolCreationFee.Denom, neg(fee))
		}
		exp.Add(od.who, std, neg(od.amt.BigInt())).Add(od.who, od.pool, neg(dep)).Add(od.who, lpt, minted)
		exp.Add("pool-"+od.pool, std, od.amt.BigInt()).Add("pool-"+od.pool, od.pool, dep)
		exp.Add("supply", lpt, minted)
	case "rmliq":
		lpt := lptDenoms[od.pool]
		gotS, gotT := got.Get(od.who, std), got.Get(od.who, od.pool)
		resp, _ := out.Responses[0].(*cstypes.MsgRemoveLiquidityResponse)
		if resp == nil || sdk.NewCoins(resp.WithdrawCoins...).AmountOf(std).BigInt().Cmp(gotS) != 0 || sdk.NewCoins(resp.WithdrawCoins...).AmountOf(od.pool).BigInt().Cmp(gotT) != 0 {
			bad("response-differs", "response %v, sender received %s%s and %s%s", resp, gotS, std, gotT, od.pool)
		}
		exp.Add(od.who, lpt, neg(od.amt.BigInt())).Add("supply", lpt, neg(od.amt.BigInt()))
		exp.Add(od.who, std, gotS).Add(od.who, od.pool, gotT)
		exp.Add("pool-"+od.pool, std, neg(gotS)).Add("pool-"+od.pool, od.pool, neg(gotT))
		if gotS.Sign() < 0 || gotT.Sign() < 0 {
			bad("balance-delta", "remove-liquidity paid negative amounts; sheet [%s]", got)
		}
	case "uniadd":
		lpt := lptDenoms[od.pool]
		minted := got.Get(od.who, lpt)
		resp, _ := out.Responses[0].(*cstypes.MsgAddUnilateralLiquidityResponse)
		if resp == nil || resp.MintToken == nil || resp.MintToken.Amount.BigInt().Cmp(minted) != 0 {
			bad("response-differs", "response %v, minted to sender %s", resp, minted)
		}
		if minted.Sign() < 0 {
			bad("balance-delta", "one-sided add burned shares; sheet [%s]", got)
		}
		exp.Add(od.who, od.side, neg(od.amt.BigInt())).Add("pool-"+od.pool, od.side, od.amt.BigInt())
		exp.Add(od.who, lpt, minted).Add("supply", lpt, minted)
	case "unirm":
		lpt := lptDenoms[od.pool]
		recv := got.Get(od.who, od.side)
		resp, _ := out.Responses[0].(*cstypes.MsgRemoveUnilateralLiquidityResponse)
		if resp == nil || sdk.NewCoins(resp.WithdrawCoins...).AmountOf(od.side).BigInt().Cmp(recv) != 0 {
			bad("response-differs", "response %v, sender received %s%s", resp, recv, od.side)
		}
		if recv.Sign() < 0 {
			bad("balance-delta", "one-sided remove charged the sender; sheet [%s]", got)
		}
		exp.Add(od.who, lpt, neg(od.amt.BigInt())).Add("supply", lpt, neg(od.amt.BigInt()))
		exp.Add(od.who, od.side, recv).Add("pool-"+od.pool, od.side, neg(recv))
	}
	if !got.Equal(exp) {
		role := "parties"
		if od.kind == "swap" && od.who != od.rcpt {
			role = "recipient-differs-from-sender"
		}
		bad("balance-delta/"+role, "%s moved [%s], the property allows exactly [%s]", od.kind, got, exp)
	}
	return fs
}

func (d *Driver) Check(e *mc.Env, s *mc.State) []mc.Finding {
	n := 0
	for _, cp := range []string{"btc", "eth", "usdt", "ada"} {
		if o, ok := d.obs(e, s, cp); ok && o.L.Sign() > 0 {
			n++
		}
	}
	// non-trivial: both fixture pools live and at least one operation has changed a pool
	s.Nontrivial = n >= 2 && s.Depth > 0
	var fs []mc.Finding
	if d.V.Mode == "C02" {
		// the module account never retains coins between messages: it holds what users parked there themselves
		want := sdk.NewCoins()
		if pm, _ := s.Model.(*parked); pm != nil && pm.amount().Sign() > 0 {
			want = sdk.NewCoins(mc.CI(std, sdkmath.NewIntFromBigInt(pm.amount())))
		}
		if c := e.AllBal(s.Ctx, mc.ModuleAddr(cstypes.ModuleName)); !c.Equal(want) {
			fs = append(fs, mc.F("C02/module-account-retains-coins", "coinswap module account holds %s, users parked %s there", c, want))
		}
	}
	return fs
}

var _ = sort.Strings
var _ = time.Second
