package main

import "verif/harness/props/c12"

func init() { registry["C12"] = prop{"model_checking", seamAssumptions, c12.Parts} }
