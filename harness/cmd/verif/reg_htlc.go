package main

import "verif/harness/props/htlc"

func init() {
	registry["C03"] = prop{"model_checking", seamAssumptions, htlc.Parts("C03")}
	registry["C04"] = prop{"model_checking", seamAssumptions, htlc.Parts("C04")}
}
