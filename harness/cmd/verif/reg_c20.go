package main

import "verif/harness/props/c20"

func init() {
	registry["C20"] = prop{"exploration", []string{
		"both generated families are linked into one process; descriptors are taken from the gogoproto registry (embedded gzipped descriptors) and from protoregistry.GlobalFiles",
		"values are generated from the descriptors over the bounded domains stated in coverage.parts[].rule; nothing outside them is claimed",
		"the interface registry and signing context are those of the application wired by e2e.AppConfig (depinject), as in every other check",
	}, c20.Parts}
}
