// Command verif: `verif check <ID>` | `verif replay <ID> <file>`; tier and seed from the environment.
// Properties register themselves from reg_<id>.go files in this package.
package main

import (
	"fmt"
	"os"
	"sort"
	"strings"
	"syscall"

	"verif/harness/mc"
)

type prop struct {
	level       string
	assumptions []string
	parts       func() []mc.Part
}

var seamAssumptions = []string{
	"transactions are delivered through the app's MsgServiceRouter with ValidateBasic and tx atomicity, without ante handlers (signatures, fees, gas)",
	"blocks run the begin/end blockers of the ten irismod modules only (SDK modules' block logic is not stepped inside searches)",
	"bounds: the actors, amount domains and depth stated in coverage.parts[].bounds; nothing outside them is claimed",
}

var registry = map[string]prop{}

// innerParts holds, for properties whose parts run in child processes, the in-process parts the children run.
var innerParts = map[string]func() []mc.Part{}

func main() {
	if len(os.Args) >= 2 && os.Args[1] == "list" {
		var ids []string
		for k := range registry {
			ids = append(ids, k)
		}
		sort.Strings(ids)
		fmt.Println(strings.Join(ids, " "))
		return
	}
	if len(os.Args) < 3 {
		fmt.Fprintln(os.Stderr, "usage: verif check <ID> | verif replay <ID> <file> | verif list")
		os.Exit(2)
	}
	id := strings.ToUpper(os.Args[2])
	p, ok := registry[id]
	if !ok {
		fmt.Fprintln(os.Stderr, "unknown property", id)
		os.Exit(2)
	}
	switch os.Args[1] {
	case "part":
		if len(os.Args) < 4 || innerParts[id] == nil {
			os.Exit(2)
		}
		limitMemory()
		for _, ip := range innerParts[id]() {
			if ip.Name == os.Args[3] {
				os.Exit(mc.RunPartWire(id, ip))
			}
		}
		fmt.Fprintln(os.Stderr, "no such part", os.Args[3])
		os.Exit(2)
	case "check":
		os.Exit(mc.RunCheck(id, p.level, p.assumptions, p.parts()))
	case "replay":
		if len(os.Args) < 4 {
			os.Exit(2)
		}
		parts := p.parts()
		if f := innerParts[id]; f != nil {
			// inner parts first (they carry the replay functions of the explorations), then the parent-side parts
			parts = append(f(), parts...)
		}
		os.Exit(mc.RunReplay(id, parts, os.Args[3]))
	}
	os.Exit(2)
}

// limitMemory applies the address-space limit the parent asked for (guarded parts: an allocation sized by a
// parameter then fails at once instead of eating the machine).
func limitMemory() {
	v := os.Getenv("VERIF_MEM_LIMIT_MB")
	if v == "" {
		return
	}
	var mb uint64
	fmt.Sscan(v, &mb)
	if mb == 0 {
		return
	}
	lim := syscall.Rlimit{Cur: mb << 20, Max: mb << 20}
	_ = syscall.Setrlimit(syscall.RLIMIT_AS, &lim)
}
