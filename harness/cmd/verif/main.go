// Command verif: `verif check <ID>` | `verif replay <ID> <file>`; tier and seed from the environment.
package main

import (
	"fmt"
	"os"
	"strings"

	"verif/harness/mc"
	"verif/harness/props/c19"
)

type prop struct {
	level       string
	assumptions []string
	parts       func() []mc.Part
}

var seamAssumptions = []string{
	"transactions are delivered through the app's MsgServiceRouter with ValidateBasic and tx atomicity, without ante handlers (signatures, fees, gas)",
	"blocks run the begin/end blockers of the ten irismod modules only (SDK modules' block logic is not stepped inside searches)",
	"bounds: the actors, amount domains and depth stated in coverage.parts[].bounds; nothing outside them is claimed",
}

var registry = map[string]prop{
	"C19": {"model_checking", seamAssumptions, c19.Parts},
}

func main() {
	if len(os.Args) < 3 {
		fmt.Fprintln(os.Stderr, "usage: verif check <ID> | verif replay <ID> <file>")
		os.Exit(2)
	}
	id := strings.ToUpper(os.Args[2])
	p, ok := registry[id]
	if !ok {
		fmt.Fprintln(os.Stderr, "unknown property", id)
		os.Exit(2)
	}
	switch os.Args[1] {
	case "check":
		os.Exit(mc.RunCheck(id, p.level, p.assumptions, p.parts()))
	case "replay":
		if len(os.Args) < 4 {
			os.Exit(2)
		}
		os.Exit(mc.RunReplay(id, p.parts(), os.Args[3]))
	}
	os.Exit(2)
}
