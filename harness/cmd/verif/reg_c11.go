package main

import "verif/harness/props/c11"

func init() {
	registry["C11"] = prop{"model_checking", append([]string{
		"host clock and map iteration order are controlled through a build-time overlay of GOROOT's time/time.go and runtime/map.go (tools/gen_goroot_overlay.py); floating-point differences between CPU architectures cannot be enumerated on one machine",
	}, seamAssumptions...), c11.Parts}
	innerParts["C11"] = c11.InnerParts
}
