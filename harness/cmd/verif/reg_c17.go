package main

import "verif/harness/props/c17"

func init() { registry["C17"] = prop{"model_checking", seamAssumptions, c17.Parts} }
