package main

import "verif/harness/props/c19"

func init() { registry["C19"] = prop{"model_checking", seamAssumptions, c19.Parts} }
