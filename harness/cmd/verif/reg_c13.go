package main

import "verif/harness/props/c13"

func init() { registry["C13"] = prop{"model_checking", seamAssumptions, c13.Parts} }
