package main

import "verif/harness/props/farm"

func init() {
	registry["C05"] = prop{"model_checking", seamAssumptions, farm.Parts("C05")}
	registry["C06"] = prop{"model_checking", seamAssumptions, farm.Parts("C06")}
}
