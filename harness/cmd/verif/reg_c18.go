package main

import "verif/harness/props/c18"

func init() { registry["C18"] = prop{"model_checking", seamAssumptions, c18.Parts} }
