package main

import "verif/harness/props/c15"

func init() { registry["C15"] = prop{"model_checking", seamAssumptions, c15.Parts} }
