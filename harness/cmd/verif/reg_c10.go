package main

import "verif/harness/props/c10"

func init() { registry["C10"] = prop{"model_checking", seamAssumptions, c10.Parts} }
