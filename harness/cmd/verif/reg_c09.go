package main

import "verif/harness/props/c09"

func init() { registry["C09"] = prop{"model_checking", seamAssumptions, c09.Parts} }
