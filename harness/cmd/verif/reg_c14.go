package main

import "verif/harness/props/c14"

func init() { registry["C14"] = prop{"model_checking", seamAssumptions, c14.Parts} }
