package main

import "verif/harness/props/service"

func init() {
	registry["C07"] = prop{"model_checking", seamAssumptions, service.Parts("C07")}
	registry["C08"] = prop{"model_checking", seamAssumptions, service.Parts("C08")}
}
