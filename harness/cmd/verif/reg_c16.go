package main

import "verif/harness/props/c16"

func init() { registry["C16"] = prop{"model_checking", seamAssumptions, c16.Parts} }
