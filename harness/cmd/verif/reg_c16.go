package main

import "verif/harness/props/c16"

func init() {
	registry["C16"] = prop{"model_checking", seamAssumptions, c16.Parts}
	innerParts["C16"] = c16.InnerParts
}
