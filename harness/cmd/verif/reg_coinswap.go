package main

import "verif/harness/props/coinswap"

func init() {
	registry["C01"] = prop{"model_checking", seamAssumptions, coinswap.PartsC01}
	registry["C02"] = prop{"model_checking", seamAssumptions, coinswap.PartsC02}
}
